//! Shared plumbing for the correspondence harness.
//!
//! Every property has its own binary `src/bin/cXX.rs` with two modes:
//!   `cXX gen <tier> <seed>`            -> case lines on stdout (`CXX.op arg arg ...`)
//!   `cXX exec <cases> <expected>`      -> runs the REAL crate on every case line, compares with the
//!                                         model driver's answer (same line number of <expected>),
//!                                         prints JSON lines: one `{"mismatch":..}` per disagreement
//!                                         and one final `{"summary":..}`.
//! The real crate is called in-process under `catch_unwind`; a worker thread executes the cases and
//! the main thread watches its progress, so a non-terminating call is recorded as `hang`.

use std::collections::{BTreeMap, HashSet};
use std::io::{BufRead, Write};
use std::panic::{catch_unwind, AssertUnwindSafe};
use std::sync::mpsc;
use std::sync::Arc;
use std::time::{Duration, Instant};

pub use arr_rs::prelude::*;

// ---------------------------------------------------------------- rng

/// splitmix64 — every random choice of a run derives from one state seeded by VERIF_SEED
pub struct Rng(pub u64);
impl Rng {
    pub fn new(seed: u64) -> Self { Rng(seed.wrapping_mul(0x9E3779B97F4A7C15).wrapping_add(0x1234_5678_9ABC_DEF1)) }
    pub fn next(&mut self) -> u64 {
        self.0 = self.0.wrapping_add(0x9E3779B97F4A7C15);
        let mut z = self.0;
        z = (z ^ (z >> 30)).wrapping_mul(0xBF58476D1CE4E5B9);
        z = (z ^ (z >> 27)).wrapping_mul(0x94D049BB133111EB);
        z ^ (z >> 31)
    }
    pub fn below(&mut self, n: usize) -> usize { if n == 0 { 0 } else { (self.next() % n as u64) as usize } }
    pub fn range(&mut self, lo: i64, hi: i64) -> i64 { lo + (self.next() % ((hi - lo + 1) as u64)) as i64 }
    pub fn pick<'a, T>(&mut self, v: &'a [T]) -> &'a T { &v[self.below(v.len())] }
    pub fn shape(&mut self, min_rank: usize, max_rank: usize, max_len: usize) -> Vec<usize> {
        let r = min_rank + self.below(max_rank - min_rank + 1);
        (0..r).map(|_| 1 + self.below(max_len)).collect()
    }
    pub fn perm(&mut self, n: usize) -> Vec<usize> {
        let mut p: Vec<usize> = (0..n).collect();
        for i in (1..n).rev() { let j = self.below(i + 1); p.swap(i, j); }
        p
    }
}

// ---------------------------------------------------------------- enumeration

/// all shapes with rank in `min_rank..=max_rank` and every axis in `lo..=hi`
pub fn shapes(min_rank: usize, max_rank: usize, lo: usize, hi: usize) -> Vec<Vec<usize>> {
    let mut out = vec![];
    for r in min_rank..=max_rank { out.extend(boxes(&vec![hi + 1 - lo; r]).into_iter().map(|c| c.into_iter().map(|x| x + lo).collect::<Vec<usize>>())); }
    out
}

/// all coordinate vectors `c` with `c[k] < dims[k]`, row-major order
pub fn boxes(dims: &[usize]) -> Vec<Vec<usize>> {
    let mut out = vec![vec![]];
    for &d in dims {
        let mut nxt = Vec::with_capacity(out.len() * d);
        for c in &out { for x in 0..d { let mut c2 = c.clone(); c2.push(x); nxt.push(c2); } }
        out = nxt;
    }
    out
}

pub fn permutations(n: usize) -> Vec<Vec<usize>> {
    fn go(cur: &mut Vec<usize>, used: &mut Vec<bool>, n: usize, out: &mut Vec<Vec<usize>>) {
        if cur.len() == n { out.push(cur.clone()); return; }
        for i in 0..n { if !used[i] { used[i] = true; cur.push(i); go(cur, used, n, out); cur.pop(); used[i] = false; } }
    }
    let mut out = vec![]; go(&mut vec![], &mut vec![false; n], n, &mut out); out
}

// ---------------------------------------------------------------- protocol text

pub fn show_list<T: std::fmt::Display>(v: &[T]) -> String {
    if v.is_empty() { "-".to_string() } else { v.iter().map(|x| x.to_string()).collect::<Vec<_>>().join(",") }
}
pub fn parse_usize_list(s: &str) -> Vec<usize> { if s == "-" { vec![] } else { s.split(',').map(|x| x.parse().unwrap()).collect() } }
pub fn parse_i64_list(s: &str) -> Vec<i64> { if s == "-" { vec![] } else { s.split(',').map(|x| x.parse().unwrap()).collect() } }
pub fn parse_isize_list(s: &str) -> Vec<isize> { if s == "-" { vec![] } else { s.split(',').map(|x| x.parse().unwrap()).collect() } }
pub fn parse_opt<T: std::str::FromStr>(s: &str) -> Option<T> where T::Err: std::fmt::Debug { if s == "none" { None } else { Some(s.parse().unwrap()) } }
pub fn show_opt<T: std::fmt::Display>(o: &Option<T>) -> String { o.as_ref().map_or("none".to_string(), |x| x.to_string()) }

/// `i2,3` / `i2,3+1000` / `2,3:0,1,2,3,4,5` -> (shape, elements)
pub fn parse_arr_raw(s: &str) -> (Vec<usize>, Vec<i64>) {
    if let Some(body) = s.strip_prefix('i') {
        let (sh, off) = match body.split_once('+') { Some((a, b)) => (a, b.parse::<i64>().unwrap()), None => (body, 0) };
        let shape = parse_usize_list(sh);
        let n: usize = shape.iter().product();
        (shape, (0..n as i64).map(|i| i + off).collect())
    } else {
        let (sh, el) = s.split_once(':').unwrap();
        (parse_usize_list(sh), parse_i64_list(el))
    }
}
/// build the real array WITHOUT going through any operation under test other than `Array::new`
pub fn parse_arr_i64(s: &str) -> Array<i64> {
    let (shape, elems) = parse_arr_raw(s);
    Array::new(elems, shape).expect("harness: malformed array literal in case line")
}
pub fn parse_arr_i32(s: &str) -> Array<i32> {
    let (shape, elems) = parse_arr_raw(s);
    Array::new(elems.into_iter().map(|x| x as i32).collect(), shape).expect("harness: malformed array literal in case line")
}
pub fn parse_arr_list_i64(s: &str) -> Vec<Array<i64>> { if s == "-" { vec![] } else { s.split(';').map(parse_arr_i64).collect() } }
pub fn tag(shape: &[usize]) -> String { format!("i{}", show_list(shape)) }
pub fn tag_off(shape: &[usize], off: i64) -> String { format!("i{}+{}", show_list(shape), off) }

pub fn show_arr<T: ArrayElement + std::fmt::Display>(a: &Array<T>) -> String {
    format!("{}:{}", show_list(&a.get_shape().unwrap()), show_list(&a.get_elements().unwrap()))
}
pub fn show_arr_list<T: ArrayElement + std::fmt::Display>(v: &[Array<T>]) -> String {
    if v.is_empty() { "-".to_string() } else { v.iter().map(show_arr).collect::<Vec<_>>().join(";") }
}

pub fn err_name(e: &ArrayError) -> &'static str {
    match e {
        ArrayError::BroadcastShapeMismatch => "BroadcastShapeMismatch",
        ArrayError::ConcatenateShapeMismatch => "ConcatenateShapeMismatch",
        ArrayError::ShapeMustMatchValuesLength => "ShapeMustMatchValuesLength",
        ArrayError::ShapesMustMatch { .. } => "ShapesMustMatch",
        ArrayError::SqueezeShapeOfAxisMustBeOne => "SqueezeShapeOfAxisMustBeOne",
        ArrayError::AxisOutOfBounds => "AxisOutOfBounds",
        ArrayError::OutOfBounds { .. } => "OutOfBounds",
        ArrayError::ParameterError { .. } => "ParameterError",
        ArrayError::UnsupportedDimension { .. } => "UnsupportedDimension",
        ArrayError::MustBeUnique { .. } => "MustBeUnique",
        ArrayError::MustBeEqual { .. } => "MustBeEqual",
        ArrayError::MustBeAtLeast { .. } => "MustBeAtLeast",
        ArrayError::MustBeOneOf { .. } => "MustBeOneOf",
        ArrayError::NotImplemented => "NotImplemented",
        ArrayError::SingularMatrix => "SingularMatrix",
    }
}
pub fn show_res<T>(r: &Result<T, ArrayError>, f: impl Fn(&T) -> String) -> String {
    match r { Ok(v) => format!("ok {}", f(v)), Err(e) => format!("err {}", err_name(e)) }
}
pub fn res_arr<T: ArrayElement + std::fmt::Display>(r: &Result<Array<T>, ArrayError>) -> String { show_res(r, show_arr) }
pub fn res_arr_list<T: ArrayElement + std::fmt::Display>(r: &Result<Vec<Array<T>>, ArrayError>) -> String { show_res(r, |v| show_arr_list(v)) }

/// the C01 monitor, applied by every harness to every real array it receives:
/// elements.len() == product(shape) and len/ndim/is_empty agree.
pub fn consistent<T: ArrayElement>(a: &Array<T>) -> bool {
    let (e, s) = (a.get_elements().unwrap(), a.get_shape().unwrap());
    e.len() == s.iter().product::<usize>() && a.len().unwrap() == e.len() && a.ndim().unwrap() == s.len()
        && a.is_empty().unwrap() == e.is_empty()
}

/// outcome class of an answer line
pub fn class_of(s: &str) -> &'static str {
    if s.starts_with("ok") { "ok" } else if s.starts_with("err") { "err" } else if s == "panic" { "panic" } else if s == "hang" { "hang" } else { "other" }
}

/// run `f`, mapping a Rust panic to the outcome `panic`
pub fn guarded(f: impl FnOnce() -> String) -> String {
    match catch_unwind(AssertUnwindSafe(f)) { Ok(s) => s, Err(_) => "panic".to_string() }
}

// ---------------------------------------------------------------- verdicts

pub enum Verdict {
    /// observed agrees with the model (the observed text is kept for the statistics)
    Match(String),
    /// disagreement: what the real code did, and why this is not what the model/theorem says
    Mismatch { observed: String, detail: String },
    /// the statement leaves this case open (e.g. which error variant); not compared
    Open(String),
}

/// default comparison: equal text; two errors agree whatever their variant
/// (the properties say "an error", payload and variant are not part of any statement).
pub fn compare_default(observed: String, expected: &str) -> Verdict {
    if observed == expected { Verdict::Match(observed) }
    else if class_of(&observed) == "err" && class_of(expected) == "err" { Verdict::Match(observed) }
    else { Verdict::Mismatch { detail: format!("model says `{}`", truncate(expected, 400)), observed } }
}

pub fn truncate(s: &str, n: usize) -> String { if s.len() <= n { s.to_string() } else { format!("{}…[{} bytes]", &s[..n], s.len()) } }

pub fn json_str(s: &str) -> String {
    let mut o = String::with_capacity(s.len() + 2);
    o.push('"');
    for c in s.chars() {
        match c {
            '"' => o.push_str("\\\""), '\\' => o.push_str("\\\\"), '\n' => o.push_str("\\n"), '\r' => o.push_str("\\r"), '\t' => o.push_str("\\t"),
            c if (c as u32) < 0x20 => o.push_str(&format!("\\u{:04x}", c as u32)),
            c => o.push(c),
        }
    }
    o.push('"'); o
}

// ---------------------------------------------------------------- main loop

pub type ExecFn = fn(op: &str, args: &[&str], expected: &str) -> Option<Verdict>;
pub type GenFn = fn(tier: &str, seed: u64, out: &mut dyn FnMut(String));
/// is this case line "non-trivial" by the property's stated rule?
pub type NontrivialFn = fn(op: &str, args: &[&str]) -> bool;

pub struct Spec { pub prop: &'static str, pub gen: GenFn, pub exec: ExecFn, pub nontrivial: NontrivialFn, pub rule: &'static str, pub hang_secs: u64 }

pub fn harness_main(spec: Spec) {
    std::panic::set_hook(Box::new(|_| {}));
    let args: Vec<String> = std::env::args().collect();
    match args.get(1).map(String::as_str) {
        Some("gen") => {
            let tier = args.get(2).cloned().unwrap_or_else(|| "quick".into());
            let seed: u64 = args.get(3).and_then(|s| s.parse().ok()).unwrap_or(0);
            let stdout = std::io::stdout();
            let mut w = std::io::BufWriter::with_capacity(1 << 20, stdout.lock());
            let prefix = format!("{}.", spec.prop);
            (spec.gen)(&tier, seed, &mut |line: String| { w.write_all(prefix.as_bytes()).unwrap(); w.write_all(line.as_bytes()).unwrap(); w.write_all(b"\n").unwrap(); });
            w.flush().unwrap();
        }
        Some("exec") => run_exec(&spec, &args[2], &args[3]),
        _ => { eprintln!("usage: {} gen <tier> <seed> | exec <cases> <expected>", spec.prop); std::process::exit(2); }
    }
}

fn read_lines(p: &str) -> Vec<String> {
    std::io::BufReader::new(std::fs::File::open(p).unwrap_or_else(|e| panic!("open {p}: {e}"))).lines().map(|l| l.unwrap()).collect()
}

fn exec_one(spec: &Spec, line: &str, expected: &str) -> Option<Verdict> {
    let mut it = line.split(' ');
    let full = it.next()?;
    let op = full.split_once('.').map_or(full, |(_, o)| o);
    let args: Vec<&str> = it.collect();
    match catch_unwind(AssertUnwindSafe(|| (spec.exec)(op, &args, expected))) {
        Ok(v) => v,
        // a panic that escaped the per-call guard is a harness defect, not an observation
        Err(_) => None,
    }
}

fn run_exec(spec: &Spec, cases_path: &str, expected_path: &str) {
    let cases = Arc::new(read_lines(cases_path));
    let expected = Arc::new(read_lines(expected_path));
    let t0 = Instant::now();
    let stdout = std::io::stdout();
    let mut w = std::io::BufWriter::new(stdout.lock());
    if cases.len() != expected.len() {
        writeln!(w, "{{\"fatal\":\"cases ({}) and expected ({}) differ in length\"}}", cases.len(), expected.len()).unwrap();
        return;
    }
    let n = cases.len();
    let mut verdicts: Vec<Option<Option<Verdict>>> = (0..n).map(|_| None).collect();
    let mut next = 0usize;
    let mut generation = 0u64;
    let mut hangs = 0usize;
    let spec_arc = Arc::new(Spec { prop: spec.prop, gen: spec.gen, exec: spec.exec, nontrivial: spec.nontrivial, rule: spec.rule, hang_secs: spec.hang_secs });
    while next < n {
        let (tx, rx) = mpsc::channel::<(u64, usize, Option<Verdict>)>();
        let (c, e, s, g, start) = (cases.clone(), expected.clone(), spec_arc.clone(), generation, next);
        std::thread::Builder::new().stack_size(256 << 20).spawn(move || {
            for i in start..c.len() {
                let v = exec_one(&s, &c[i], &e[i]);
                if tx.send((g, i, v)).is_err() { return; }
            }
        }).unwrap();
        loop {
            match rx.recv_timeout(Duration::from_secs(spec.hang_secs)) {
                Ok((g, i, v)) => { if g == generation { verdicts[i] = Some(v); next = i + 1; if next >= n { break; } } }
                Err(mpsc::RecvTimeoutError::Timeout) => {
                    // slow or hanging?  A loaded machine must never turn a slow-but-correct call into a `hang`: for the first
                    // two time-outs of a run wait another 8 x hang_secs; an answer that arrives in that grace period is judged
                    // like any other answer.
                    if hangs < 2 {
                        if let Ok((g, i, v)) = rx.recv_timeout(Duration::from_secs(spec.hang_secs * 8)) {
                            if g == generation { verdicts[i] = Some(v); next = i + 1; if next >= n { break; } }
                            continue;
                        }
                    }
                    // the call at `next` did not return: outcome `hang`
                    let observed = "hang".to_string();
                    verdicts[next] = Some(Some(compare_default(observed, &expected[next])));
                    hangs += 1; next += 1; generation += 1;
                    break;
                }
                Err(mpsc::RecvTimeoutError::Disconnected) => { break; }
            }
        }
        if hangs > 12 { break; }
    }
    // summary
    let mut mism = 0usize; let mut open = 0usize; let mut bad = 0usize; let mut evals = 0usize;
    let mut distinct: HashSet<&str> = HashSet::new();
    let mut nontrivial: HashSet<&str> = HashSet::new();
    let mut ops: BTreeMap<String, usize> = BTreeMap::new();
    let mut classes: BTreeMap<String, usize> = BTreeMap::new();
    let mut samples: Vec<String> = vec![];
    let stride = (n / 12).max(1);
    for i in 0..n {
        let line = cases[i].as_str();
        let mut it = line.split(' ');
        let full = it.next().unwrap_or("");
        let op = full.split_once('.').map_or(full, |(_, o)| o);
        let args: Vec<&str> = it.collect();
        *ops.entry(op.to_string()).or_default() += 1;
        match &verdicts[i] {
            None => { bad += 1; writeln!(w, "{{\"unexecuted\":{},\"case\":{}}}", i, json_str(line)).unwrap(); }
            Some(None) => { bad += 1; writeln!(w, "{{\"harness_error\":{},\"case\":{},\"expected\":{}}}", i, json_str(line), json_str(&truncate(&expected[i], 300))).unwrap(); }
            Some(Some(v)) => {
                evals += 1;
                if distinct.insert(line) && (spec.nontrivial)(op, &args) { nontrivial.insert(line); }
                let obs = match v {
                    Verdict::Match(o) => o.as_str(),
                    Verdict::Open(o) => { open += 1; o.as_str() }
                    Verdict::Mismatch { observed, detail } => {
                        mism += 1;
                        writeln!(w, "{{\"mismatch\":{},\"case\":{},\"op\":{},\"observed\":{},\"expected\":{},\"detail\":{}}}",
                            i, json_str(line), json_str(op), json_str(&truncate(observed, 2000)), json_str(&truncate(&expected[i], 2000)), json_str(detail)).unwrap();
                        observed.as_str()
                    }
                };
                *classes.entry(class_of(obs).to_string()).or_default() += 1;
                if i % stride == 0 && samples.len() < 12 { samples.push(format!("{}  =>  {}", line, truncate(obs, 160))); }
            }
        }
    }
    let ops_json = ops.iter().map(|(k, v)| format!("{}:{}", json_str(k), v)).collect::<Vec<_>>().join(",");
    let cls_json = classes.iter().map(|(k, v)| format!("{}:{}", json_str(k), v)).collect::<Vec<_>>().join(",");
    let smp_json = samples.iter().map(|s| json_str(s)).collect::<Vec<_>>().join(",");
    writeln!(w, "{{\"summary\":{{\"prop\":{},\"cases\":{},\"evaluations\":{},\"distinct\":{},\"distinct_nontrivial\":{},\"mismatches\":{},\"open_region\":{},\"harness_errors\":{},\"hangs\":{},\"ops\":{{{}}},\"outcomes\":{{{}}},\"samples\":[{}],\"rule\":{},\"exec_s\":{:.3}}}}}",
        json_str(spec.prop), n, evals, distinct.len(), nontrivial.len(), mism, open, bad, hangs, ops_json, cls_json, smp_json, json_str(spec.rule), t0.elapsed().as_secs_f64()).unwrap();
    w.flush().unwrap();
    // leaked hanging workers must not keep the process alive
    std::process::exit(0);
}

// ---------------------------------------------------------------- robustness streams (FRAMEWORK.md "Robustness streams")

/// shapes beyond the exhaustive small scope that every structural generator should include:
/// axis lengths 7..17 in leading / inner / trailing position and element counts above 256, 1024 and 4096
pub fn big_shapes() -> Vec<Vec<usize>> {
    vec![vec![8], vec![9], vec![16], vec![17], vec![64], vec![100], vec![300], vec![1030], vec![4100],
         vec![3, 8], vec![8, 3], vec![3, 9], vec![9, 9], vec![17, 16], vec![16, 17], vec![2, 8, 3], vec![3, 2, 8], vec![8, 2, 3],
         vec![4, 4, 4, 4], vec![5, 5, 5, 5], vec![40, 30], vec![70, 70], vec![2, 3, 4, 5, 2], vec![7, 1, 9], vec![1, 16, 1, 17]]
}
/// shapes with zero-length axes
pub fn zero_shapes() -> Vec<Vec<usize>> {
    vec![vec![0], vec![0, 0], vec![2, 0], vec![0, 2], vec![1, 0], vec![0, 1], vec![2, 0, 3], vec![0, 0, 2], vec![2, 3, 0]]
}

/// tag ↦ element for the cross-type sweep of value-blind operations
pub fn tag_u8(t: i64) -> u8 { t.rem_euclid(251) as u8 }
/// tag 0 becomes NEGATIVE zero, so a copy that goes through `== zero`, `+ 0.0` or a zero-filled buffer is visible bit-wise
pub fn tag_f64z(t: i64) -> f64 { if t == 0 { -0.0 } else { t as f64 } }
pub fn tag_i8(t: i64) -> i8 { (t.rem_euclid(127)) as i8 }
pub fn parse_arr_u8(s: &str) -> Array<u8> { let (sh, e) = parse_arr_raw(s); Array::new(e.into_iter().map(tag_u8).collect(), sh).expect("harness: array literal") }
pub fn parse_arr_i8(s: &str) -> Array<i8> { let (sh, e) = parse_arr_raw(s); Array::new(e.into_iter().map(tag_i8).collect(), sh).expect("harness: array literal") }
pub fn parse_arr_f64z(s: &str) -> Array<f64> { let (sh, e) = parse_arr_raw(s); Array::new(e.into_iter().map(tag_f64z).collect(), sh).expect("harness: array literal") }
pub fn parse_arr_bool(s: &str) -> Array<bool> { let (sh, e) = parse_arr_raw(s); Array::new(e.into_iter().map(|t| t % 2 != 0).collect(), sh).expect("harness: array literal") }
pub fn parse_arr_list_u8(s: &str) -> Vec<Array<u8>> { if s == "-" { vec![] } else { s.split(';').map(parse_arr_u8).collect() } }
pub fn parse_arr_list_f64z(s: &str) -> Vec<Array<f64>> { if s == "-" { vec![] } else { s.split(';').map(parse_arr_f64z).collect() } }

fn same_class<A, B>(a: &Result<A, ArrayError>, b: &Result<B, ArrayError>) -> bool { a.is_ok() == b.is_ok() }

/// A value-blind operation must do the same thing whatever the element type: compare the result on i64 tags with the results
/// of the SAME call on `u8` tags (mod 251) and on `f64` tags with tag 0 = -0.0 (bit-exact).  `None` = they agree.
pub fn cross_type_arr(ri: &Result<Array<i64>, ArrayError>, ru: &Result<Array<u8>, ArrayError>, rf: &Result<Array<f64>, ArrayError>) -> Option<String> {
    if !same_class(ri, ru) { return Some(format!("element type u8 gives a different outcome class ({})", show_res(ru, |a| show_arr(a)))); }
    if !same_class(ri, rf) { return Some(format!("element type f64 gives a different outcome class ({})", show_res(rf, |a| show_arr(a)))); }
    if let (Ok(i), Ok(u), Ok(f)) = (ri, ru, rf) {
        let (ei, eu, ef) = (i.get_elements().unwrap(), u.get_elements().unwrap(), f.get_elements().unwrap());
        if i.get_shape().unwrap() != u.get_shape().unwrap() || ei.len() != eu.len() { return Some(format!("u8 result has another shape: {}", show_arr(u))); }
        if i.get_shape().unwrap() != f.get_shape().unwrap() || ei.len() != ef.len() { return Some(format!("f64 result has another shape: {}", show_arr(f))); }
        for p in 0..ei.len() {
            if eu[p] != tag_u8(ei[p]) { return Some(format!("u8 run differs at flat position {p}: {} instead of {}", eu[p], tag_u8(ei[p]))); }
            if ef[p].to_bits() != tag_f64z(ei[p]).to_bits() { return Some(format!("f64 run differs bit-wise at flat position {p}: {:?} instead of {:?} (tag 0 is -0.0)", ef[p], tag_f64z(ei[p]))); }
        }
    }
    None
}
pub fn cross_type_list(ri: &Result<Vec<Array<i64>>, ArrayError>, ru: &Result<Vec<Array<u8>>, ArrayError>, rf: &Result<Vec<Array<f64>>, ArrayError>) -> Option<String> {
    if !same_class(ri, ru) || !same_class(ri, rf) { return Some("another element type gives a different outcome class".into()); }
    if let (Ok(i), Ok(u), Ok(f)) = (ri, ru, rf) {
        if i.len() != u.len() || i.len() != f.len() { return Some("another element type gives a different number of pieces".into()); }
        for k in 0..i.len() { if let Some(d) = cross_type_arr(&Ok(i[k].clone()), &Ok(u[k].clone()), &Ok(f[k].clone())) { return Some(format!("piece {k}: {d}")); } }
    }
    None
}

/// Run `$body` (an expression in the array binding `$a`, returning `Result<Array<_>, ArrayError>`) on the i64, u8 and f64(-0.0)
/// versions of the tag array `$src`, under `catch_unwind`.  Evaluates to the canonical i64 answer text, or to a text starting
/// with `TYPE-DIVERGENCE` when the element types disagree (which then fails the comparison with the model).
#[macro_export]
macro_rules! on_types_arr {
    ($src:expr, |$a:ident| $body:expr) => {{
        let run_i = || { let $a = $crate::parse_arr_i64($src); std::panic::catch_unwind(std::panic::AssertUnwindSafe(|| $body)) };
        let run_u = || { let $a = $crate::parse_arr_u8($src); std::panic::catch_unwind(std::panic::AssertUnwindSafe(|| $body)) };
        let run_f = || { let $a = $crate::parse_arr_f64z($src); std::panic::catch_unwind(std::panic::AssertUnwindSafe(|| $body)) };
        match (run_i(), run_u(), run_f()) {
            (Ok(ri), Ok(ru), Ok(rf)) => match $crate::cross_type_arr(&ri, &ru, &rf) { None => $crate::res_arr(&ri), Some(d) => format!("TYPE-DIVERGENCE {d}; i64 run: {}", $crate::res_arr(&ri)) },
            (Err(_), Err(_), Err(_)) => "panic".to_string(),
            (ri, ru, rf) => format!("TYPE-DIVERGENCE panic only for some element types (i64 {}, u8 {}, f64 {})", ri.is_err(), ru.is_err(), rf.is_err()),
        }
    }};
}
/// same for operations returning `Result<Vec<Array<_>>, ArrayError>`
#[macro_export]
macro_rules! on_types_list {
    ($src:expr, |$a:ident| $body:expr) => {{
        let run_i = || { let $a = $crate::parse_arr_i64($src); std::panic::catch_unwind(std::panic::AssertUnwindSafe(|| $body)) };
        let run_u = || { let $a = $crate::parse_arr_u8($src); std::panic::catch_unwind(std::panic::AssertUnwindSafe(|| $body)) };
        let run_f = || { let $a = $crate::parse_arr_f64z($src); std::panic::catch_unwind(std::panic::AssertUnwindSafe(|| $body)) };
        match (run_i(), run_u(), run_f()) {
            (Ok(ri), Ok(ru), Ok(rf)) => match $crate::cross_type_list(&ri, &ru, &rf) { None => $crate::res_arr_list(&ri), Some(d) => format!("TYPE-DIVERGENCE {d}; i64 run: {}", $crate::res_arr_list(&ri)) },
            (Err(_), Err(_), Err(_)) => "panic".to_string(),
            (ri, ru, rf) => format!("TYPE-DIVERGENCE panic only for some element types (i64 {}, u8 {}, f64 {})", ri.is_err(), ru.is_err(), rf.is_err()),
        }
    }};
}
/// The chained form: the same call on `Ok(array)` through the `impl … for Result<Array<T>, ArrayError>` must give the same answer
/// as on the plain receiver.  `$plain` and `$chained` are expressions giving `Result<Array<_>,_>`; evaluates to the plain answer text
/// or to a `RECEIVER-DIVERGENCE …` text.
#[macro_export]
macro_rules! both_receivers_arr {
    ($plain:expr, $chained:expr) => {{
        let p = std::panic::catch_unwind(std::panic::AssertUnwindSafe(|| $plain));
        let c = std::panic::catch_unwind(std::panic::AssertUnwindSafe(|| $chained));
        match (p, c) {
            (Ok(p), Ok(c)) => { let (tp, tc) = ($crate::res_arr(&p), $crate::res_arr(&c)); if tp == tc { tp } else { format!("RECEIVER-DIVERGENCE chained call gives `{}`, plain call `{}`", $crate::truncate(&tc, 300), $crate::truncate(&tp, 300)) } }
            (Err(_), Err(_)) => "panic".to_string(),
            (p, c) => format!("RECEIVER-DIVERGENCE panic only on one receiver (plain {}, chained {})", p.is_err(), c.is_err()),
        }
    }};
}

// ---------------------------------------------------------------- robustness streams, part 2 (after the third round of seeded changes)

/// shapes with 16 384 .. 140 000 elements (blocked / tiled / strided fast paths above 2^14, 2^15, 2^16 elements; extents that are
/// not multiples of 32; one axis above 65 536).  Model drivers are list-backed: use these with a harness-native reference oracle that
/// is validated against the model on every smaller case of the same run, or with operations whose model is linear.
pub fn huge_shapes() -> Vec<Vec<usize>> {
    vec![vec![130, 130], vec![100, 200], vec![129, 131], vec![16385], vec![33000], vec![70000], vec![2, 70000], vec![70000, 2],
         vec![40, 30, 30], vec![10, 11, 12, 13], vec![5, 4, 10, 10, 10], vec![300, 300]]
}

/// pairs of shapes that collide under the classic weak polynomial hashes `h = h*m + dim` (m = 31, 33, 37, 131, 257, 65599) — a
/// memoisation keyed by such a hash without an equality check returns the plan / count of the OTHER shape.  Execute the two
/// members of a pair directly after one another, in both orders, in the same thread.
pub fn collision_shape_pairs() -> Vec<(Vec<usize>, Vec<usize>)> {
    let mut v = vec![];
    for &m in &[31usize, 33, 37, 131, 257] {
        for a in [2usize, 3, 5] { for b in [1usize, 2, 7] {
            v.push((vec![a, b], vec![a - 1, b + m]));                 // a*m + b == (a-1)*m + (b+m)
            v.push((vec![a, b, 2], vec![a - 1, b + m, 2]));
            v.push((vec![2, a, b], vec![2, a - 1, b + m]));
        } }
    }
    v
}

/// values that survive a narrowing cast to u8 / u16 / u32 as `c`: `c + 2^8`, `c + 2^16`, `c + 2^32` (an index or coordinate check done
/// on a narrowed value accepts them)
pub fn narrowing_images(c: usize) -> Vec<usize> { vec![c + (1 << 8), c + (1 << 16), c + (1usize << 32), c + (1usize << 32) * 3] }

// ---------------------------------------------------------------- robustness streams, part 3 (after the fourth round of seeded changes)

/// Element types with UNUSUAL LAYOUT for value-blind (`T: ArrayElement`) operations: `Tuple3<i32,i32,i32>` is 12 bytes and
/// `Tuple3<u8,u8,u8>` 3 bytes (not powers of two: tiles of `64 / size_of::<T>()` elements are then not powers of two either),
/// `Tuple2<String,i32>` is 32 bytes wide and not `Copy` (paths chosen by `size_of::<T>() > 24`, clone-heavy paths).
pub type T3 = Tuple3<i32, i32, i32>;
pub type T3b = Tuple3<u8, u8, u8>;
pub type TW = Tuple2<String, i32>;
pub fn tag_t3(t: i64) -> T3 { Tuple3(t as i32, (t as i32).wrapping_neg(), (t as i32) ^ 0x55) }
pub fn tag_t3b(t: i64) -> T3b { let u = tag_u8(t); Tuple3(u, u.wrapping_add(1), !u) }
pub fn tag_tw(t: i64) -> TW { Tuple2(format!("s{t}"), t as i32) }
pub fn parse_arr_t3(s: &str) -> Array<T3> { let (sh, e) = parse_arr_raw(s); Array::new(e.into_iter().map(tag_t3).collect(), sh).expect("harness: array literal") }
pub fn parse_arr_t3b(s: &str) -> Array<T3b> { let (sh, e) = parse_arr_raw(s); Array::new(e.into_iter().map(tag_t3b).collect(), sh).expect("harness: array literal") }
pub fn parse_arr_tw(s: &str) -> Array<TW> { let (sh, e) = parse_arr_raw(s); Array::new(e.into_iter().map(tag_tw).collect(), sh).expect("harness: array literal") }

/// compare the i64-tag answer of a value-blind operation with the answers of the same call on the three odd-layout element types
pub fn cross_layout_arr(ri: &Result<Array<i64>, ArrayError>, r3: &Result<Array<T3>, ArrayError>, r3b: &Result<Array<T3b>, ArrayError>, rw: &Result<Array<TW>, ArrayError>) -> Option<String> {
    if !same_class(ri, r3) || !same_class(ri, r3b) || !same_class(ri, rw) { return Some("a 12-byte / 3-byte / 32-byte element type gives a different outcome class".into()); }
    if let (Ok(i), Ok(a), Ok(b), Ok(w)) = (ri, r3, r3b, rw) {
        let ei = i.get_elements().unwrap();
        let sh = i.get_shape().unwrap();
        if a.get_shape().unwrap() != sh || b.get_shape().unwrap() != sh || w.get_shape().unwrap() != sh { return Some("an odd-layout element type gives another result shape".into()); }
        let (ea, eb, ew) = (a.get_elements().unwrap(), b.get_elements().unwrap(), w.get_elements().unwrap());
        if ea.len() != ei.len() || eb.len() != ei.len() || ew.len() != ei.len() { return Some("an odd-layout element type gives another element count".into()); }
        for p in 0..ei.len() {
            if ea[p] != tag_t3(ei[p]) { return Some(format!("Tuple3<i32,i32,i32> (12 bytes) run differs at flat position {p}: {:?} instead of {:?}", ea[p], tag_t3(ei[p]))); }
            if eb[p] != tag_t3b(ei[p]) { return Some(format!("Tuple3<u8,u8,u8> (3 bytes) run differs at flat position {p}: {:?} instead of {:?}", eb[p], tag_t3b(ei[p]))); }
            if ew[p] != tag_tw(ei[p]) { return Some(format!("Tuple2<String,i32> (32 bytes) run differs at flat position {p}: {:?} instead of {:?}", ew[p], tag_tw(ei[p]))); }
        }
    }
    None
}
pub fn cross_layout_list(ri: &Result<Vec<Array<i64>>, ArrayError>, r3: &Result<Vec<Array<T3>>, ArrayError>, r3b: &Result<Vec<Array<T3b>>, ArrayError>, rw: &Result<Vec<Array<TW>>, ArrayError>) -> Option<String> {
    if !same_class(ri, r3) || !same_class(ri, r3b) || !same_class(ri, rw) { return Some("a 12-byte / 3-byte / 32-byte element type gives a different outcome class".into()); }
    if let (Ok(i), Ok(a), Ok(b), Ok(w)) = (ri, r3, r3b, rw) {
        if a.len() != i.len() || b.len() != i.len() || w.len() != i.len() { return Some("an odd-layout element type gives a different number of pieces".into()); }
        for k in 0..i.len() { if let Some(d) = cross_layout_arr(&Ok(i[k].clone()), &Ok(a[k].clone()), &Ok(b[k].clone()), &Ok(w[k].clone())) { return Some(format!("piece {k}: {d}")); } }
    }
    None
}
/// Run `$body` (generic in the element type, `T: ArrayElement` only) on the i64 tags and on the three odd-layout types; evaluates to the
/// canonical i64 answer text or to a `LAYOUT-DIVERGENCE …` text (which fails the comparison with the model).
#[macro_export]
macro_rules! on_layouts_arr {
    ($src:expr, |$a:ident| $body:expr) => {{
        let run_i = || { let $a = $crate::parse_arr_i64($src); std::panic::catch_unwind(std::panic::AssertUnwindSafe(|| $body)) };
        let run_3 = || { let $a = $crate::parse_arr_t3($src); std::panic::catch_unwind(std::panic::AssertUnwindSafe(|| $body)) };
        let run_b = || { let $a = $crate::parse_arr_t3b($src); std::panic::catch_unwind(std::panic::AssertUnwindSafe(|| $body)) };
        let run_w = || { let $a = $crate::parse_arr_tw($src); std::panic::catch_unwind(std::panic::AssertUnwindSafe(|| $body)) };
        match (run_i(), run_3(), run_b(), run_w()) {
            (Ok(ri), Ok(r3), Ok(rb), Ok(rw)) => match $crate::cross_layout_arr(&ri, &r3, &rb, &rw) { None => $crate::res_arr(&ri), Some(d) => format!("LAYOUT-DIVERGENCE {d}; i64 run: {}", $crate::res_arr(&ri)) },
            (Err(_), Err(_), Err(_), Err(_)) => "panic".to_string(),
            (ri, r3, rb, rw) => format!("LAYOUT-DIVERGENCE panic only for some element types (i64 {}, 12-byte {}, 3-byte {}, 32-byte {})", ri.is_err(), r3.is_err(), rb.is_err(), rw.is_err()),
        }
    }};
}
#[macro_export]
macro_rules! on_layouts_list {
    ($src:expr, |$a:ident| $body:expr) => {{
        let run_i = || { let $a = $crate::parse_arr_i64($src); std::panic::catch_unwind(std::panic::AssertUnwindSafe(|| $body)) };
        let run_3 = || { let $a = $crate::parse_arr_t3($src); std::panic::catch_unwind(std::panic::AssertUnwindSafe(|| $body)) };
        let run_b = || { let $a = $crate::parse_arr_t3b($src); std::panic::catch_unwind(std::panic::AssertUnwindSafe(|| $body)) };
        let run_w = || { let $a = $crate::parse_arr_tw($src); std::panic::catch_unwind(std::panic::AssertUnwindSafe(|| $body)) };
        match (run_i(), run_3(), run_b(), run_w()) {
            (Ok(ri), Ok(r3), Ok(rb), Ok(rw)) => match $crate::cross_layout_list(&ri, &r3, &rb, &rw) { None => $crate::res_arr_list(&ri), Some(d) => format!("LAYOUT-DIVERGENCE {d}; i64 run: {}", $crate::res_arr_list(&ri)) },
            (Err(_), Err(_), Err(_), Err(_)) => "panic".to_string(),
            (ri, r3, rb, rw) => format!("LAYOUT-DIVERGENCE panic only for some element types (i64 {}, 12-byte {}, 3-byte {}, 32-byte {})", ri.is_err(), r3.is_err(), rb.is_err(), rw.is_err()),
        }
    }};
}

/// shapes with 2^20 < count <= ~2.2·10^6 (blocked / tiled / strided paths that only start at a million elements; extents that are
/// not multiples of 64; a stretched axis above a kept axis above a stretched axis; a middle axis with product > 1 on both sides).
/// Only for operations with a harness-native reference oracle (validated against the model on the smaller cases of the same run):
/// the arrays are built from the shape by the harness (`iota_tags`), never written into a case line.
pub fn giant_shapes() -> Vec<Vec<usize>> {
    vec![vec![1 << 20 | 5], vec![3, 400_001], vec![400_001, 3], vec![1031, 1033], vec![2, 131_073, 4], vec![5, 70_000, 4], vec![600, 2, 1000],
         vec![2, 3, 174_763], vec![65, 129, 127], vec![2_097_153]]
}
/// a case line names a giant array as `iota:<shape>`: element k of the flat data is the tag k (as i64)
pub fn iota_tags(shape: &[usize]) -> Array<i64> { let n: usize = shape.iter().product(); Array::new((0..n as i64).collect(), shape.to_vec()).expect("harness: iota array") }
