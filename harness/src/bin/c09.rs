//! C09 — failures are error values and flow unchanged through chained calls (outcome protocol).
//!
//! Case lines `C09.<class>.<Trait>.<method> <receiver> <tokens…>`; classes:
//!   m  invalid argument, the driver runs the Lean model of the operation      -> outcome class must be `err`
//!   b  non-fitting operand shape, the driver runs the shared broadcasting funnel (`Arr.broadcast`) -> `err`
//!   x  the MODEL decides (round 5 part 2): the driver runs the model and the real call must fall into its outcome class (ok / err; a panic
//!      or a model panic always fails) - the three-argument relations of insert along an axis (Arr.insertAxis), Unicode look-alike option names
//!   u  invalid argument, operation not modelled: the driver answers the constant `err` (class only) — since round 5 only diff,
//!      unwrap_phase, linspace_a / logspace_a / geomspace_a, eig / eigvals, the failing-closure lines of apply_along_axis and the lines on
//!      receivers above 2^24 elements (insert(axis) is class m / x since round 5 part 2);
//!      slice, indices_at, repeat(None), the linalg products, det / qr / solve, norm and every option-name line are class m
//!      (Driver/C09.lean: runOption / runForeign run the models of C02-ext, C13, C14, C15, C10, C19 and the table parsers)
//!   o  region the statement leaves open (tolerated/clamped arguments): only `panic`/`hang` is a failure
//!   n  smoke call with default arguments on ordinary, unit and empty receivers: only `panic`/`hang` is a failure
//!   t  extreme argument values the statement does not call invalid: only `panic`/`hang` is a failure
//!   p  propagation: the method is invoked on `Err(e)`; result must be `Err(e)` with the same payload,
//!      a closure argument must not have been called
//!   opt option-name spellings through the five public parsers and through the operations that take them
//!   inv coverage accounting against the regenerated inventory (driver side counts from Tables.lean)
//!   ea the Earlier error wins over invalid Arguments: an invalid-argument line of a Result-receiver method (zero parts, axis outside
//!      the rank, index out of bounds, non-fitting operand, unknown option name) invoked on `Err(e)` must return that `Err(e)`
//! Robustness streams (FRAMEWORK.md): a class token may carry suffixes — `-z` zero-size receiver (an argument the model accepts there
//! is not invalid for that receiver: open region, only a panic fails; class `u` still demands an error value), `-p` the plain
//! `Array<T>` receiver instead of `Ok(array)`, `-u8r` / `-u8p` / `-f64r` / `-f64p` / `-strr` / `-strp` the element type (for the 46
//! methods of the 11 traits that are generic in the element type) and receiver.  The driver answers for the base class.  Every
//! m/b/u call is made twice and must give the same outcome.
//! Every method is invoked through ONE registry closure (`entries()`); Result-receiver methods are called on
//! `Ok(array)` for the argument classes (pure delegation `self.clone()?.m(args)`, checked by the translator + `decide`)
//! and on `Err(e)` for propagation.
use arrharness::*;
use std::cell::Cell;
use std::collections::{BTreeMap, BTreeSet};

thread_local! { static CALLS: Cell<usize> = Cell::new(0); }
fn poke() { CALLS.with(|c| c.set(c.get() + 1)); }

// ---------------------------------------------------------------- samples

trait Sample: ArrayElement { fn at(i: usize) -> Self; }
impl Sample for i64 { fn at(i: usize) -> Self { i as i64 + 1 } }
impl Sample for f64 { fn at(i: usize) -> Self { i as f64 + 1.0 } }
impl Sample for u8 { fn at(i: usize) -> Self { (i % 2) as u8 } }
impl Sample for i32 { fn at(i: usize) -> Self { i as i32 + 1 } }
impl Sample for isize { fn at(i: usize) -> Self { (i % 3) as isize } }
impl Sample for usize { fn at(i: usize) -> Self { i % 3 + 1 } }
impl Sample for bool { fn at(i: usize) -> Self { i % 2 == 0 } }
impl Sample for char { fn at(i: usize) -> Self { (b'a' + (i % 26) as u8) as char } }
impl Sample for String { fn at(i: usize) -> Self { format!("a{}-b", i) } }
fn sample<T: Sample>(shape: &[usize]) -> Array<T> {
    let n: usize = shape.iter().product();
    Array::new((0..n).map(T::at).collect(), shape.to_vec()).expect("harness: sample")
}

fn hex(s: &str) -> String {
    if s.is_empty() { return ".".to_string(); }
    s.bytes().map(|b| format!("{:02x}", b)).collect()
}
fn unhex(h: &str) -> String {
    if h == "." { return String::new(); }
    let b = h.as_bytes();
    String::from_utf8((0..b.len() / 2).map(|i| u8::from_str_radix(std::str::from_utf8(&b[2 * i..2 * i + 2]).unwrap(), 16).unwrap()).collect()).unwrap()
}

// ---------------------------------------------------------------- receiver and argument tokens

enum Rc<'a> { Shape(Vec<usize>), Err(&'a ArrayError) }
fn rcv<T: Sample>(rc: &Rc) -> Result<Array<T>, ArrayError> {
    match rc { Rc::Shape(s) => Ok(sample::<T>(s)), Rc::Err(e) => Err((*e).clone()) }
}
fn rshape(rc: &Rc) -> Vec<usize> { match rc { Rc::Shape(s) => s.clone(), Rc::Err(_) => vec![2, 3] } }

struct A<'a> { t: &'a [&'a str], rank: usize, len: usize }
impl<'a> A<'a> {
    fn s(&self, i: usize) -> Option<&'a str> { self.t.get(i).copied() }
    fn us(&self, i: usize, d: usize) -> usize { self.s(i).map_or(d, |x| x.parse().unwrap()) }
    fn is(&self, i: usize, d: isize) -> isize { self.s(i).map_or(d, |x| x.parse().unwrap()) }
    fn fl(&self, i: usize, d: f64) -> f64 { self.s(i).map_or(d, |x| x.parse::<i64>().unwrap() as f64) }
    fn ofl(&self, i: usize) -> Option<f64> { match self.s(i) { None | Some("none") => None, Some(x) => Some(x.parse::<i64>().unwrap() as f64) } }
    fn ous(&self, i: usize) -> Option<usize> { match self.s(i) { None | Some("none") => None, Some(x) => Some(x.parse().unwrap()) } }
    fn ois(&self, i: usize) -> Option<isize> { match self.s(i) { None | Some("none") => None, Some(x) => Some(x.parse().unwrap()) } }
    fn obool(&self, i: usize) -> Option<bool> { match self.s(i) { None | Some("none") => None, Some(x) => Some(x == "true") } }
    fn vu(&self, i: usize, d: &[usize]) -> Vec<usize> { self.s(i).map_or(d.to_vec(), parse_usize_list) }
    fn vi(&self, i: usize, d: &[isize]) -> Vec<isize> { self.s(i).map_or(d.to_vec(), parse_isize_list) }
    fn ovi(&self, i: usize) -> Option<Vec<isize>> { match self.s(i) { None | Some("none") => None, Some(x) => Some(parse_isize_list(x)) } }
    fn txt(&self, i: usize) -> Option<String> { match self.s(i) { None | Some("none") => None, Some(x) => Some(unhex(x)) } }
    /// operand array of the shape given by token `i` (default `[1]`: broadcastable with everything)
    fn oth<T: Sample>(&self, i: usize) -> Array<T> { sample::<T>(&self.vu(i, &[1])) }
    fn ooth<T: Sample>(&self, i: usize) -> Option<Array<T>> { match self.s(i) { None | Some("none") => None, Some(x) => Some(sample::<T>(&parse_usize_list(x))) } }
    fn zeros(&self) -> Vec<usize> { vec![0; self.rank] }
}

fn out<X>(res: Result<X, ArrayError>, rc: &Rc) -> String {
    match (rc, res) {
        (Rc::Err(e), Err(e2)) => if &e2 == *e { "err same".into() } else { format!("err different {}", err_name(&e2)) },
        (_, Ok(_)) => "ok".into(),
        (_, Err(e)) => format!("err {}", err_name(&e)),
    }
}

type F = Box<dyn Fn(&Rc, &A) -> String>;
/// `f`: the canonical invocation (Result receiver: `Ok(sample)` or `Err(e)`).  `alt`: the same call expression on other
/// receivers / element types (robustness streams): `p` = plain `Array<T>` receiver; for the traits that are generic in the
/// element type also `u8r`/`u8p`, `f64r`/`f64p`, `strr`/`strp` (r = `Ok(array)` through the Result impl, p = plain).
struct Entry { tr: &'static str, m: &'static str, res_impl: bool, generic: bool, f: F, alt: Vec<(&'static str, F)> }

macro_rules! clo_r { ($t:ty, $r:ident, $a:ident, $call:expr) => { Box::new(|rc: &Rc, $a: &A| { let $r: Result<Array<$t>, ArrayError> = rcv::<$t>(rc); let _ = &$a; out($call, rc) }) as F }; }
macro_rules! clo_p { ($t:ty, $r:ident, $a:ident, $call:expr) => { Box::new(|rc: &Rc, $a: &A| { let $r: Array<$t> = match rcv::<$t>(rc) { Ok(x) => x, Err(_) => return "harness: a plain receiver cannot be an error".to_string() }; let _ = &$a; out($call, rc) }) as F }; }
/// method of `impl Trait for Result<Array<T>, ArrayError>`; `$r` is the receiver (`Ok(sample)` or `Err(e)`)
macro_rules! reg {
    ($v:ident, $tr:literal, $m:literal, $t:ty, |$r:ident, $a:ident| $call:expr) => {
        $v.push(Entry { tr: $tr, m: $m, res_impl: true, generic: false, f: clo_r!($t, $r, $a, $call), alt: vec![("p", clo_p!($t, $r, $a, $call))] });
    };
}
/// the same for a trait implemented for every `T: ArrayElement`: canonical element type i64, alternates u8 / f64 / String
macro_rules! regx {
    ($v:ident, $tr:literal, $m:literal, |$r:ident, $a:ident| $call:expr) => {
        $v.push(Entry { tr: $tr, m: $m, res_impl: true, generic: true, f: clo_r!(i64, $r, $a, $call), alt: vec![("p", clo_p!(i64, $r, $a, $call)),
            ("u8r", clo_r!(u8, $r, $a, $call)), ("u8p", clo_p!(u8, $r, $a, $call)), ("f64r", clo_r!(f64, $r, $a, $call)), ("f64p", clo_p!(f64, $r, $a, $call)),
            ("strr", clo_r!(String, $r, $a, $call)), ("strp", clo_p!(String, $r, $a, $call))] });
    };
}
/// method without a Result-receiver impl (static constructors, iteration, joining, option parsers); `$s` = receiver shape
macro_rules! rgs {
    ($v:ident, $tr:literal, $m:literal, |$s:ident, $a:ident| $call:expr) => {
        $v.push(Entry { tr: $tr, m: $m, res_impl: false, generic: false, f: Box::new(|rc: &Rc, $a: &A| { let $s: Vec<usize> = rshape(rc); let _ = (&$a, &$s); out($call, rc) }), alt: vec![] });
    };
}

type RI = Result<Array<i64>, ArrayError>;
fn sort_kind_of(k: &str) -> SortKind { match k.to_ascii_lowercase().as_str() { "mergesort" => SortKind::Mergesort, "heapsort" => SortKind::Heapsort, "stable" => SortKind::Stable, _ => SortKind::Quicksort } }


fn entries() -> Vec<Entry> {
    let mut v: Vec<Entry> = Vec::with_capacity(300);
    // ---- ArrayStringCompare
    reg!(v, "ArrayStringCompare", "equal", String, |r, a| r.equal(&a.oth(0)));
    reg!(v, "ArrayStringCompare", "not_equal", String, |r, a| r.not_equal(&a.oth(0)));
    reg!(v, "ArrayStringCompare", "greater_equal", String, |r, a| r.greater_equal(&a.oth(0)));
    reg!(v, "ArrayStringCompare", "less_equal", String, |r, a| r.less_equal(&a.oth(0)));
    reg!(v, "ArrayStringCompare", "greater", String, |r, a| r.greater(&a.oth(0)));
    reg!(v, "ArrayStringCompare", "less", String, |r, a| r.less(&a.oth(0)));
    reg!(v, "ArrayStringCompare", "compare", String, |r, a| { let o = a.oth(0); let op = a.txt(1).unwrap_or("==".into()); if a.s(2) == Some("string") { r.compare(&o, op) } else if a.s(2) == Some("enum") { r.compare(&o, CompareOp::GreaterEqual) } else { r.compare(&o, op.as_str()) } });
    // ---- ArrayStringIndexing
    reg!(v, "ArrayStringIndexing", "str_len", String, |r, a| r.str_len());
    reg!(v, "ArrayStringIndexing", "count", String, |r, a| ArrayStringIndexing::count(&r, &a.oth(0)));
    reg!(v, "ArrayStringIndexing", "starts_with", String, |r, a| r.starts_with(&a.oth(0)));
    reg!(v, "ArrayStringIndexing", "ends_with", String, |r, a| r.ends_with(&a.oth(0)));
    reg!(v, "ArrayStringIndexing", "find", String, |r, a| ArrayStringIndexing::find(&r, &a.oth(0)));
    reg!(v, "ArrayStringIndexing", "rfind", String, |r, a| r.rfind(&a.oth(0)));
    reg!(v, "ArrayStringIndexing", "index", String, |r, a| ArrayStringIndexing::index(&r, &a.oth(0)));
    reg!(v, "ArrayStringIndexing", "rindex", String, |r, a| r.rindex(&a.oth(0)));
    // ---- ArrayStringManipulate
    reg!(v, "ArrayStringManipulate", "add", String, |r, a| ArrayStringManipulate::add(&r, &a.oth(0)));
    reg!(v, "ArrayStringManipulate", "multiply", String, |r, a| ArrayStringManipulate::multiply(&r, &a.oth::<usize>(0)));
    reg!(v, "ArrayStringManipulate", "capitalize", String, |r, a| r.capitalize());
    reg!(v, "ArrayStringManipulate", "lower", String, |r, a| r.lower());
    reg!(v, "ArrayStringManipulate", "upper", String, |r, a| r.upper());
    reg!(v, "ArrayStringManipulate", "swapcase", String, |r, a| r.swapcase());
    reg!(v, "ArrayStringManipulate", "center", String, |r, a| r.center(&a.oth::<usize>(0), a.ooth::<char>(1)));
    reg!(v, "ArrayStringManipulate", "join", String, |r, a| r.join(&a.oth(0)));
    reg!(v, "ArrayStringManipulate", "partition", String, |r, a| ArrayStringManipulate::partition(&r, &a.oth(0)));
    reg!(v, "ArrayStringManipulate", "rpartition", String, |r, a| r.rpartition(&a.oth(0)));
    reg!(v, "ArrayStringManipulate", "split", String, |r, a| ArrayStringManipulate::split(&r, a.ooth(0), a.ooth::<usize>(1)));
    reg!(v, "ArrayStringManipulate", "rsplit", String, |r, a| r.rsplit(a.ooth(0), a.ooth::<usize>(1)));
    reg!(v, "ArrayStringManipulate", "splitlines", String, |r, a| r.splitlines(a.ooth::<bool>(0)));
    reg!(v, "ArrayStringManipulate", "replace", String, |r, a| r.replace(&a.oth(0), &a.oth(1), a.ous(2)));
    reg!(v, "ArrayStringManipulate", "strip", String, |r, a| r.strip(a.ooth(0)));
    reg!(v, "ArrayStringManipulate", "lstrip", String, |r, a| r.lstrip(a.ooth(0)));
    reg!(v, "ArrayStringManipulate", "rstrip", String, |r, a| r.rstrip(a.ooth(0)));
    reg!(v, "ArrayStringManipulate", "ljust", String, |r, a| r.ljust(&a.oth::<usize>(0), a.ooth::<char>(1)));
    reg!(v, "ArrayStringManipulate", "rjust", String, |r, a| r.rjust(&a.oth::<usize>(0), a.ooth::<char>(1)));
    reg!(v, "ArrayStringManipulate", "zfill", String, |r, a| r.zfill(a.us(0, 3)));
    reg!(v, "ArrayStringManipulate", "translate", String, |r, a| r.translate(vec![('a', 'b')]));
    // ---- ArrayStringValidate
    reg!(v, "ArrayStringValidate", "is_alpha", String, |r, a| r.is_alpha());
    reg!(v, "ArrayStringValidate", "is_alnum", String, |r, a| r.is_alnum());
    reg!(v, "ArrayStringValidate", "is_decimal", String, |r, a| r.is_decimal());
    reg!(v, "ArrayStringValidate", "is_numeric", String, |r, a| r.is_numeric());
    reg!(v, "ArrayStringValidate", "is_digit", String, |r, a| r.is_digit());
    reg!(v, "ArrayStringValidate", "is_space", String, |r, a| r.is_space());
    reg!(v, "ArrayStringValidate", "is_lower", String, |r, a| r.is_lower());
    reg!(v, "ArrayStringValidate", "is_upper", String, |r, a| r.is_upper());
    // ---- ArrayAxis
    // token 1 selects the closure: (default) identity; `fail` returns an error value; `reent` calls the operation under test itself on the
    // lane (re-entrancy) before answering; `reentfail` does so with an axis outside the lane's rank and hands that error on
    regx!(v, "ArrayAxis", "apply_along_axis", |r, a| { let mode = a.s(1).unwrap_or("id"); r.apply_along_axis(a.us(0, 0), |l: &Array<_>| { poke(); match mode {
        "fail" => Err(ArrayError::ParameterError { param: "probe", message: "closure refuses" }),
        "reent" => { let inner = l.apply_along_axis(0, |x: &Array<_>| Ok(x.clone()))?; inner.apply_along_axis(0, |x: &Array<_>| x.reshape(&[x.len()?])) }
        "reentfail" => l.apply_along_axis(5, |x: &Array<_>| Ok(x.clone())),
        _ => Ok(l.clone()) } }) });
    regx!(v, "ArrayAxis", "transpose", |r, a| r.transpose(a.ovi(0)));
    regx!(v, "ArrayAxis", "moveaxis", |r, a| r.moveaxis(a.vi(0, &[0]), a.vi(1, &[0])));
    regx!(v, "ArrayAxis", "rollaxis", |r, a| r.rollaxis(a.is(0, 0), a.ois(1)));
    regx!(v, "ArrayAxis", "swapaxes", |r, a| r.swapaxes(a.is(0, 0), a.is(1, 0)));
    regx!(v, "ArrayAxis", "expand_dims", |r, a| r.expand_dims(a.vi(0, &[0])));
    regx!(v, "ArrayAxis", "squeeze", |r, a| r.squeeze(a.ovi(0)));
    // ---- ArrayBroadcast
    regx!(v, "ArrayBroadcast", "broadcast", |r, a| r.broadcast(&a.oth(0)));
    regx!(v, "ArrayBroadcast", "broadcast_to", |r, a| r.broadcast_to(a.vu(0, &[2, 2, 3])));
    rgs!(v, "ArrayBroadcast", "broadcast_arrays", |s, a| <RI as ArrayBroadcast<i64>>::broadcast_arrays(vec![sample(&s), a.oth(0)]));
    // ---- ArrayCount
    regx!(v, "ArrayCount", "count_nonzero", |r, a| r.count_nonzero(a.ois(0), a.obool(1)));
    // ---- ArrayIndexing
    regx!(v, "ArrayIndexing", "index_at", |r, a| r.index_at(&a.vu(0, &a.zeros())));
    regx!(v, "ArrayIndexing", "index_to_coord", |r, a| r.index_to_coord(a.us(0, 0)));
    regx!(v, "ArrayIndexing", "at", |r, a| r.at(&a.vu(0, &a.zeros())));
    regx!(v, "ArrayIndexing", "slice", |r, a| r.slice(a.us(0, 0)..a.us(1, 1)));
    regx!(v, "ArrayIndexing", "indices_at", |r, a| r.indices_at(&a.vu(0, &[0])));
    // ---- ArrayManipulate
    regx!(v, "ArrayManipulate", "insert", |r, a| r.insert(&a.vu(0, &[0]), &a.oth(1), a.ous(2)));
    regx!(v, "ArrayManipulate", "delete", |r, a| r.delete(&a.vu(0, &[0]), a.ous(1)));
    regx!(v, "ArrayManipulate", "append", |r, a| r.append(&a.oth(0), a.ous(1)));
    regx!(v, "ArrayManipulate", "reshape", |r, a| r.reshape(&a.vu(0, &[a.len])));
    regx!(v, "ArrayManipulate", "resize", |r, a| r.resize(&a.vu(0, &[2, 2])));
    regx!(v, "ArrayManipulate", "unique", |r, a| r.unique(a.ois(0)));
    regx!(v, "ArrayManipulate", "ravel", |r, a| r.ravel());
    regx!(v, "ArrayManipulate", "atleast", |r, a| r.atleast(a.us(0, 2)));
    regx!(v, "ArrayManipulate", "trim_zeros", |r, a| r.trim_zeros());
    regx!(v, "ArrayManipulate", "cycle_take", |r, a| r.cycle_take(a.us(0, 3)));
    // ---- ArrayMeta
    regx!(v, "ArrayMeta", "get_elements", |r, a| r.get_elements());
    regx!(v, "ArrayMeta", "get_shape", |r, a| r.get_shape());
    regx!(v, "ArrayMeta", "ndim", |r, a| r.ndim());
    regx!(v, "ArrayMeta", "len", |r, a| r.len());
    regx!(v, "ArrayMeta", "is_empty", |r, a| r.is_empty());
    // ---- ArrayReorder
    regx!(v, "ArrayReorder", "flip", |r, a| r.flip(a.ovi(0)));
    regx!(v, "ArrayReorder", "flipud", |r, a| r.flipud());
    regx!(v, "ArrayReorder", "fliplr", |r, a| r.fliplr());
    regx!(v, "ArrayReorder", "roll", |r, a| r.roll(a.vi(0, &[1]), a.ovi(1)));
    regx!(v, "ArrayReorder", "rot90", |r, a| r.rot90(a.us(0, 1), a.vi(1, &[0, 1])));
    // ---- ArraySearch / ArraySort
    regx!(v, "ArraySearch", "argmax", |r, a| r.argmax(a.ois(0), a.obool(1)));
    regx!(v, "ArraySearch", "argmin", |r, a| r.argmin(a.ois(0), a.obool(1)));
    regx!(v, "ArraySort", "sort", |r, a| match a.txt(1) { None => r.sort(a.ois(0), None::<SortKind>), Some(k) => if a.s(2) == Some("string") { r.sort(a.ois(0), Some(k)) } else if a.s(2) == Some("enum") { r.sort(a.ois(0), Some(sort_kind_of(&k))) } else { r.sort(a.ois(0), Some(k.as_str())) } });
    regx!(v, "ArraySort", "argsort", |r, a| match a.txt(1) { None => r.argsort(a.ois(0), None::<SortKind>), Some(k) => if a.s(2) == Some("string") { r.argsort(a.ois(0), Some(k)) } else if a.s(2) == Some("enum") { r.argsort(a.ois(0), Some(sort_kind_of(&k))) } else { r.argsort(a.ois(0), Some(k.as_str())) } });
    // ---- ArraySplit
    regx!(v, "ArraySplit", "array_split", |r, a| r.array_split(a.us(0, 1), a.ous(1)));
    regx!(v, "ArraySplit", "split", |r, a| ArraySplit::split(&r, a.us(0, 1), a.ous(1)));
    regx!(v, "ArraySplit", "split_axis", |r, a| r.split_axis(a.us(0, 0)));
    regx!(v, "ArraySplit", "hsplit", |r, a| r.hsplit(a.us(0, 1)));
    regx!(v, "ArraySplit", "vsplit", |r, a| r.vsplit(a.us(0, 1)));
    regx!(v, "ArraySplit", "dsplit", |r, a| r.dsplit(a.us(0, 1)));
    // ---- ArrayTiling
    regx!(v, "ArrayTiling", "repeat", |r, a| r.repeat(&a.vu(0, &[1]), a.ous(1)));
    // ---- linalg
    reg!(v, "ArrayLinalgDecompositions", "qr", f64, |r, a| r.qr());
    reg!(v, "ArrayLinalgEigen", "eigvals", f64, |r, a| r.eigvals());
    reg!(v, "ArrayLinalgEigen", "eig", f64, |r, a| r.eig());
    reg!(v, "ArrayLinalgNorms", "norm", f64, |r, a| match a.txt(0) { None => r.norm(None::<NormOrd>, a.ovi(1), a.obool(2)), Some(o) => if a.s(3) == Some("string") { r.norm(Some(o), a.ovi(1), a.obool(2)) } else if a.s(3) == Some("enum") { r.norm(Some(NormOrd::Fro), a.ovi(1), a.obool(2)) } else { r.norm(Some(o.as_str()), a.ovi(1), a.obool(2)) } });
    reg!(v, "ArrayLinalgNorms", "det", f64, |r, a| r.det());
    reg!(v, "ArrayLinalgProducts", "dot", f64, |r, a| r.dot(&a.oth(0)));
    reg!(v, "ArrayLinalgProducts", "vdot", f64, |r, a| r.vdot(&a.oth(0)));
    reg!(v, "ArrayLinalgProducts", "inner", f64, |r, a| r.inner(&a.oth(0)));
    reg!(v, "ArrayLinalgProducts", "outer", f64, |r, a| r.outer(&a.oth(0)));
    reg!(v, "ArrayLinalgProducts", "matmul", f64, |r, a| r.matmul(&a.oth(0)));
    reg!(v, "ArrayLinalgSolvingInvertingProducts", "solve", f64, |r, a| r.solve(&a.oth(0)));
    // ---- ArrayArithmetic
    reg!(v, "ArrayArithmetic", "add", f64, |r, a| ArrayArithmetic::add(&r, &a.oth(0)));
    reg!(v, "ArrayArithmetic", "reciprocal", f64, |r, a| r.reciprocal());
    reg!(v, "ArrayArithmetic", "positive", f64, |r, a| r.positive());
    reg!(v, "ArrayArithmetic", "negative", f64, |r, a| r.negative());
    reg!(v, "ArrayArithmetic", "multiply", f64, |r, a| ArrayArithmetic::multiply(&r, &a.oth(0)));
    reg!(v, "ArrayArithmetic", "divide", f64, |r, a| r.divide(&a.oth(0)));
    reg!(v, "ArrayArithmetic", "true_divide", f64, |r, a| r.true_divide(&a.oth(0)));
    reg!(v, "ArrayArithmetic", "floor_divide", f64, |r, a| r.floor_divide(&a.oth(0)));
    reg!(v, "ArrayArithmetic", "power", f64, |r, a| r.power(&a.oth(0)));
    reg!(v, "ArrayArithmetic", "float_power", f64, |r, a| r.float_power(&a.oth(0)));
    reg!(v, "ArrayArithmetic", "subtract", f64, |r, a| r.subtract(&a.oth(0)));
    reg!(v, "ArrayArithmetic", "mod", f64, |r, a| r.r#mod(&a.oth(0)));
    reg!(v, "ArrayArithmetic", "fmod", f64, |r, a| r.fmod(&a.oth(0)));
    reg!(v, "ArrayArithmetic", "modf", f64, |r, a| r.modf());
    reg!(v, "ArrayArithmetic", "remainder", f64, |r, a| r.remainder(&a.oth(0)));
    reg!(v, "ArrayArithmetic", "divmod", f64, |r, a| r.divmod());
    // ---- ArrayExpLog
    reg!(v, "ArrayExpLog", "exp", f64, |r, a| r.exp());
    reg!(v, "ArrayExpLog", "exp2", f64, |r, a| r.exp2());
    reg!(v, "ArrayExpLog", "exp_m1", f64, |r, a| r.exp_m1());
    reg!(v, "ArrayExpLog", "log", f64, |r, a| r.log());
    reg!(v, "ArrayExpLog", "log2", f64, |r, a| r.log2());
    reg!(v, "ArrayExpLog", "log10", f64, |r, a| r.log10());
    reg!(v, "ArrayExpLog", "log_1p", f64, |r, a| r.log_1p());
    reg!(v, "ArrayExpLog", "logn", f64, |r, a| r.logn(&a.oth(0)));
    reg!(v, "ArrayExpLog", "log_add_exp", f64, |r, a| r.log_add_exp(&a.oth(0)));
    reg!(v, "ArrayExpLog", "log_add_exp2", f64, |r, a| r.log_add_exp2(&a.oth(0)));
    // ---- ArrayExtrema
    reg!(v, "ArrayExtrema", "maximum", f64, |r, a| r.maximum(&a.oth(0)));
    reg!(v, "ArrayExtrema", "max", f64, |r, a| ArrayExtrema::max(&r, a.ois(0)));
    reg!(v, "ArrayExtrema", "amax", f64, |r, a| r.amax(a.ois(0)));
    reg!(v, "ArrayExtrema", "fmax", f64, |r, a| r.fmax(&a.oth(0)));
    reg!(v, "ArrayExtrema", "nanmax", f64, |r, a| r.nanmax(a.ois(0)));
    reg!(v, "ArrayExtrema", "minimum", f64, |r, a| r.minimum(&a.oth(0)));
    reg!(v, "ArrayExtrema", "min", f64, |r, a| ArrayExtrema::min(&r, a.ois(0)));
    reg!(v, "ArrayExtrema", "amin", f64, |r, a| r.amin(a.ois(0)));
    reg!(v, "ArrayExtrema", "fmin", f64, |r, a| r.fmin(&a.oth(0)));
    reg!(v, "ArrayExtrema", "nanmin", f64, |r, a| r.nanmin(a.ois(0)));
    // ---- ArrayFloating
    reg!(v, "ArrayFloating", "signbit", f64, |r, a| r.signbit());
    reg!(v, "ArrayFloating", "copysign", f64, |r, a| r.copysign(&a.oth(0)));
    reg!(v, "ArrayFloating", "frexp", f64, |r, a| r.frexp());
    reg!(v, "ArrayFloating", "ldexp", f64, |r, a| r.ldexp(&a.oth::<i32>(0)));
    reg!(v, "ArrayFloating", "nextafter", f64, |r, a| r.nextafter(&a.oth(0)));
    reg!(v, "ArrayFloating", "spacing", f64, |r, a| r.spacing());
    // ---- ArrayHyperbolic
    reg!(v, "ArrayHyperbolic", "sinh", f64, |r, a| r.sinh());
    reg!(v, "ArrayHyperbolic", "cosh", f64, |r, a| r.cosh());
    reg!(v, "ArrayHyperbolic", "tanh", f64, |r, a| r.tanh());
    reg!(v, "ArrayHyperbolic", "asinh", f64, |r, a| r.asinh());
    reg!(v, "ArrayHyperbolic", "acosh", f64, |r, a| r.acosh());
    reg!(v, "ArrayHyperbolic", "atanh", f64, |r, a| r.atanh());
    // ---- ArrayMathMisc
    reg!(v, "ArrayMathMisc", "convolve", f64, |r, a| match a.txt(1) { None => r.convolve(&a.oth(0), None::<ConvolveMode>), Some(m) => if a.s(2) == Some("string") { r.convolve(&a.oth(0), Some(m)) } else if a.s(2) == Some("enum") { r.convolve(&a.oth(0), Some(ConvolveMode::Same)) } else { r.convolve(&a.oth(0), Some(m.as_str())) } });
    reg!(v, "ArrayMathMisc", "clip", f64, |r, a| r.clip(a.ooth(0), a.ooth(1)));
    reg!(v, "ArrayMathMisc", "sqrt", f64, |r, a| r.sqrt());
    reg!(v, "ArrayMathMisc", "cbrt", f64, |r, a| r.cbrt());
    reg!(v, "ArrayMathMisc", "square", f64, |r, a| r.square());
    reg!(v, "ArrayMathMisc", "absolute", f64, |r, a| r.absolute());
    reg!(v, "ArrayMathMisc", "abs", f64, |r, a| r.abs());
    reg!(v, "ArrayMathMisc", "fabs", f64, |r, a| r.fabs());
    reg!(v, "ArrayMathMisc", "sign", f64, |r, a| r.sign());
    reg!(v, "ArrayMathMisc", "heaviside", f64, |r, a| r.heaviside(&a.oth(0)));
    reg!(v, "ArrayMathMisc", "nan_to_num", f64, |r, a| r.nan_to_num());
    // ---- ArrayRational / ArrayRounding / ArrayMathSpecial
    reg!(v, "ArrayRational", "lcm", i64, |r, a| r.lcm(&a.oth(0)));
    reg!(v, "ArrayRational", "gcd", i64, |r, a| r.gcd(&a.oth(0)));
    reg!(v, "ArrayRounding", "round", f64, |r, a| r.round(&a.oth::<isize>(0)));
    reg!(v, "ArrayRounding", "around", f64, |r, a| r.around(&a.oth::<isize>(0)));
    reg!(v, "ArrayRounding", "rint", f64, |r, a| r.rint());
    reg!(v, "ArrayRounding", "fix", f64, |r, a| r.fix());
    reg!(v, "ArrayRounding", "trunc", f64, |r, a| r.trunc());
    reg!(v, "ArrayRounding", "floor", f64, |r, a| r.floor());
    reg!(v, "ArrayRounding", "ceil", f64, |r, a| r.ceil());
    reg!(v, "ArrayMathSpecial", "i0", f64, |r, a| r.i0());
    reg!(v, "ArrayMathSpecial", "sinc", f64, |r, a| r.sinc());
    // ---- ArraySumProdDiff
    reg!(v, "ArraySumProdDiff", "prod", f64, |r, a| r.prod(a.ois(0)));
    reg!(v, "ArraySumProdDiff", "sum", f64, |r, a| r.sum(a.ois(0)));
    reg!(v, "ArraySumProdDiff", "nanprod", f64, |r, a| r.nanprod(a.ois(0)));
    reg!(v, "ArraySumProdDiff", "nansum", f64, |r, a| r.nansum(a.ois(0)));
    reg!(v, "ArraySumProdDiff", "cumprod", f64, |r, a| r.cumprod(a.ois(0)));
    reg!(v, "ArraySumProdDiff", "cumsum", f64, |r, a| r.cumsum(a.ois(0)));
    reg!(v, "ArraySumProdDiff", "nancumprod", f64, |r, a| r.nancumprod(a.ois(0)));
    reg!(v, "ArraySumProdDiff", "nancumsum", f64, |r, a| r.nancumsum(a.ois(0)));
    reg!(v, "ArraySumProdDiff", "diff", f64, |r, a| r.diff(a.us(1, 1), a.ois(0), a.ooth(2), a.ooth(3)));
    reg!(v, "ArraySumProdDiff", "ediff1d", f64, |r, a| r.ediff1d(a.ooth(0), a.ooth(1)));
    // ---- ArrayTrigonometric
    reg!(v, "ArrayTrigonometric", "sin", f64, |r, a| r.sin());
    reg!(v, "ArrayTrigonometric", "cos", f64, |r, a| r.cos());
    reg!(v, "ArrayTrigonometric", "tan", f64, |r, a| r.tan());
    reg!(v, "ArrayTrigonometric", "asin", f64, |r, a| r.asin());
    reg!(v, "ArrayTrigonometric", "acos", f64, |r, a| r.acos());
    reg!(v, "ArrayTrigonometric", "atan", f64, |r, a| r.atan());
    reg!(v, "ArrayTrigonometric", "atan2", f64, |r, a| r.atan2(&a.oth(0)));
    reg!(v, "ArrayTrigonometric", "hypot", f64, |r, a| r.hypot(&a.oth(0)));
    reg!(v, "ArrayTrigonometric", "degrees", f64, |r, a| r.degrees());
    reg!(v, "ArrayTrigonometric", "rad2deg", f64, |r, a| r.rad2deg());
    reg!(v, "ArrayTrigonometric", "radians", f64, |r, a| r.radians());
    reg!(v, "ArrayTrigonometric", "deg2rad", f64, |r, a| r.deg2rad());
    reg!(v, "ArrayTrigonometric", "unwrap_phase", f64, |r, a| r.unwrap_phase(a.ooth::<f64>(1), a.ois(0), a.ooth::<f64>(2)));
    // ---- ArrayBinary / ArrayBinaryBits
    reg!(v, "ArrayBinary", "bitwise_and", i64, |r, a| r.bitwise_and(&a.oth(0)));
    reg!(v, "ArrayBinary", "bitwise_or", i64, |r, a| r.bitwise_or(&a.oth(0)));
    reg!(v, "ArrayBinary", "bitwise_xor", i64, |r, a| r.bitwise_xor(&a.oth(0)));
    reg!(v, "ArrayBinary", "bitwise_not", i64, |r, a| r.bitwise_not());
    reg!(v, "ArrayBinary", "invert", i64, |r, a| r.invert());
    reg!(v, "ArrayBinary", "left_shift", i64, |r, a| r.left_shift(&a.oth(0)));
    reg!(v, "ArrayBinary", "right_shift", i64, |r, a| r.right_shift(&a.oth(0)));
    rgs!(v, "ArrayBinary", "binary_repr", |s, a| Ok::<String, ArrayError>(<RI as ArrayBinary<i64>>::binary_repr(a.is(0, 5) as i64)));
    reg!(v, "ArrayBinaryBits", "unpack_bits", u8, |r, a| match a.txt(2) { None => r.unpack_bits(a.ois(0), a.ois(1), None::<BitOrder>), Some(o) => if a.s(3) == Some("string") { r.unpack_bits(a.ois(0), a.ois(1), Some(o)) } else if a.s(3) == Some("enum") { r.unpack_bits(a.ois(0), a.ois(1), Some(BitOrder::Little)) } else { r.unpack_bits(a.ois(0), a.ois(1), Some(o.as_str())) } });
    reg!(v, "ArrayBinaryBits", "pack_bits", u8, |r, a| match a.txt(1) { None => r.pack_bits(a.ois(0), None::<BitOrder>), Some(o) => if a.s(2) == Some("string") { r.pack_bits(a.ois(0), Some(o)) } else if a.s(2) == Some("enum") { r.pack_bits(a.ois(0), Some(BitOrder::Little)) } else { r.pack_bits(a.ois(0), Some(o.as_str())) } });
    entries_static(&mut v);
    v
}

/// fallible methods that have no Result-receiver impl: constructors, iteration, joining, create-from, option parsers
fn entries_static(v: &mut Vec<Entry>) {
    // ---- ArrayCreate
    rgs!(v, "ArrayCreate", "new", |s, a| Array::<i64>::new(vec![7; a.us(0, s.iter().product())], a.vu(1, &s)));
    rgs!(v, "ArrayCreate", "create", |s, a| Array::<i64>::create(vec![7; a.us(0, s.iter().product())], a.vu(1, &s), a.ous(2)));
    rgs!(v, "ArrayCreate", "single", |s, a| Array::<i64>::single(1));
    rgs!(v, "ArrayCreate", "flat", |s, a| Array::<i64>::flat(vec![7; a.us(0, 3)]));
    rgs!(v, "ArrayCreate", "empty", |s, a| Array::<i64>::empty());
    // ---- ArrayIter / ArrayIterMut
    rgs!(v, "ArrayIter", "for_each", |s, a| sample::<i64>(&s).for_each(|_| {}));
    rgs!(v, "ArrayIter", "for_each_e", |s, a| sample::<i64>(&s).for_each_e(|_, _| {}));
    rgs!(v, "ArrayIter", "filter", |s, a| sample::<i64>(&s).filter(|x| x % 2 == 0));
    rgs!(v, "ArrayIter", "filter_e", |s, a| sample::<i64>(&s).filter_e(|i, _| i % 2 == 0));
    rgs!(v, "ArrayIterMut", "map", |s, a| ArrayIterMut::<i64, i64>::map(&sample::<i64>(&s), |x| x + 1));
    rgs!(v, "ArrayIterMut", "map_e", |s, a| ArrayIterMut::<i64, i64>::map_e(&sample::<i64>(&s), |i, x| x + i as i64));
    rgs!(v, "ArrayIterMut", "filter_map", |s, a| ArrayIterMut::<i64, i64>::filter_map(&sample::<i64>(&s), |x| if x % 2 == 0 { Some(*x) } else { None }));
    rgs!(v, "ArrayIterMut", "filter_map_e", |s, a| ArrayIterMut::<i64, i64>::filter_map_e(&sample::<i64>(&s), |i, x| if i % 2 == 0 { Some(*x) } else { None }));
    rgs!(v, "ArrayIterMut", "fold", |s, a| ArrayIterMut::<i64, i64>::fold(&sample::<i64>(&s), 0, |x, y| x + y));
    rgs!(v, "ArrayIterMut", "zip", |s, a| ArrayIterMut::<i64, i64>::zip(&sample::<i64>(&s), &a.oth::<i64>(0)));
    // ---- ArrayJoining: arrays = [sample(receiver shape), sample(token 0, default the same shape)]
    rgs!(v, "ArrayJoining", "concatenate", |s, a| Array::<i64>::concatenate(vec![sample(&s), sample(&a.vu(0, &s))], a.ous(1)));
    rgs!(v, "ArrayJoining", "stack", |s, a| Array::<i64>::stack(vec![sample(&s), sample(&a.vu(0, &s))], a.ous(1)));
    rgs!(v, "ArrayJoining", "vstack", |s, a| Array::<i64>::vstack(vec![sample(&s), sample(&a.vu(0, &s))]));
    rgs!(v, "ArrayJoining", "hstack", |s, a| Array::<i64>::hstack(vec![sample(&s), sample(&a.vu(0, &s))]));
    rgs!(v, "ArrayJoining", "dstack", |s, a| Array::<i64>::dstack(vec![sample(&s), sample(&a.vu(0, &s))]));
    rgs!(v, "ArrayJoining", "column_stack", |s, a| Array::<i64>::column_stack(vec![sample(&s), sample(&a.vu(0, &s))]));
    rgs!(v, "ArrayJoining", "row_stack", |s, a| Array::<i64>::row_stack(vec![sample(&s), sample(&a.vu(0, &s))]));
    // ---- ArrayCreateNumeric
    rgs!(v, "ArrayCreateNumeric", "rand", |s, a| Array::<f64>::rand(a.vu(0, &s)));
    rgs!(v, "ArrayCreateNumeric", "eye", |s, a| Array::<f64>::eye(a.us(0, 2), a.ous(1), a.ous(2)));
    rgs!(v, "ArrayCreateNumeric", "identity", |s, a| Array::<f64>::identity(a.us(0, 2)));
    rgs!(v, "ArrayCreateNumeric", "zeros", |s, a| Array::<f64>::zeros(a.vu(0, &s)));
    rgs!(v, "ArrayCreateNumeric", "zeros_like", |s, a| Array::<f64>::zeros_like(&sample(&s)));
    rgs!(v, "ArrayCreateNumeric", "ones", |s, a| Array::<f64>::ones(a.vu(0, &s)));
    rgs!(v, "ArrayCreateNumeric", "ones_like", |s, a| Array::<f64>::ones_like(&sample(&s)));
    rgs!(v, "ArrayCreateNumeric", "full", |s, a| Array::<f64>::full(a.vu(0, &s), 2.));
    rgs!(v, "ArrayCreateNumeric", "full_like", |s, a| Array::<f64>::full_like(&sample(&s), 2.));
    rgs!(v, "ArrayCreateNumeric", "arange", |s, a| Array::<f64>::arange(a.fl(0, 0.), a.fl(1, 5.), a.ofl(2)));
    rgs!(v, "ArrayCreateNumeric", "linspace", |s, a| Array::<f64>::linspace(a.fl(0, 0.), a.fl(1, 5.), a.ous(2), a.obool(3)));
    rgs!(v, "ArrayCreateNumeric", "linspace_a", |s, a| Array::<f64>::linspace_a(&sample(&s), &sample(&a.vu(0, &s)), a.ous(1), a.obool(2)));
    rgs!(v, "ArrayCreateNumeric", "logspace", |s, a| Array::<f64>::logspace(a.fl(0, 0.), a.fl(1, 3.), a.ous(2), a.obool(3), a.ous(4)));
    rgs!(v, "ArrayCreateNumeric", "logspace_a", |s, a| Array::<f64>::logspace_a(&sample(&s), &sample(&a.vu(0, &s)), a.ous(1), a.obool(2), a.ooth::<usize>(3).as_ref()));
    rgs!(v, "ArrayCreateNumeric", "geomspace", |s, a| Array::<f64>::geomspace(a.fl(0, 1.), a.fl(1, 8.), a.ous(2), a.obool(3)));
    rgs!(v, "ArrayCreateNumeric", "geomspace_a", |s, a| Array::<f64>::geomspace_a(&sample(&s), &sample(&a.vu(0, &s)), a.ous(1), a.obool(2)));
    rgs!(v, "ArrayCreateNumeric", "tri", |s, a| Array::<f64>::tri(a.us(0, 2), a.ous(1), a.ois(2)));
    // ---- ArrayCreateFrom
    rgs!(v, "ArrayCreateFrom", "diag", |s, a| sample::<f64>(&s).diag(a.ois(0)));
    rgs!(v, "ArrayCreateFrom", "diagflat", |s, a| sample::<f64>(&s).diagflat(a.ois(0)));
    rgs!(v, "ArrayCreateFrom", "tril", |s, a| sample::<f64>(&s).tril(a.ois(0)));
    rgs!(v, "ArrayCreateFrom", "triu", |s, a| sample::<f64>(&s).triu(a.ois(0)));
    rgs!(v, "ArrayCreateFrom", "vander", |s, a| sample::<f64>(&s).vander(a.ous(0), a.obool(1)));
    // ---- the five option parsers (token 0 = hex spelling, token 1 = "string" for the String impl)
    rgs!(v, "SortKindType", "parse_type", |s, a| { let t = a.txt(0).unwrap_or("stable".into()); if a.s(1) == Some("string") { SortKindType::parse_type(t) } else { SortKindType::parse_type(t.as_str()) } });
    rgs!(v, "CompareOpType", "parse_type", |s, a| { let t = a.txt(0).unwrap_or("<".into()); if a.s(1) == Some("string") { CompareOpType::parse_type(t) } else { CompareOpType::parse_type(t.as_str()) } });
    rgs!(v, "BitOrderType", "to_bit_order", |s, a| { let t = a.txt(0).unwrap_or("big".into()); if a.s(1) == Some("string") { t.to_bit_order() } else { t.as_str().to_bit_order() } });
    rgs!(v, "NormOrdType", "to_ord", |s, a| { let t = a.txt(0).unwrap_or("fro".into()); if a.s(1) == Some("string") { t.to_ord() } else { t.as_str().to_ord() } });
    rgs!(v, "ConvolveModeType", "to_mode", |s, a| { let t = a.txt(0).unwrap_or("full".into()); if a.s(1) == Some("string") { t.to_mode() } else { t.as_str().to_mode() } });
}

/// the 15 variants; payload variants in two flavours (non-trivial payload, empty payload)
fn error_values() -> Vec<ArrayError> {
    vec![
        ArrayError::BroadcastShapeMismatch, ArrayError::ConcatenateShapeMismatch, ArrayError::ShapeMustMatchValuesLength,
        ArrayError::ShapesMustMatch { shape_1: vec![2, 3], shape_2: vec![4] }, ArrayError::SqueezeShapeOfAxisMustBeOne, ArrayError::AxisOutOfBounds,
        ArrayError::OutOfBounds { value: "probe" }, ArrayError::ParameterError { param: "p", message: "m" },
        ArrayError::UnsupportedDimension { supported: vec![7, 9] }, ArrayError::MustBeUnique { value: "u".into() },
        ArrayError::MustBeEqual { value1: "a".into(), value2: "b".into() }, ArrayError::MustBeAtLeast { value1: "c".into(), value2: "d".into() },
        ArrayError::MustBeOneOf { value1: "e".into(), value2: "f".into() }, ArrayError::NotImplemented, ArrayError::SingularMatrix,
        // empty payloads
        ArrayError::ShapesMustMatch { shape_1: vec![], shape_2: vec![] }, ArrayError::OutOfBounds { value: "" }, ArrayError::ParameterError { param: "", message: "" },
        ArrayError::UnsupportedDimension { supported: vec![] }, ArrayError::MustBeUnique { value: String::new() },
        ArrayError::MustBeEqual { value1: String::new(), value2: String::new() }, ArrayError::MustBeAtLeast { value1: String::new(), value2: String::new() },
        ArrayError::MustBeOneOf { value1: String::new(), value2: String::new() },
    ]
}

// ---------------------------------------------------------------- generator

const BINARY_F64: &[(&str, &str)] = &[
    ("ArrayArithmetic", "add"), ("ArrayArithmetic", "multiply"), ("ArrayArithmetic", "divide"), ("ArrayArithmetic", "true_divide"),
    ("ArrayArithmetic", "floor_divide"), ("ArrayArithmetic", "power"), ("ArrayArithmetic", "float_power"), ("ArrayArithmetic", "subtract"),
    ("ArrayArithmetic", "mod"), ("ArrayArithmetic", "fmod"), ("ArrayArithmetic", "remainder"),
    ("ArrayExpLog", "logn"), ("ArrayExpLog", "log_add_exp"), ("ArrayExpLog", "log_add_exp2"),
    ("ArrayExtrema", "maximum"), ("ArrayExtrema", "fmax"), ("ArrayExtrema", "minimum"), ("ArrayExtrema", "fmin"),
    ("ArrayFloating", "copysign"), ("ArrayFloating", "ldexp"), ("ArrayFloating", "nextafter"),
    ("ArrayMathMisc", "heaviside"), ("ArrayTrigonometric", "atan2"), ("ArrayTrigonometric", "hypot"),
    ("ArrayRounding", "round"), ("ArrayRounding", "around"),
    ("ArrayRational", "lcm"), ("ArrayRational", "gcd"),
    ("ArrayBinary", "bitwise_and"), ("ArrayBinary", "bitwise_or"), ("ArrayBinary", "bitwise_xor"), ("ArrayBinary", "left_shift"), ("ArrayBinary", "right_shift"),
    ("ArrayStringCompare", "equal"), ("ArrayStringCompare", "not_equal"), ("ArrayStringCompare", "greater_equal"), ("ArrayStringCompare", "less_equal"),
    ("ArrayStringCompare", "greater"), ("ArrayStringCompare", "less"), ("ArrayStringCompare", "compare"),
    ("ArrayStringIndexing", "count"), ("ArrayStringIndexing", "starts_with"), ("ArrayStringIndexing", "ends_with"), ("ArrayStringIndexing", "find"),
    ("ArrayStringIndexing", "rfind"), ("ArrayStringIndexing", "index"), ("ArrayStringIndexing", "rindex"),
    ("ArrayStringManipulate", "add"), ("ArrayStringManipulate", "multiply"), ("ArrayStringManipulate", "center"), ("ArrayStringManipulate", "join"),
    ("ArrayStringManipulate", "partition"), ("ArrayStringManipulate", "rpartition"), ("ArrayStringManipulate", "split"), ("ArrayStringManipulate", "rsplit"),
    ("ArrayStringManipulate", "splitlines"), ("ArrayStringManipulate", "replace"), ("ArrayStringManipulate", "strip"), ("ArrayStringManipulate", "lstrip"),
    ("ArrayStringManipulate", "rstrip"), ("ArrayStringManipulate", "ljust"), ("ArrayStringManipulate", "rjust"),
    ("ArrayMathMisc", "clip"),
];
const AXIS_REDUCE: &[(&str, &str)] = &[
    ("ArraySumProdDiff", "prod"), ("ArraySumProdDiff", "sum"), ("ArraySumProdDiff", "nanprod"), ("ArraySumProdDiff", "nansum"),
    ("ArrayExtrema", "max"), ("ArrayExtrema", "amax"), ("ArrayExtrema", "nanmax"), ("ArrayExtrema", "min"), ("ArrayExtrema", "amin"), ("ArrayExtrema", "nanmin"),
    ("ArraySumProdDiff", "cumprod"), ("ArraySumProdDiff", "cumsum"), ("ArraySumProdDiff", "nancumprod"), ("ArraySumProdDiff", "nancumsum"),
    ("ArrayCount", "count_nonzero"), ("ArraySearch", "argmax"), ("ArraySearch", "argmin"),
    ("ArraySort", "sort"), ("ArraySort", "argsort"), ("ArrayManipulate", "unique"),
    ("ArrayBinaryBits", "unpack_bits"), ("ArrayBinaryBits", "pack_bits"),
];
const SPELLINGS: &[&str] = &["Quick sort", "", "STABLE ", "bigg", " stable", "quicksort", "QuickSort", "MERGESORT", "heapsort", "Stable", "stable",
    "==", "!=", ">", "<", ">=", "<=", "=", "=>", "equals", "NOT_EQUALS", "not equals", "greater", "less", "Greater_Equal", "less_equal", "lessequal",
    "big", "little", "BIG", "Little", "big ", "b", "inf", "-inf", "INF", "-Inf", "fro", "FRO", "nuc", "Nuc", "nuclear", "+inf", "infinity",
    "0", "1", "-1", "2", "+3", "-0", "007", "2147483647", "-2147483648", "2147483648", "-2147483649", "99999999999999999999", "1.5", "1e3", " 1", "1 ", "+", "-", "--1", "0x10",
    "full", "valid", "same", "FULL", "Valid", "sam", "same\n", "quic\u{212A}sort", "ſtable", "ＢＩＧ"];

fn bad_i(r: usize) -> Vec<String> {
    let r = r as i64;
    vec![r.to_string(), (r + 1).to_string(), isize::MAX.to_string(), (-r - 1).to_string(), isize::MIN.to_string(), "1000".into(), "-1000".into()]
}
fn bad_u(r: usize) -> Vec<String> { vec![r.to_string(), (r + 1).to_string(), usize::MAX.to_string(), "1000".into()] }
/// an operand shape that cannot be broadcast with `s` in either direction (aligned at the trailing axes)
fn clash(s: &[usize]) -> Option<Vec<usize>> {
    let p = (0..s.len()).rev().find(|&p| s[p] >= 2)?;
    let mut c = s[p..].to_vec(); c[0] += 1; Some(c)
}

#[derive(Clone, Copy, PartialEq)]
enum Only { All, ResImpl, Generic }
/// one captured invalid-argument line (class, trait, method, tokens) of a Result-receiver method
type Captured = (String, String, String, Vec<String>);
struct Gen<'a> {
    out: &'a mut dyn FnMut(String), seen: BTreeMap<String, BTreeSet<String>>,
    /// class suffix of the robustness streams: `-z` (zero-size receiver), `-p` / `-u8r` / … (receiver / element type variant)
    suffix: String, only: Only, res_keys: BTreeSet<String>, gen_keys: BTreeSet<String>,
    /// when set, lines are collected instead of printed (source of the `ea` stream)
    capture: Option<Vec<Captured>>,
    /// huge receivers (part 2): `Trait.method` keys left out because the call or its model is not cheap at that size
    skip: BTreeSet<String>,
}
impl<'a> Gen<'a> {
    fn e(&mut self, cls: &str, tr: &str, m: &str, s: &[usize], toks: &[String]) {
        let key = format!("{tr}.{m}");
        if let Some(c) = &mut self.capture {
            if matches!(cls, "m" | "b" | "u") && self.res_keys.contains(&key) { c.push((cls.to_string(), tr.to_string(), m.to_string(), toks.to_vec())); }
            return;
        }
        // (huge receivers: `delete` along an axis refuses an index only inside the lane function — the model's apply_along_axis needs ~10 s there)
        if !self.skip.is_empty() && key == "ArrayManipulate.delete" && toks.get(1).map_or(false, |t| t != "none") { return; }
        if !self.skip.is_empty() && (self.skip.contains(tr) || self.skip.contains(&key) || self.skip.contains(&format!("{cls}.{key}"))) { return; }
        // (huge receivers: the unknown-NAME lines of sort / argsort stop at 20 000 elements.  On /repo the name is refused before anything is
        // sorted; once a changed parser accepts it the crate's own quicksort runs on the ascending sample and needs n^2/2 words - 2 GB and
        // 1.5 s per line at 20 000 elements, 20 GB at 70 000: seeded change C09-r2-m2 exhausted the machine's memory in the deep search)
        if !self.skip.is_empty() && tr == "ArraySort" && toks.len() == 3 && (toks[2] == "str" || toks[2] == "string") && matches!(toks[0].as_str(), "none" | "0" | "-1") && s.iter().product::<usize>() > 20000 { return; }
        if self.suffix.is_empty() { self.seen.entry(key).or_default().insert(cls.to_string()); }
        else {
            match self.only { Only::ResImpl if !self.res_keys.contains(&key) => return, Only::Generic if !self.gen_keys.contains(&key) => return, _ => {} }
        }
        let mut line = format!("{cls}{}.{tr}.{m} {}", self.suffix, show_list(s));
        for t in toks { line.push(' '); line.push_str(t); }
        (self.out)(line);
    }
    fn with(&mut self, suffix: &str, only: Only) { self.suffix = suffix.to_string(); self.only = only; }
}
fn l<T: std::fmt::Display>(v: &[T]) -> String { show_list(v) }
fn st(x: &str) -> String { x.to_string() }

fn gen_shape(g: &mut Gen, s: &[usize]) {
    let r = s.len();
    let n: usize = s.iter().product();
    let ident: Vec<i64> = (0..r as i64).collect();
    let none = st("none");
    // ---- axis: Option<isize> family
    for b in bad_i(r) {
        for &(tr, m) in AXIS_REDUCE { g.e("m", tr, m, s, &[b.clone()]); }
        g.e("u", "ArraySumProdDiff", "diff", s, &[b.clone()]);
        g.e("u", "ArrayTrigonometric", "unwrap_phase", s, &[b.clone()]);
        g.e("m", "ArrayLinalgNorms", "norm", s, &[none.clone(), b.clone()]);
        g.e("m", "ArrayLinalgNorms", "norm", s, &[none.clone(), format!("0,{b}")]);
        // ---- ArrayAxis
        for p in 0..r { let mut ax: Vec<String> = ident.iter().map(|x| x.to_string()).collect(); ax[p] = b.clone(); g.e("m", "ArrayAxis", "transpose", s, &[ax.join(",")]); }
        g.e("m", "ArrayAxis", "moveaxis", s, &[b.clone(), st("0")]);
        g.e("o", "ArrayAxis", "moveaxis", s, &[st("0"), b.clone()]);
        g.e("m", "ArrayAxis", "rollaxis", s, &[b.clone(), none.clone()]);
        g.e("m", "ArrayAxis", "rollaxis", s, &[st("0"), b.clone()]);
        g.e("m", "ArrayAxis", "swapaxes", s, &[b.clone(), st("0")]);
        g.e("m", "ArrayAxis", "swapaxes", s, &[st("0"), b.clone()]);
        g.e("m", "ArrayAxis", "swapaxes", s, &[b.clone(), b.clone()]);
        g.e("m", "ArrayAxis", "squeeze", s, &[b.clone()]);
        g.e("m", "ArrayAxis", "squeeze", s, &[format!("{b},0")]);
        g.e("m", "ArrayReorder", "flip", s, &[b.clone()]);
        g.e("m", "ArrayReorder", "flip", s, &[format!("0,{b}")]);
        g.e("m", "ArrayReorder", "roll", s, &[st("1"), b.clone()]);
        g.e("m", "ArrayReorder", "roll", s, &[st("1,2"), format!("0,{b}")]);
        if r >= 2 { for k in 0..4 { g.e("m", "ArrayReorder", "rot90", s, &[k.to_string(), format!("0,{b}")]); g.e("m", "ArrayReorder", "rot90", s, &[k.to_string(), format!("{b},1")]); } }
    }
    // expand_dims: the valid range is that of the RESULT rank r + k
    for (k, pre) in [(1i64, ""), (2, "0,")] {
        let rr = r as i64 + k;
        for b in [rr, rr + 1, isize::MAX as i64, -rr - 1, isize::MIN as i64, 1000, -1000] { g.e("m", "ArrayAxis", "expand_dims", s, &[format!("{pre}{b}")]); }
    }
    // wrong-length axis lists
    let id = |k: usize| -> String { l(&(0..k as i64).collect::<Vec<_>>()) };
    g.e("m", "ArrayAxis", "transpose", s, &[id(r - 1)]);
    g.e("m", "ArrayAxis", "transpose", s, &[id(r + 1)]);
    g.e("m", "ArrayAxis", "transpose", s, &[format!("{},0", id(r))]);
    g.e("m", "ArrayAxis", "moveaxis", s, &[st("0"), st("0,1")]);
    g.e("m", "ArrayAxis", "moveaxis", s, &[st("-"), st("0")]);
    if r >= 2 { g.e("m", "ArrayAxis", "moveaxis", s, &[st("0,1"), st("0")]); g.e("m", "ArrayAxis", "moveaxis", s, &[st("0,0"), st("0,1")]); g.e("m", "ArrayAxis", "transpose", s, &[format!("0,{}", id(r - 1))]); }
    g.e("m", "ArrayReorder", "roll", s, &[st("1,2,3"), st("0,0")]);
    if r >= 2 { for ax in ["0", "0,1,0", "-"] { g.e("m", "ArrayReorder", "rot90", s, &[st("1"), st(ax)]); } }
    for ax in ["0,1,2", "0,1,2,3", "-"] { g.e("m", "ArrayLinalgNorms", "norm", s, &[none.clone(), st(ax)]); }
    // repeated (aliased) axes: not named by the statement -> only a panic is a failure
    g.e("o", "ArrayAxis", "squeeze", s, &[st("0,0")]);
    g.e("o", "ArrayAxis", "squeeze", s, &[format!("0,-{r}")]);
    g.e("o", "ArrayAxis", "squeeze", s, &[format!("{},-1", r - 1)]);
    g.e("o", "ArrayAxis", "expand_dims", s, &[st("0,0")]);
    g.e("o", "ArrayAxis", "expand_dims", s, &[format!("{r},-1")]);
    g.e("o", "ArrayReorder", "flip", s, &[st("0,0")]);
    if r >= 2 { g.e("o", "ArrayReorder", "rot90", s, &[st("1"), st("0,0")]); g.e("o", "ArrayReorder", "rot90", s, &[st("3"), format!("1,-{}", r - 1)]); }
    g.e("o", "ArrayLinalgNorms", "norm", s, &[none.clone(), st("0,0")]);
    // ---- axis: Option<usize> / usize families
    for b in bad_u(r) {
        g.e("m", "ArrayManipulate", "insert", s, &[st("0"), st("1"), b.clone()]);
        g.e("m", "ArrayManipulate", "delete", s, &[st("0"), b.clone()]);
        g.e("m", "ArrayManipulate", "append", s, &[l(s), b.clone()]);
        g.e("m", "ArraySplit", "array_split", s, &[st("1"), b.clone()]);
        g.e("m", "ArraySplit", "split", s, &[st("1"), b.clone()]);
        g.e("m", "ArraySplit", "split_axis", s, &[b.clone()]);
        g.e("m", "ArrayTiling", "repeat", s, &[st("1"), b.clone()]);
        g.e("m", "ArrayAxis", "apply_along_axis", s, &[b.clone()]);
        g.e("m", "ArrayJoining", "concatenate", s, &[l(s), b.clone()]);
        // stack: the new last axis (= rank) is refused by the code although the statement does not call it invalid -> open
        g.e(if b == r.to_string() { "o" } else { "m" }, "ArrayJoining", "stack", s, &[l(s), b.clone()]);
    }
    // ---- indices / coordinates
    for c in [vec![0usize; r - 1], vec![0usize; r + 1], vec![0usize; r + 3]] { g.e("m", "ArrayIndexing", "index_at", s, &[l(&c)]); g.e("m", "ArrayIndexing", "at", s, &[l(&c)]); }
    for p in 0..r { for v in [s[p], s[p] + 1, usize::MAX] { let mut c = vec![0usize; r]; c[p] = v; g.e("m", "ArrayIndexing", "index_at", s, &[l(&c)]); g.e("m", "ArrayIndexing", "at", s, &[l(&c)]); } }
    for i in [n, n + 1, usize::MAX] {
        g.e("m", "ArrayIndexing", "index_to_coord", s, &[i.to_string()]);
        g.e("m", "ArrayManipulate", "delete", s, &[i.to_string(), none.clone()]);
        g.e("m", "ArrayManipulate", "delete", s, &[format!("0,{i}"), none.clone()]);
        if i > n { g.e("m", "ArrayManipulate", "insert", s, &[i.to_string(), st("1"), none.clone()]); g.e("m", "ArrayManipulate", "insert", s, &[format!("0,{i}"), st("2"), none.clone()]); }
        if i > n { g.e("m", "ArrayIndexing", "slice", s, &[st("0"), i.to_string()]); }
    }
    g.e("m", "ArrayIndexing", "slice", s, &[st("2"), st("1")]);
    g.e("m", "ArrayIndexing", "slice", s, &[(n + 1).to_string(), (n + 2).to_string()]);
    if r >= 2 { for st0 in [s[0], s[0] + 1] { if st0 + 1 <= n { g.e("o", "ArrayIndexing", "slice", s, &[st0.to_string(), (st0 + 1).to_string()]); } if st0 <= n { g.e("o", "ArrayIndexing", "slice", s, &[st0.to_string(), st0.to_string()]); } } }
    let bound = if r == 1 { n } else { s[0] };
    for i in [bound, bound + 1, usize::MAX] { g.e("m", "ArrayIndexing", "indices_at", s, &[i.to_string()]); g.e("m", "ArrayIndexing", "indices_at", s, &[format!("0,{i}")]); }
    for ax in 0..r {
        for i in [s[ax], s[ax] + 1, usize::MAX] { g.e("m", "ArrayManipulate", "delete", s, &[i.to_string(), ax.to_string()]); }
        for i in [s[ax] + 1, s[ax] + 2, usize::MAX] { g.e("m", "ArrayManipulate", "insert", s, &[i.to_string(), st("1"), ax.to_string()]); }
        // repeat counts of the wrong length for the axis
        g.e("m", "ArrayTiling", "repeat", s, &[l(&vec![1usize; s[ax] + 1]), ax.to_string()]);
    }
    // ---- shapes that do not fit
    // (on a zero-size receiver the shapes [n,2] = [0,2] and [0] DO fit: not generated there)
    for sh in [vec![n + 1], vec![n, 2], vec![0], vec![n + 1, 1], if n == 1 { vec![2] } else { vec![] }] { if n == 0 && sh.contains(&0) { continue; } g.e("m", "ArrayManipulate", "reshape", s, &[l(&sh)]); }
    for cnt in [n + 1, n + 2, n.saturating_sub(1) + 2 * (n == 0) as usize] { if cnt != n { g.e("m", "ArrayCreate", "new", s, &[cnt.to_string(), l(s)]); g.e("m", "ArrayCreate", "create", s, &[cnt.to_string(), l(s), st("3")]); } }
    if n != 1 { g.e("m", "ArrayCreate", "new", s, &[st("1"), l(s)]); }
    if n > 0 { g.e("m", "ArrayTiling", "repeat", s, &[l(&vec![1usize; n + 1]), none.clone()]); }
    if let Some(c) = clash(s) {
        let c = l(&c);
        g.e("m", "ArrayBroadcast", "broadcast_to", s, &[c.clone()]);
        g.e("m", "ArrayBroadcast", "broadcast", s, &[c.clone()]);
        g.e("m", "ArrayBroadcast", "broadcast_arrays", s, &[c.clone()]);
        g.e("m", "ArrayIterMut", "zip", s, &[c.clone()]);
        for &(tr, m) in BINARY_F64 {
            g.e("b", tr, m, s, &[c.clone()]);
            if m == "replace" { g.e("b", tr, m, s, &[st("1"), c.clone()]); }
            if m == "clip" || m == "split" || m == "rsplit" || m == "center" || m == "ljust" || m == "rjust" { g.e("b", tr, m, s, &[if m == "clip" || m == "split" || m == "rsplit" { none.clone() } else { st("1") }, c.clone()]); }
        }
        for m in ["linspace_a", "logspace_a", "geomspace_a"] { g.e("u", "ArrayCreateNumeric", m, s, &[c.clone()]); }
        if r >= 2 { g.e("u", "ArraySumProdDiff", "diff", s, &[none.clone(), st("1"), c.clone()]); }
        if c.split(',').count() < r { g.e("m", "ArrayManipulate", "append", s, &[c.clone(), st("0")]); }
        for m in ["vstack", "column_stack", "row_stack"] { g.e("m", "ArrayJoining", m, s, &[l(&{ let mut t = s.to_vec(); let k = t.len() - 1; t[k] += 1; t[0] += (k > 0) as usize; t })]); }
        g.e("m", "ArrayJoining", "stack", s, &[l(&{ let mut t = s.to_vec(); let k = t.len() - 1; t[k] += 1; t }), none.clone()]);
        if r >= 2 {
            let mut t = s.to_vec(); t[r - 1] += 1; t[0] += 1; let t = l(&t);
            for ax in 0..r { g.e("m", "ArrayJoining", "concatenate", s, &[t.clone(), ax.to_string()]); g.e("m", "ArrayManipulate", "append", s, &[t.clone(), ax.to_string()]); }
            for m in ["hstack", "dstack"] { g.e("m", "ArrayJoining", m, s, &[t.clone()]); }
        }
    }
    // a target of lower rank / with a zero-length axis never fits
    if r >= 2 && s[0] >= 2 { g.e("m", "ArrayBroadcast", "broadcast_to", s, &[l(&s[1..])]); }
    if n > 0 { g.e("m", "ArrayBroadcast", "broadcast_to", s, &[st("0")]); }
    // linalg: operands that are not aligned / not square
    if r == 2 && s[0] != s[1] {
        for m in ["dot", "matmul"] { g.e("m", "ArrayLinalgProducts", m, s, &[l(s)]); }
        for (tr, m) in [("ArrayLinalgNorms", "det"), ("ArrayLinalgDecompositions", "qr"), ("ArrayLinalgEigen", "eig"), ("ArrayLinalgEigen", "eigvals")] { g.e(if tr == "ArrayLinalgEigen" { "u" } else { "m" }, tr, m, s, &[]); }
        g.e("m", "ArrayLinalgSolvingInvertingProducts", "solve", s, &[l(&[s[0]])]);
    }
    if r == 2 && s[0] == s[1] && s[0] >= 2 { g.e("m", "ArrayLinalgSolvingInvertingProducts", "solve", s, &[l(&[s[0] + 1])]); }
    if r == 1 && s[0] >= 2 { g.e("m", "ArrayLinalgProducts", "vdot", s, &[l(&[s[0] + 1])]); g.e("m", "ArrayLinalgProducts", "inner", s, &[l(&[s[0] + 1])]); g.e("m", "ArrayLinalgProducts", "dot", s, &[l(&[s[0] + 1])]); g.e("m", "ArrayLinalgProducts", "matmul", s, &[l(&[s[0] + 1])]); }
    // ---- zero parts
    for ax in [none.clone(), st("0")] { g.e("m", "ArraySplit", "array_split", s, &[st("0"), ax.clone()]); g.e("m", "ArraySplit", "split", s, &[st("0"), ax]); }
    for m in ["hsplit", "vsplit", "dsplit"] { g.e("m", "ArraySplit", m, s, &[st("0")]); }
    // ---- dimension limits named by the operations themselves
    for k in [4usize, 5, usize::MAX] { g.e("m", "ArrayManipulate", "atleast", s, &[k.to_string()]); }
    // ---- unknown option names through the operations
    for sp in ["Quick sort", "", "STABLE ", "bigg"] {
        let h = hex(sp);
        for fl in ["str", "string"] {
            g.e("m", "ArraySort", "sort", s, &[none.clone(), h.clone(), st(fl)]);
            g.e("m", "ArraySort", "argsort", s, &[st("0"), h.clone(), st(fl)]);
            g.e("m", "ArrayStringCompare", "compare", s, &[l(s), h.clone(), st(fl)]);
            g.e("m", "ArrayBinaryBits", "pack_bits", s, &[none.clone(), h.clone(), st(fl)]);
            g.e("m", "ArrayBinaryBits", "unpack_bits", s, &[none.clone(), none.clone(), h.clone(), st(fl)]);
            g.e("m", "ArrayLinalgNorms", "norm", s, &[h.clone(), none.clone(), none.clone(), st(fl)]);
            g.e("m", "ArrayLinalgNorms", "norm", s, &[h.clone(), st("0"), none.clone(), st(fl)]);
            g.e("m", "ArrayMathMisc", "convolve", s, &[st("2"), h.clone(), st(fl)]);
        }
    }
}

/// extreme argument values the statement does not call invalid: the call must not panic
fn gen_total(g: &mut Gen, s: &[usize]) {
    let (imax, imin, umax) = (isize::MAX.to_string(), isize::MIN.to_string(), usize::MAX.to_string());
    let none = st("none");
    for k in ["0", "1", "-1", "5", "-5", imax.as_str(), imin.as_str()] {
        for m in ["diag", "diagflat", "tril", "triu"] { g.e("t", "ArrayCreateFrom", m, s, &[st(k)]); }
        g.e("t", "ArrayReorder", "roll", s, &[st(k), none.clone()]);
        g.e("t", "ArrayReorder", "roll", s, &[st(k), st("0")]);
        g.e("t", "ArrayBinaryBits", "unpack_bits", s, &[none.clone(), st(k)]);
        g.e("t", "ArrayBinaryBits", "unpack_bits", s, &[st("0"), st(k)]);
    }
    for k in ["0", "2", "3", "7", umax.as_str()] { g.e("t", "ArrayReorder", "rot90", s, &[st(k), st("0,1")]); if k != umax { g.e("t", "ArrayManipulate", "cycle_take", s, &[st(k)]); } }
    for sh in ["0", "-", "1", "0,3", "2,0"] { g.e("t", "ArrayManipulate", "resize", s, &[st(sh)]); }
    for rp in ["0", "0,0", "-"] { g.e("t", "ArrayTiling", "repeat", s, &[st(rp), none.clone()]); g.e("t", "ArrayTiling", "repeat", s, &[st(rp), st("0")]); }
    for nn in ["0", "1", "2", "5", "1000"] { g.e("t", "ArraySumProdDiff", "diff", s, &[none.clone(), st(nn)]); g.e("t", "ArraySumProdDiff", "diff", s, &[st("0"), st(nn)]); g.e("t", "ArrayCreateFrom", "vander", s, &[st(nn)]); }
    for idx in ["-", "0", "0,0"] { g.e("t", "ArrayManipulate", "delete", s, &[st(idx), none.clone()]); g.e("t", "ArrayManipulate", "insert", s, &[st(idx), st("1"), none.clone()]); g.e("t", "ArrayIndexing", "indices_at", s, &[st(idx)]); g.e("t", "ArrayManipulate", "insert", s, &[st(idx), st("1"), st("0")]); }
    for w in ["0", "1", "100"] { g.e("t", "ArrayStringManipulate", "zfill", s, &[st(w)]); }
    g.e("t", "ArrayStringManipulate", "replace", s, &[st("1"), st("1"), st("0")]);
    g.e("t", "ArrayIndexing", "slice", s, &[st("0"), st("0")]);
    for p in ["1", "2", "3", "7", "1000"] { g.e("t", "ArraySplit", "array_split", s, &[st(p), none.clone()]); g.e("t", "ArraySplit", "split", s, &[st(p), st("0")]); g.e("t", "ArraySplit", "hsplit", s, &[st(p)]); g.e("t", "ArraySplit", "vsplit", s, &[st(p)]); g.e("t", "ArraySplit", "dsplit", s, &[st(p)]); }
}

fn gen_static_total(g: &mut Gen) {
    let (imax, imin, umax) = (isize::MAX.to_string(), isize::MIN.to_string(), usize::MAX.to_string());
    let s0: &[usize] = &[1];
    let none = st("none");
    for n in ["0", "1", "3"] { for m in ["none", "0", "2", "5"] {
        for k in ["none", "0", "1", "4", "100", umax.as_str()] { g.e("t", "ArrayCreateNumeric", "eye", s0, &[st(n), st(m), st(k)]); }
        for k in ["none", "0", "1", "-1", "4", "-4", imax.as_str(), imin.as_str()] { g.e("t", "ArrayCreateNumeric", "tri", s0, &[st(n), st(m), st(k)]); }
    } g.e("t", "ArrayCreateNumeric", "identity", s0, &[st(n)]); }
    for num in ["none", "0", "1", "2", "5"] { for ep in ["none", "true", "false"] {
        g.e("t", "ArrayCreateNumeric", "linspace", s0, &[st("0"), st("5"), st(num), st(ep)]);
        g.e("t", "ArrayCreateNumeric", "linspace", s0, &[st("3"), st("3"), st(num), st(ep)]);
        g.e("t", "ArrayCreateNumeric", "logspace", s0, &[st("0"), st("3"), st(num), st(ep), none.clone()]);
        g.e("t", "ArrayCreateNumeric", "logspace", s0, &[st("0"), st("3"), st(num), st(ep), st("0")]);
        g.e("t", "ArrayCreateNumeric", "geomspace", s0, &[st("1"), st("8"), st(num), st(ep)]);
        g.e("t", "ArrayCreateNumeric", "geomspace", s0, &[st("0"), st("8"), st(num), st(ep)]);
        g.e("t", "ArrayCreateNumeric", "geomspace", s0, &[st("-1"), st("8"), st(num), st(ep)]);
        for sh in [vec![1usize], vec![2], vec![2, 2]] { for m in ["linspace_a", "logspace_a", "geomspace_a"] { g.e("t", "ArrayCreateNumeric", m, &sh, &[l(&sh), st(num), st(ep)]); } }
    } }
    for (a, b, c) in [("0", "5", "none"), ("0", "5", "0"), ("5", "0", "none"), ("5", "0", "1"), ("0", "5", "-1"), ("0", "0", "none"), ("0", "5", "7")] { g.e("t", "ArrayCreateNumeric", "arange", s0, &[st(a), st(b), st(c)]); }
    for sh in ["-", "0", "0,2", "2,0,2"] { for m in ["rand", "zeros", "ones", "full"] { g.e("t", "ArrayCreateNumeric", m, s0, &[st(sh)]); } if sh != "-" { g.e("t", "ArrayCreate", "new", s0, &[st("0"), st(sh)]); } }
    g.e("t", "ArrayCreate", "flat", s0, &[st("0")]);
    for nd in ["0", "1", "5", "64"] { g.e("t", "ArrayCreate", "create", &[2, 3], &[st("6"), st("2,3"), st(nd)]); }
}

/// ROUND 5 (class 16 read for option names: ONE exact value): every documented option name with a letter (pair) replaced by a character
/// whose Unicode UPPER- or lower-casing is that ASCII letter (pair) - U+017F long s -> S, U+00DF sharp s -> SS, U+0131 dotless i -> I,
/// the ligatures U+FB06 / U+FB05 -> ST, U+FB02 -> FL, U+FB01 -> FI, U+FB00 -> FF, and U+212A KELVIN SIGN -> k (the one that Rust's
/// to_lowercase really maps: accepted by the crate and by the model) - in lower case and with the rest in upper case.  A parser that
/// normalises with another case mapping than the table's accepts some of them.
fn lookalike_names() -> Vec<String> {
    let names = ["quicksort", "mergesort", "heapsort", "stable", "equals", "not_equals", "greater", "less", "greater_equal", "less_equal",
        "big", "little", "inf", "-inf", "fro", "nuc", "full", "valid", "same"];
    let subs = [("ss", "\u{df}"), ("s", "\u{17f}"), ("i", "\u{131}"), ("st", "\u{fb06}"), ("st", "\u{fb05}"), ("fl", "\u{fb02}"), ("fi", "\u{fb01}"), ("ff", "\u{fb00}"), ("k", "\u{212a}"), ("ss", "\u{1e9e}"), ("i", "\u{130}")];
    let mut out: Vec<String> = vec![];
    for n in names { for (from, to) in subs {
        if !n.contains(from) { continue; }
        let first = n.replacen(from, to, 1);
        let all = n.replace(from, to);
        let last = match n.rfind(from) { Some(p) => format!("{}{}{}", &n[..p], to, &n[p + from.len()..]), None => continue };
        for v in [first, all, last] {
            let upper: String = v.chars().map(|c| if c.is_ascii() { c.to_ascii_uppercase() } else { c }).collect();
            out.push(v); out.push(upper);
        }
    } }
    out.sort(); out.dedup();
    out
}

/// names no parser accepts: blank, whitespace, padded, wrong, non-ASCII look-alikes
const BAD_NAMES: &[&str] = &["", " ", "  ", "\t", "\n", "\u{a0}", "Quick sort", "STABLE ", " stable", "bigg", "ＢＩＧ", "ſtable", "stablé", "ｆｒｏ", "quicksort\u{0}", "İnf", "NUC ", "=>", "sa me", "\u{feff}full"];

/// option names spelled as enum / &str / owned String: every unknown name is an error value through every operation that takes
/// the option; a VALID name (in all three spellings) does not rescue an invalid axis / non-fitting operand
fn gen_options(g: &mut Gen, s: &[usize]) {
    let none = st("none");
    let r = s.len();
    for sp in BAD_NAMES {
        let h = hex(sp);
        for fl in ["str", "string"] {
            for ax in [none.clone(), st("0"), st("-1")] {
                g.e("m", "ArraySort", "sort", s, &[ax.clone(), h.clone(), st(fl)]);
                g.e("m", "ArraySort", "argsort", s, &[ax.clone(), h.clone(), st(fl)]);
                g.e("m", "ArrayBinaryBits", "pack_bits", s, &[ax.clone(), h.clone(), st(fl)]);
                g.e("m", "ArrayBinaryBits", "unpack_bits", s, &[ax.clone(), none.clone(), h.clone(), st(fl)]);
            }
            g.e("m", "ArrayStringCompare", "compare", s, &[l(s), h.clone(), st(fl)]);
            g.e("m", "ArrayStringCompare", "compare", s, &[st("1"), h.clone(), st(fl)]);
            g.e("m", "ArrayLinalgNorms", "norm", s, &[h.clone(), none.clone(), none.clone(), st(fl)]);
            g.e("m", "ArrayLinalgNorms", "norm", s, &[h.clone(), st("0"), st("true"), st(fl)]);
            g.e("m", "ArrayMathMisc", "convolve", s, &[st("2"), h.clone(), st(fl)]);
        }
    }
    for b in bad_i(r) {
        for fl in ["enum", "str", "string"] {
            for (k, name) in ["quicksort", "MergeSort", "HEAPSORT", "stable"].iter().enumerate() {
                if fl == "enum" || k % 2 == 0 || s.len() == 1 {
                    g.e("m", "ArraySort", "sort", s, &[b.clone(), hex(name), st(fl)]);
                    g.e("m", "ArraySort", "argsort", s, &[b.clone(), hex(name), st(fl)]);
                }
            }
            g.e("m", "ArrayBinaryBits", "pack_bits", s, &[b.clone(), hex("little"), st(fl)]);
            g.e("m", "ArrayBinaryBits", "unpack_bits", s, &[b.clone(), none.clone(), hex("BIG"), st(fl)]);
            g.e("m", "ArrayLinalgNorms", "norm", s, &[hex("fro"), b.clone(), none.clone(), st(fl)]);
            g.e("m", "ArrayLinalgNorms", "norm", s, &[hex("-inf"), format!("0,{b}"), st("true"), st(fl)]);
        }
    }
    if let Some(c) = clash(s) {
        for fl in ["enum", "str", "string"] { g.e("b", "ArrayStringCompare", "compare", s, &[l(&c), hex(">="), st(fl)]); }
    }
}

/// invalid axes REPEATED inside an axis list (2, 3, 4 times; alone and mixed with valid axes, in every position): a validation
/// that first cancels / dedups / sorts the list must still refuse them.  Every axis-list argument of every operation.
fn gen_repeated_axes(g: &mut Gen, s: &[usize]) {
    let r = s.len();
    let none = st("none");
    let lists = |b: &str| -> Vec<String> {
        let mut v = vec![format!("{b},{b}"), format!("{b},{b},{b}"), format!("{b},{b},{b},{b}"), format!("0,{b},{b}"), format!("{b},0,{b}"), format!("{b},{b},0"), format!("{b},-1,{b},0"), format!("-1,{b},{b},{b},{b}")];
        if r >= 2 { v.push(format!("1,{b},0,{b}")); v.push(format!("{b},{b},1,0")); }
        v
    };
    let ones = |l: &str| -> String { l.split(',').map(|_| "1").collect::<Vec<_>>().join(",") };
    let valid = |l: &str| -> String { l.split(',').enumerate().map(|(i, _)| (i % r).to_string()).collect::<Vec<_>>().join(",") };
    for b in bad_i(r) {
        for l in lists(&b) {
            g.e("m", "ArrayReorder", "flip", s, &[l.clone()]);
            g.e("m", "ArrayAxis", "squeeze", s, &[l.clone()]);
            g.e("m", "ArrayAxis", "transpose", s, &[l.clone()]);
            g.e("m", "ArrayAxis", "moveaxis", s, &[l.clone(), valid(&l)]);
            g.e("m", "ArrayAxis", "moveaxis", s, &[valid(&l), l.clone()]);
            g.e("m", "ArrayAxis", "moveaxis", s, &[l.clone(), l.clone()]);
            g.e("m", "ArrayReorder", "roll", s, &[ones(&l), l.clone()]);
            g.e("m", "ArrayReorder", "rot90", s, &[st("1"), l.clone()]);
            g.e("m", "ArrayReorder", "rot90", s, &[st("2"), l.clone()]);
            g.e("m", "ArrayLinalgNorms", "norm", s, &[none.clone(), l.clone()]);
        }
        // a transposition list of the right length in which the invalid axis takes two / all places
        if r >= 2 { let mut ax: Vec<String> = (0..r).map(|x| x.to_string()).collect(); ax[0] = b.clone(); ax[r - 1] = b.clone(); g.e("m", "ArrayAxis", "transpose", s, &[ax.join(",")]); }
        g.e("m", "ArrayAxis", "transpose", s, &[vec![b.clone(); r].join(",")]);
    }
    // expand_dims: the valid range is that of the RESULT rank r + (length of the list)
    for len in 2..=5usize {
        let rr = (r + len) as i64;
        for b in [rr, rr + 1, -rr - 1, 1000, isize::MAX as i64, isize::MIN as i64] {
            for pat in 0..4usize {
                let mut l: Vec<String> = (0..len).map(|i| i.to_string()).collect();
                match pat { 0 => { l[0] = b.to_string(); l[1] = b.to_string(); } 1 => { l[len - 1] = b.to_string(); l[len - 2] = b.to_string(); } 2 => { for x in l.iter_mut() { *x = b.to_string(); } } _ => { l[0] = b.to_string(); l[len - 1] = b.to_string(); } }
                g.e("m", "ArrayAxis", "expand_dims", s, &[l.join(",")]);
            }
        }
    }
}

/// hidden state: the receiver shapes of a colliding group interleaved (every shape directly after every neighbour, both orders)
/// through one invalid-argument line and one smoke line of every shape-sensitive method; every failing call is thereby directly
/// followed by a call on another shape
fn c09_collision_groups() -> Vec<Vec<Vec<usize>>> {
    let mut g: Vec<Vec<Vec<usize>>> = vec![];
    for &m in &[31usize, 33, 37, 131, 257] { g.push(vec![vec![2, m], vec![1, 2 * m]]); g.push(vec![vec![3, 2, m], vec![3, 1, 2 * m]]); }
    for (i, (a, b)) in collision_shape_pairs().into_iter().enumerate() { if i % 3 == 0 { g.push(vec![a, b]); } }
    g.push(vec![vec![2, 3, 4], vec![4, 3, 2], vec![3, 4, 2], vec![2, 2, 6]]);
    g.push(vec![vec![2, 6], vec![6, 2], vec![3, 4], vec![12, 1]]);
    g.push(vec![vec![2, 3], vec![2, 259], vec![258, 3]]);
    g
}

fn gen_part2(g: &mut Gen, thorough: bool, captured: &[Captured]) {
    let ents = entries();
    let none = st("none");
    // 8a. invalid axes repeated inside an axis list, on ordinary, unit, big and (suffix -z: only a panic fails where the model accepts)
    //     zero-size receivers, through the Result impl and the plain receiver and on other element types
    g.with("", Only::All);
    let mut rsh: Vec<Vec<usize>> = vec![vec![3], vec![2, 3], vec![2, 3, 2], vec![2, 2, 3, 2], vec![1, 3], vec![1, 1, 1], vec![600], vec![17, 16], vec![2, 70, 2]];
    if thorough { rsh.extend(shapes(1, 3, 1, 2)); rsh.extend(vec![vec![5, 5, 5, 5], vec![2, 1, 2, 1, 2], vec![2, 2, 2, 2, 2, 2]]); }
    for s in &rsh { gen_repeated_axes(g, s); }
    for (suf, only) in [("-p", Only::ResImpl), ("-u8r", Only::Generic), ("-f64p", Only::Generic), ("-strr", Only::Generic)] {
        g.with(suf, only);
        for s in [vec![2usize, 3], vec![2, 3, 2], vec![3]] { gen_repeated_axes(g, &s); }
    }
    g.with("-z", Only::All);
    for s in [vec![0usize], vec![2, 0], vec![0, 2, 3]] { gen_repeated_axes(g, &s); }
    g.with("", Only::All);
    // 8b. ranks 5..8 and long unsorted lists: every invalid-argument class on high-rank receivers
    let mut hr: Vec<Vec<usize>> = vec![vec![2, 1, 2, 1, 2], vec![2, 2, 2, 2, 2, 2], vec![1, 2, 1, 2, 1, 2, 1], vec![2, 1, 1, 2, 1, 1, 1, 2]];
    if thorough { hr.extend(vec![vec![2; 7], vec![2; 8], vec![3, 1, 2, 1, 2, 1, 1, 2]]); }
    for s in &hr { gen_shape(g, s); gen_repeated_axes(g, s); }
    // 8c. huge receivers (16 385 .. 140 000 elements, one axis above 65 536): every invalid-argument class whose call and model are
    //     cheap at that size (an early refusal).  Left out: see `HUGE_SKIP`.
    g.skip = HUGE_SKIP.iter().map(|k| k.to_string()).collect();
    let mut huge: Vec<Vec<usize>> = vec![vec![20000], vec![70000], vec![2, 10000], vec![10000, 2], vec![130, 130], vec![40, 30, 30], vec![16385], vec![2, 70000], vec![10, 11, 12, 13]];
    if thorough { huge.extend(vec![vec![140001], vec![70000, 2], vec![5, 4, 10, 10, 10], vec![300, 300], vec![33000], vec![129, 131]]); }
    for s in &huge { gen_shape(g, s); }
    for (suf, only) in [("-p", Only::ResImpl), ("-u8r", Only::Generic), ("-f64p", Only::Generic)] {
        g.with(suf, only);
        for s in [vec![20000usize], vec![2, 10000], vec![40, 30, 30]] { gen_shape(g, &s); }
    }
    g.with("", Only::All);
    for s in [vec![20000usize], vec![130, 130]] { gen_options(g, &s); gen_repeated_axes(g, &s); }
    g.skip.clear();
    // 8d. hidden state: colliding receiver shapes interleaved — every captured invalid-argument line of the ea stream that is valid
    //     for the rank, one smoke line per shape-sensitive method; every failing call is directly followed by a call on the sibling
    let shape_sensitive = ["ArrayAxis", "ArrayReorder", "ArrayManipulate", "ArraySplit", "ArrayIndexing", "ArraySumProdDiff", "ArrayExtrema", "ArraySearch", "ArraySort", "ArrayCount", "ArrayBroadcast", "ArrayTiling"];
    let _ = captured;
    for grp in c09_collision_groups() {
        let r = grp[0].len();
        let mut seq: Vec<&Vec<usize>> = grp.iter().collect();
        seq.push(&grp[0]); seq.extend(grp.iter().rev().skip(1)); seq.push(&grp[1]);
        for e in &ents {
            if !e.res_impl || !shape_sensitive.contains(&e.tr) { continue; }
            // smoke with default arguments on every member, then an axis just outside the rank / an index just outside the array
            for s in &seq { g.e("n", e.tr, e.m, s, &[]); }
        }
        for b in [r.to_string(), format!("-{}", r + 1)] {
            for &(tr, m) in AXIS_REDUCE { for s in &seq { g.e("m", tr, m, s, &[b.clone()]); g.e("n", tr, m, s, &[]); } }
            for s in &seq {
                g.e("m", "ArrayReorder", "flip", s, &[b.clone()]); g.e("n", "ArrayReorder", "flip", s, &[]);
                g.e("m", "ArrayAxis", "squeeze", s, &[b.clone()]); g.e("n", "ArrayAxis", "transpose", s, &[]);
                g.e("m", "ArrayAxis", "swapaxes", s, &[b.clone(), st("0")]); g.e("n", "ArrayAxis", "swapaxes", s, &[]);
                g.e("m", "ArrayAxis", "rollaxis", s, &[b.clone(), none.clone()]); g.e("n", "ArrayAxis", "rollaxis", s, &[]);
            }
        }
        for s in &seq {
            let n: usize = s.iter().product();
            g.e("m", "ArrayManipulate", "delete", s, &[n.to_string(), none.clone()]); g.e("t", "ArrayManipulate", "delete", s, &[st("0"), none.clone()]);
            g.e("m", "ArrayIndexing", "index_to_coord", s, &[n.to_string()]); g.e("n", "ArrayIndexing", "index_to_coord", s, &[]);
            g.e("m", "ArrayIndexing", "index_at", s, &[l(s)]); g.e("n", "ArrayIndexing", "index_at", s, &[]);
            g.e("m", "ArrayManipulate", "reshape", s, &[(n + 1).to_string()]); g.e("n", "ArrayManipulate", "reshape", s, &[]);
            g.e("m", "ArraySplit", "split_axis", s, &[r.to_string()]); g.e("n", "ArraySplit", "split_axis", s, &[]);
        }
    }
    // 8e. exact values: narrowing images c + 2^8, c + 2^16, c + 2^32 of a VALID index / axis / coordinate are invalid
    for s in [vec![3usize], vec![2, 3], vec![2, 3, 2], vec![300], vec![2, 300]] {
        let r = s.len();
        let n: usize = s.iter().product();
        for img in narrowing_images(0).into_iter().chain(narrowing_images(r - 1)) {
            g.e("m", "ArrayAxis", "apply_along_axis", &s, &[img.to_string()]); g.e("n", "ArrayAxis", "apply_along_axis", &s, &[]);
            g.e("m", "ArraySplit", "split_axis", &s, &[img.to_string()]);
            g.e("m", "ArrayManipulate", "delete", &s, &[st("0"), img.to_string()]);
            g.e("m", "ArraySplit", "array_split", &s, &[st("1"), img.to_string()]);
            g.e("m", "ArrayTiling", "repeat", &s, &[st("1"), img.to_string()]);
            g.e("m", "ArrayManipulate", "append", &s, &[l(&s), img.to_string()]);
            for &(tr, m) in AXIS_REDUCE.iter().take(6) { g.e("m", tr, m, &s, &[img.to_string()]); g.e("m", tr, m, &s, &[format!("-{}", img)]); }
            g.e("m", "ArrayReorder", "flip", &s, &[format!("0,{img}")]);
        }
        for img in narrowing_images(0).into_iter().chain(narrowing_images(n - 1)) {
            if img < n { continue; }
            g.e("m", "ArrayIndexing", "index_to_coord", &s, &[img.to_string()]);
            g.e("m", "ArrayManipulate", "delete", &s, &[img.to_string(), none.clone()]); g.e("t", "ArrayManipulate", "delete", &s, &[st("0"), none.clone()]);
            g.e("m", "ArrayManipulate", "delete", &s, &[format!("0,{img}"), none.clone()]);
        }
        for p in 0..r { for img in narrowing_images(s[p] - 1) { let mut c = vec![0usize; r]; c[p] = img; g.e("m", "ArrayIndexing", "index_at", &s, &[l(&c)]); g.e("m", "ArrayIndexing", "at", &s, &[l(&c)]); g.e("n", "ArrayIndexing", "at", &s, &[]); } }
    }
}

/// 8f/8g (separate function: the borrow of `captured`)
fn gen_part2_tail(g: &mut Gen, thorough: bool, captured: &[Captured]) {
    // 8f. closures: an error value returned by the closure of apply_along_axis comes back as an error value (class u: constant `err`);
    //     a closure that calls apply_along_axis itself on its lane (re-entrancy) works (class n: only a panic fails); a closure whose
    //     nested call refuses an axis hands that error on
    let mut sh: Vec<Vec<usize>> = vec![vec![3], vec![2, 3], vec![2, 3, 2], vec![1, 1], vec![2, 31], vec![1, 62], vec![600], vec![2, 2, 2, 2, 2]];
    if thorough { sh.extend(shapes(1, 3, 1, 3)); }
    for suf in ["", "-p", "-u8r", "-f64p", "-strr"] {
        g.with(suf, if suf.is_empty() { Only::All } else if suf == "-p" { Only::ResImpl } else { Only::Generic });
        for s in &sh { for ax in 0..s.len() {
            g.e("n", "ArrayAxis", "apply_along_axis", s, &[ax.to_string()]);
            g.e("u", "ArrayAxis", "apply_along_axis", s, &[ax.to_string(), st("fail")]);
            g.e("n", "ArrayAxis", "apply_along_axis", s, &[ax.to_string(), st("reent")]);
            g.e("u", "ArrayAxis", "apply_along_axis", s, &[ax.to_string(), st("reentfail")]);
            g.e("n", "ArrayAxis", "apply_along_axis", s, &[ax.to_string()]);
        } }
    }
    g.with("", Only::All);
    // 8g. the same invalid-argument line through every element type / receiver back to back (a static shared by the instantiations)
    for (cls, tr, m, toks) in captured {
        if !g.gen_keys.contains(&format!("{tr}.{m}")) { continue; }
        for suf in ["", "-u8r", "-f64p", "-strr", "-p", "-u8p", "-f64r", ""] {
            let mut line = format!("{cls}{suf}.{tr}.{m} 2,3");
            for t in toks { line.push(' '); line.push_str(t); }
            (g.out)(line);
        }
    }
}

/// ROUND 5 (class 22): the three-argument relations of `insert(indices, values, Some(axis))`.  Since round 5 the driver runs the Lean
/// model `Arr.insertAxis` (ArrModel/C01Diff.lean) on these lines.  Class `m` where the argument is invalid by one of the kinds the
/// statement names on its own (axis outside the rank, an index above the bound, a values rank outside 1..=rank); class `x` for the
/// relations (the MODEL decides between ok and err, the real call must fall into the same class, a panic always fails):
///  A. number of indices (1, 2, 3; sorted, unsorted, repeated, at the bound) against the ROWS of the values (0..=7: equal, divisor,
///     multiple, coprime, one more, one less, none at all) with the other axes matching / all 1, and the lower-rank spellings;
///  B. the other axes of the values: match, 1, a proper divisor, a non-divisor, one too long, zero length - every combination;
///  C. every index of a list of 1..3 pushed above the bound; axis outside the rank; values of rank 0, rank + 1, rank + 2.
/// `level`: 0 = streams A and C with few index lists (variants / big receivers), 1 = quick, 2 = thorough.
fn gen_insert_axis(g: &mut Gen, s: &[usize], level: usize) {
    let r = s.len();
    let (tr, m) = ("ArrayManipulate", "insert");
    // the lower-rank spellings of a values shape: leading unit axes may be left out (`to_array_ndim` puts them back)
    let spellings = |v: &[usize]| -> Vec<Vec<usize>> { let mut out = vec![v.to_vec()]; let mut k = 0; while k + 1 < v.len() && v[k] == 1 { k += 1; out.push(v[k..].to_vec()); } out };
    for ax in 0..r {
        let b = s[ax];
        // index lists inside the bound
        let mut lists: Vec<Vec<usize>> = vec![vec![0], vec![b], vec![0, b], vec![b, 0], vec![0, b / 2, b], vec![b, 0, b]];
        if level >= 1 { lists.extend(vec![vec![b / 2], vec![0, 0], vec![b, b], vec![0, 0, 0], vec![b, b / 2, 0], vec![]]); }
        if level >= 2 { lists.extend(vec![vec![0, 1.min(b), 0, b], vec![b.min(1), b.min(2)], vec![b.min(2), b.min(1), 0]]); }
        if r == 1 { for i in 0..=b.min(6) { lists.push(vec![i]); lists.push(vec![i, b - i]); } }
        lists.sort(); lists.dedup();
        // the values shape is read in the receiver's rank; `swap(0, axis)` of it is compared with the receiver: position 0 holds the
        // rows, position `ax` is compared with the receiver's axis 0, every other position with the receiver's axis of that position
        let other: Vec<usize> = (0..r).filter(|&i| i != ax).collect();
        let facing = |i: usize| -> usize { if i == 0 { ax } else { i } };     // position of the values shape that faces receiver axis i
        let build = |rows: usize, t: &[usize]| -> Vec<usize> { let mut v = vec![1usize; r]; for (j, &i) in other.iter().enumerate() { v[facing(i)] = t[j]; } v[0] = rows; v };
        let matching: Vec<usize> = other.iter().map(|&i| s[i]).collect();
        let ones: Vec<usize> = vec![1; other.len()];
        // A. rows against the number of indices
        for li in &lists {
            for rows in 0..=7usize {
                if level == 0 && rows > 4 && rows != 6 { continue; }
                let mut pats = vec![matching.clone(), ones.clone()];
                if level >= 2 && other.len() == 2 { pats.push(vec![matching[0], 1]); pats.push(vec![1, matching[1]]); }
                pats.dedup();
                for t in &pats { for v in spellings(&build(rows, t)) { g.e("x", tr, m, s, &[l(li), l(&v), ax.to_string()]); } }
            }
        }
        // B. the other axes: match / 1 / proper divisor / non-divisor / too long / zero
        if level >= 1 && !other.is_empty() {
            let opts: Vec<Vec<usize>> = other.iter().map(|&i| {
                let si = s[i];
                let mut o = vec![si, 1, si + 1, 0];
                if let Some(d) = (2..si).find(|d| si % d == 0) { o.push(d); }
                if let Some(d) = (2..si).find(|d| si % d != 0) { o.push(d); }
                if level >= 2 { o.push(2 * si); }
                o.sort(); o.dedup(); o }).collect();
            let dims: Vec<usize> = opts.iter().map(Vec::len).collect();
            let blists: Vec<Vec<usize>> = vec![vec![0], vec![0, b], vec![b, 0, b]];
            for c in boxes(&dims) {
                let t: Vec<usize> = c.iter().enumerate().map(|(j, &k)| opts[j][k]).collect();
                for rows in [1usize, 2, 3] {
                    if level < 2 && rows == 3 && r == 3 { continue; }
                    for li in &blists { for v in spellings(&build(rows, &t)) { g.e("x", tr, m, s, &[l(li), l(&v), ax.to_string()]); } }
                }
            }
        }
        // C. an index above the bound in every position of lists of 1..3; values rank outside 1..=rank
        for k in 1..=3usize { for p in 0..k { for bad in [b + 1, b + 2, usize::MAX, b + 256] {
            if level == 0 && bad == b + 256 { continue; }
            let mut li: Vec<usize> = (0..k).map(|j| if j % 2 == 0 { 0 } else { b }).collect(); li[p] = bad;
            for rows in [1usize, k] { g.e("m", tr, m, s, &[l(&li), l(&build(rows, &matching)), ax.to_string()]); }
        } } }
        for li in [vec![0usize], vec![0, b]] {
            g.e("m", tr, m, s, &[l(&li), st("-"), ax.to_string()]);
            let mut big = vec![1usize]; big.extend(build(li.len(), &matching)); g.e("m", tr, m, s, &[l(&li), l(&big), ax.to_string()]);
            let mut big2 = vec![1usize, 1]; big2.extend(build(1, &ones)); g.e("m", tr, m, s, &[l(&li), l(&big2), ax.to_string()]);
        }
    }
    // C. axis outside the rank with arguments that fit every axis inside it
    for bad in [r, r + 1, r + 256, usize::MAX] { for li in [vec![0usize], vec![0, 0], vec![0, 0, 0]] {
        g.e("m", tr, m, s, &[l(&li), l(s), bad.to_string()]); g.e("m", tr, m, s, &[l(&li), st("1"), bad.to_string()]);
    } }
}

/// the receivers of the insert(axis) streams
fn insert_axis_shapes(thorough: bool) -> Vec<Vec<usize>> {
    let mut v: Vec<Vec<usize>> = vec![vec![1], vec![2], vec![3], vec![4], vec![5], vec![7]];
    v.extend(shapes(2, 2, 1, 3));
    v.extend(vec![vec![2, 4], vec![4, 2], vec![3, 6], vec![6, 3], vec![2, 6], vec![3, 4], vec![4, 3], vec![2, 5]]);
    if thorough { v.extend(shapes(3, 3, 1, 3)); v.extend(vec![vec![3, 2, 4], vec![2, 4, 3], vec![4, 3, 2], vec![3, 4, 1], vec![2, 6, 2], vec![3, 3, 6], vec![2, 2, 2, 2], vec![3, 1, 2, 2], vec![5, 5], vec![6, 6]]); }
    else { v.extend(vec![vec![2, 3, 2], vec![3, 2, 4], vec![1, 3, 2], vec![2, 1, 3], vec![3, 3, 3], vec![2, 2, 2], vec![3, 4, 1], vec![1, 1, 1], vec![2, 4, 3]]); }
    v
}

/// ROUND 5 (class 20): receivers above 2^24 elements (a count or bound computed through `as f32` is exact only up to 2^24), u8 elements,
/// plain receiver; the invalid arguments are the ones the statement names (axis outside the rank, index / coordinate at or above
/// the bound, a shape of another element count, zero parts), all refused before the elements are touched.  Class `u`: the driver
/// answers the constant `err` (the list-backed model would need a 16-million-element list per line).
fn gen_giant(g: &mut Gen, thorough: bool) {
    let mut shs: Vec<Vec<usize>> = vec![vec![16_777_217], vec![2, 8_388_609]];
    if thorough { shs.extend(vec![vec![4097, 4097], vec![16_777_219], vec![3, 5_592_407]]); }
    for s in &shs {
        let r = s.len();
        let n: usize = s.iter().product();
        let mut e = |tr: &str, m: &str, toks: &[String]| { let mut line = format!("u-u8p.{tr}.{m} {}", l(s)); for t in toks { line.push(' '); line.push_str(t); } (g.out)(line); };
        for i in [n, n + 1] {
            e("ArrayIndexing", "index_to_coord", &[i.to_string()]);
            e("ArrayManipulate", "delete", &[i.to_string(), st("none")]);
            e("ArrayManipulate", "insert", &[(i + 1).to_string(), st("1"), st("none")]);
            e("ArrayIndexing", "slice", &[st("0"), (i + 1).to_string()]);
        }
        for p in 0..r { for v in [s[p], s[p] + 1] { let mut c = vec![0usize; r]; c[p] = v; e("ArrayIndexing", "index_at", &[l(&c)]); e("ArrayIndexing", "at", &[l(&c)]); } }
        // (indices_at on rank >= 2 cuts the receiver into its sub-arrays before it looks at the index: 2 s on [2,8388609], 38 s on [4097,4097])
        if r == 1 { e("ArrayIndexing", "indices_at", &[n.to_string()]); }
        for sh in [vec![n + 1], vec![n - 1], vec![2, n / 2 + 1]] { e("ArrayManipulate", "reshape", &[l(&sh)]); }
        e("ArrayBroadcast", "broadcast_to", &[l(&{ let mut t = s.clone(); t[r - 1] += 1; t })]);
        for ax in [r, r + 1] {
            e("ArraySplit", "split_axis", &[ax.to_string()]);
            e("ArraySplit", "array_split", &[st("1"), ax.to_string()]);
            e("ArrayTiling", "repeat", &[st("1"), ax.to_string()]);
            e("ArrayAxis", "apply_along_axis", &[ax.to_string()]);
            e("ArrayAxis", "swapaxes", &[ax.to_string(), st("0")]);
            e("ArrayAxis", "squeeze", &[ax.to_string()]);
            e("ArrayReorder", "flip", &[ax.to_string()]);
            e("ArrayReorder", "roll", &[st("1"), ax.to_string()]);
            e("ArrayManipulate", "insert", &[st("0"), st("1"), ax.to_string()]);
            e("ArrayManipulate", "delete", &[st("0"), ax.to_string()]);
            e("ArrayManipulate", "append", &[st("1"), ax.to_string()]);
            e("ArrayCount", "count_nonzero", &[ax.to_string()]);
            e("ArraySearch", "argmax", &[ax.to_string()]);
        }
        for ax in 0..r { e("ArrayManipulate", "insert", &[(s[ax] + 1).to_string(), st("1"), ax.to_string()]); }
        e("ArraySplit", "array_split", &[st("0"), st("none")]);
        e("ArraySplit", "split", &[st("0"), st("0")]);
        e("ArrayManipulate", "atleast", &[st("4")]);
    }
}

/// ROUND 5 (class 21): constructor arguments whose SPAN is at or above 2^32 / 2^53 with a count that stays small: must answer Ok or Err
fn gen_constructor_bands(g: &mut Gen, thorough: bool) {
    let s0: &[usize] = &[1];
    let mut ks: Vec<u32> = vec![31, 32, 33, 52, 53, 62];
    if thorough { ks.extend(vec![16, 24, 40, 47, 54, 61]); }
    let mut bases: Vec<i64> = vec![];
    for &k in &ks { let p = 1i64 << k; bases.extend(vec![p, p - 1, p + 1]); }
    for e in [9u32, 10, 15, 18] { bases.push(10i64.pow(e)); }
    for &b in &bases {
        for start in [0i64, 1, -1, -b] {
            let span = b as i128 - start as i128;
            for cnt in [1i128, 2, 10, 11] {
                let step = span / cnt;
                if step == 0 || step > i64::MAX as i128 { continue; }
                g.e("t", "ArrayCreateNumeric", "arange", s0, &[start.to_string(), b.to_string(), step.to_string()]);
                g.e("t", "ArrayCreateNumeric", "arange", s0, &[b.to_string(), start.to_string(), (-step).to_string()]);
            }
            for num in ["none", "0", "1", "2", "11"] { for ep in ["none", "false"] {
                g.e("t", "ArrayCreateNumeric", "linspace", s0, &[start.to_string(), b.to_string(), st(num), st(ep)]);
                if start > 0 { g.e("t", "ArrayCreateNumeric", "geomspace", s0, &[start.to_string(), b.to_string(), st(num), st(ep)]); }
            } }
        }
        g.e("t", "ArrayCreateNumeric", "arange", s0, &[st("0"), b.to_string(), b.to_string()]);
        g.e("t", "ArrayCreateNumeric", "arange", s0, &[b.to_string(), (b as i128 + 5).min(i64::MAX as i128).to_string(), st("none")]);
    }
}

fn gen_round5(g: &mut Gen, thorough: bool) {
    g.with("", Only::All);
    gen_constructor_bands(g, thorough);
    // look-alike option names through the operations that take them (class x: the table parser decides - the Kelvin names are accepted)
    for suf in ["", "-p"] {
        g.with(suf, if suf.is_empty() { Only::All } else { Only::ResImpl });
        for s in [vec![3usize], vec![2, 3]] { for sp in lookalike_names() {
            let h = hex(&sp);
            let none = st("none");
            for fl in ["str", "string"] {
                g.e("x", "ArraySort", "sort", &s, &[none.clone(), h.clone(), st(fl)]);
                g.e("x", "ArraySort", "argsort", &s, &[st("0"), h.clone(), st(fl)]);
                g.e("x", "ArrayStringCompare", "compare", &s, &[l(&s), h.clone(), st(fl)]);
                g.e("x", "ArrayBinaryBits", "pack_bits", &s, &[none.clone(), h.clone(), st(fl)]);
                g.e("x", "ArrayBinaryBits", "unpack_bits", &s, &[st("-1"), none.clone(), h.clone(), st(fl)]);
                g.e("x", "ArrayLinalgNorms", "norm", &s, &[h.clone(), none.clone(), none.clone(), st(fl)]);
                g.e("x", "ArrayMathMisc", "convolve", &s, &[st("2"), h.clone(), st(fl)]);
            }
        } }
    }
    g.with("", Only::All);
    gen_giant(g, thorough);
    for s in insert_axis_shapes(thorough) { gen_insert_axis(g, &s, if thorough { 2 } else { 1 }); }
    // zero-size receivers (the model decides; the refusals of class m come before anything looks at the elements) and big ones
    for s in zero_shapes().into_iter().chain(vec![vec![0, 3], vec![3, 0], vec![3, 0, 2]]) { gen_insert_axis(g, &s, 1); }
    // (the list-backed model of the values stretching is quadratic in the lane length: [2,600] 36 ms per line, [70,70] 100 ms, [3,3000] 3 s)
    let mut big: Vec<Vec<usize>> = vec![vec![600], vec![17, 16], vec![2, 70, 2], vec![2, 130], vec![130, 2], vec![3, 65]];
    if thorough { big.extend(vec![vec![4100], vec![2, 300], vec![600, 2], vec![5, 5, 5, 5], vec![30, 30]]); }
    for s in &big { gen_insert_axis(g, s, 0); }
    // the plain receiver and the other element types
    for (suf, only) in [("-p", Only::ResImpl), ("-u8r", Only::Generic), ("-f64p", Only::Generic), ("-strr", Only::Generic), ("-u8p", Only::Generic), ("-f64r", Only::Generic), ("-strp", Only::Generic)] {
        if !thorough && (suf == "-u8p" || suf == "-f64r" || suf == "-strp") { continue; }
        g.with(suf, only);
        for s in [vec![3usize], vec![2, 3], vec![3, 3], vec![3, 4], vec![2, 3, 2], vec![3, 2, 4], vec![0, 2]] { gen_insert_axis(g, &s, if thorough { 1 } else { 0 }); }
    }
    g.with("", Only::All);
}

/// traits, `Trait.method` or `class.Trait.method` keys left out on the huge receivers of stream 8c: the real call or the list-backed
/// model is not an early refusal there (measured: more than ~50 ms per line at 20 000 elements)
const HUGE_SKIP: &[&str] = &["ArrayStringCompare", "ArrayStringIndexing", "ArrayStringManipulate", "ArrayStringValidate", "ArrayJoining.vstack", "ArrayJoining.row_stack", "o.ArrayReorder.flip"];

fn gen(tier: &str, _seed: u64, out: &mut dyn FnMut(String)) {
    let ents = entries();
    let thorough = tier == "thorough";
    let res_keys: BTreeSet<String> = ents.iter().filter(|e| e.res_impl).map(|e| format!("{}.{}", e.tr, e.m)).collect();
    let gen_keys: BTreeSet<String> = ents.iter().filter(|e| e.generic).map(|e| format!("{}.{}", e.tr, e.m)).collect();
    let mut g = Gen { out, seen: BTreeMap::new(), suffix: String::new(), only: Only::All, res_keys, gen_keys, capture: None, skip: BTreeSet::new() };
    // 1. propagation: every Result-receiver method x every error value
    let nerr = error_values().len();
    for e in &ents { if e.res_impl { for i in 0..nerr { g.e("p", e.tr, e.m, &[2, 3], &[format!("e{i}")]); } } }
    // 2. smoke: every registered method with default arguments on ordinary, unit and empty receivers
    let smoke: Vec<Vec<usize>> = vec![vec![3], vec![2, 2], vec![2, 3], vec![2, 3, 2], vec![2, 2, 3, 2], vec![1], vec![1, 1], vec![1, 1, 1, 1], vec![0], vec![2, 0], vec![0, 2], vec![3, 3], vec![2, 2, 2]];
    for e in &ents { for s in &smoke { g.e("n", e.tr, e.m, s, &[]); } }
    // 3. invalid arguments per shape
    let mut sh: Vec<Vec<usize>> = if thorough { shapes(1, 4, 1, 3) } else { vec![vec![3], vec![2, 3], vec![2, 3, 2], vec![2, 2, 3, 2], vec![1], vec![1, 3], vec![3, 1], vec![2, 1, 3], vec![1, 2, 1, 2], vec![2], vec![2, 2], vec![1, 1], vec![3, 3], vec![1, 1, 1], vec![1, 1, 1, 1], vec![3, 2, 2]] };
    if thorough { sh.extend(vec![vec![4, 5], vec![5], vec![2, 3, 4], vec![2, 3, 4, 2]]); }
    for s in &sh { gen_shape(&mut g, s); }
    // 4. totality under extreme (not invalid) argument values, including empty receivers
    let mut tsh: Vec<Vec<usize>> = vec![vec![3], vec![2, 3], vec![2, 3, 2], vec![1], vec![0], vec![2, 0], vec![0, 2], vec![2, 2, 3, 2]];
    if thorough { tsh.extend(shapes(1, 3, 0, 2)); }
    for s in &tsh { gen_total(&mut g, s); }
    gen_static_total(&mut g);
    // 4b. rank-0 receivers (`Array::new(vec![x], vec![])`, shape `-`): `array_split` / `split` validate the DEFAULTED axis (/repo 3685e2a),
    //     so `None` (= axis 0, which a rank-0 array does not have) is an invalid argument: Err(AxisOutOfBounds), formerly a panic at `shape[0]`
    for (suf, only) in [("", Only::All), ("-p", Only::ResImpl), ("-u8r", Only::Generic)] {
        g.with(suf, only);
        for p in ["1", "2", "0"] { for ax in ["none", "0"] { for m in ["array_split", "split"] { g.e("m", "ArraySplit", m, &[], &[st(p), st(ax)]); } } }
        g.e("m", "ArraySplit", "split_axis", &[], &[st("0")]);
        for m in ["hsplit", "vsplit", "dsplit"] { g.e("m", "ArraySplit", m, &[], &[st("1")]); }
    }
    g.with("", Only::All);

    // 7. ROBUSTNESS STREAMS (FRAMEWORK.md).  Class suffixes: `-z` zero-size receiver (an argument the model accepts there is not
    //    invalid: open), `-p` plain `Array<T>` receiver, `-u8r` … element type + receiver.
    // 7a. sizes: every invalid-argument class on big receivers (element counts > 512 / 1024 / 4096, axis lengths 16..70, rank 4)
    let mut big: Vec<Vec<usize>> = vec![vec![600], vec![1030], vec![4100], vec![2, 600], vec![600, 2], vec![65, 3], vec![3, 65], vec![2, 70, 2], vec![17, 16], vec![70, 70], vec![5, 5, 5, 5]];
    if thorough { big.extend(vec![vec![513], vec![1025], vec![4097], vec![9000], vec![3, 3000], vec![3, 700], vec![40, 30], vec![4, 4, 4, 4], vec![2, 3, 4, 5], vec![9, 9], vec![7, 1, 9], vec![1, 16, 1, 17]]); }
    for s in &big { gen_shape(&mut g, s); }
    for s in [vec![600usize], vec![2, 600], vec![17, 16]] { gen_total(&mut g, &s); for e in &ents { g.e("n", e.tr, e.m, &s, &[]); } }
    // 7b. zero-length axes
    g.with("-z", Only::All);
    for s in zero_shapes() { gen_shape(&mut g, &s); gen_options(&mut g, &s); }
    // 7c. both receivers and the element types: the same invalid arguments through the plain receiver (every Result-receiver
    //     method) and, for the 46 methods that are generic in the element type, on u8 / f64 / String arrays through both receivers
    let var_shapes: Vec<Vec<usize>> = if thorough { vec![vec![3], vec![2, 3], vec![2, 3, 2], vec![1, 3], vec![2, 2, 3, 2], vec![600], vec![2, 600], vec![1030], vec![17, 16], vec![3, 3], vec![1]] } else { vec![vec![3], vec![2, 3], vec![2, 3, 2], vec![1, 3], vec![600], vec![2, 600]] };
    let variants = [("-p", Only::ResImpl), ("-u8r", Only::Generic), ("-u8p", Only::Generic), ("-f64r", Only::Generic), ("-f64p", Only::Generic), ("-strr", Only::Generic), ("-strp", Only::Generic)];
    for (suf, only) in variants {
        g.with(suf, only);
        for s in &var_shapes { gen_shape(&mut g, s); }
        for s in [vec![3usize], vec![2, 3], vec![2, 0], vec![600]] { gen_total(&mut g, &s); }
        for e in &ents { for s in &smoke { g.e("n", e.tr, e.m, s, &[]); } }
        g.with(&format!("-z{suf}"), only);
        for s in [vec![0usize], vec![2, 0], vec![0, 2], vec![0, 0]] { gen_shape(&mut g, &s); }
        // propagation through the Result impl instantiated at the other element types
        if suf.ends_with('r') { g.with(suf, only); for e in &ents { if e.generic { for i in 0..nerr { g.e("p", e.tr, e.m, &[2, 3], &[format!("e{i}")]); } } } }
    }
    // 7d. option names as enum / &str / String on small, big and (above) zero-size receivers, both receivers
    for suf in ["", "-p"] {
        g.with(suf, if suf.is_empty() { Only::All } else { Only::ResImpl });
        for s in [vec![3usize], vec![2, 3], vec![2, 3, 2], vec![600], vec![2, 600]] { gen_options(&mut g, &s); }
    }
    g.with("", Only::All);
    // 7e. the earlier error must win: every invalid-argument line of a Result-receiver method (shape [2,3]: axis outside the rank,
    //     index out of bounds, non-fitting operand, zero parts, unknown option name …) invoked on Err(e) must return that Err(e)
    g.capture = Some(vec![]);
    gen_shape(&mut g, &[2, 3]); gen_options(&mut g, &[2, 3]);
    let captured = g.capture.take().unwrap_or_default();
    for (i, (_, tr, m, toks)) in captured.iter().enumerate() {
        let key = format!("{tr}.{m}");
        let errs = if thorough { vec![i % nerr, (i * 7 + 3) % nerr, (i * 5 + 11) % nerr, (i + 15) % nerr] } else { vec![i % nerr, (i * 7 + 3) % nerr] };
        for (j, ei) in errs.iter().enumerate() {
            let suf = if g.gen_keys.contains(&key) { ["", "-u8r", "-strr", "-f64r"][(i + j) % 4] } else { "" };
            let mut line = format!("ea{suf}.{tr}.{m} 2,3 e{ei}");
            for t in toks { line.push(' '); line.push_str(t); }
            (g.out)(line);
        }
    }

    // 8. ROBUSTNESS STREAMS, PART 2
    gen_part2(&mut g, thorough, &captured);
    gen_part2_tail(&mut g, thorough, &captured);

    // 9. ROUND 5: the three-argument relations of insert along an axis (model: Arr.insertAxis)
    gen_round5(&mut g, thorough);

    // 5. option spellings through the five public parsers (&str and String impls)
    let seen = std::mem::take(&mut g.seen);
    let out = g.out;
    for (p, tr, m) in [("sortKind", "SortKindType", "parse_type"), ("compareOp", "CompareOpType", "parse_type"), ("bitOrder", "BitOrderType", "to_bit_order"), ("normOrd", "NormOrdType", "to_ord"), ("convolveMode", "ConvolveModeType", "to_mode")] {
        for sp in SPELLINGS.iter().chain(BAD_NAMES.iter()) { for fl in ["str", "string"] { out(format!("opt.{p}.{tr}.{m} {} {fl}", hex(sp))); } }
        for sp in lookalike_names() { for fl in ["str", "string"] { out(format!("opt.{p}.{tr}.{m} {} {fl}", hex(&sp))); } }
    }
    // 6. coverage accounting against the regenerated inventory
    let res: Vec<String> = ents.iter().filter(|e| e.res_impl || (e.tr, e.m) == ("ArrayBroadcast", "broadcast_arrays") || (e.tr, e.m) == ("ArrayBinary", "binary_repr")).map(|e| format!("{}.{}", e.tr, e.m)).collect();
    out(format!("inv.result_impls {}", res.join(",")));
    let all: Vec<String> = ents.iter().filter(|e| (e.tr, e.m) != ("ArrayBinary", "binary_repr")).map(|e| format!("{}.{}", e.tr, e.m)).collect();
    out(format!("inv.fallible {}", all.join(",")));
    // which registered methods got invalid-argument cases, and through which class (m/b = model run, u = class only)
    let with_cls = |c: &[&str]| -> Vec<String> { seen.iter().filter(|(_, v)| c.iter().any(|x| v.contains(*x))).map(|(k, _)| k.clone()).collect() };
    out(format!("inv.invalid_args modelled={} class_only={}", with_cls(&["m", "b"]).join(","), with_cls(&["u"]).iter().filter(|k| !with_cls(&["m", "b"]).contains(k)).cloned().collect::<Vec<_>>().join(",")));
}

// ---------------------------------------------------------------- executor

thread_local! { static ENTS: std::collections::HashMap<String, Entry> = entries().into_iter().map(|e| (format!("{}.{}", e.tr, e.m), e)).collect(); }

fn run_entry(key: &str, alt: &str, rc: &Rc, toks: &[&str]) -> Option<String> {
    ENTS.with(|m| {
        let e = m.get(key)?;
        let f: &F = if alt.is_empty() { &e.f } else { &e.alt.iter().find(|(n, _)| *n == alt)?.1 };
        let sh = rshape(rc);
        let a = A { t: toks, rank: sh.len(), len: sh.iter().product() };
        Some(guarded(|| f(rc, &a)))
    })
}

fn parse_opt(p: &str, text: String, string_impl: bool) -> Option<String> {
    let t = text.as_str();
    Some(guarded(|| match p {
        "sortKind" => match if string_impl { SortKindType::parse_type(text.clone()) } else { SortKindType::parse_type(t) } {
            Ok(k) => format!("ok {}", match k { SortKind::Quicksort => 0, SortKind::Mergesort => 1, SortKind::Heapsort => 2, SortKind::Stable => 3 }), Err(e) => format!("err {}", err_name(&e)) },
        "compareOp" => match if string_impl { CompareOpType::parse_type(text.clone()) } else { CompareOpType::parse_type(t) } {
            Ok(k) => format!("ok {}", match k { CompareOp::Equals => 0, CompareOp::NotEquals => 1, CompareOp::Greater => 2, CompareOp::Less => 3, CompareOp::GreaterEqual => 4, CompareOp::LessEqual => 5 }), Err(e) => format!("err {}", err_name(&e)) },
        "bitOrder" => match if string_impl { text.clone().to_bit_order() } else { t.to_bit_order() } {
            Ok(k) => format!("ok {}", match k { BitOrder::Big => 0, BitOrder::Little => 1 }), Err(e) => format!("err {}", err_name(&e)) },
        "normOrd" => match if string_impl { text.clone().to_ord() } else { t.to_ord() } {
            Ok(k) => match k { NormOrd::Int(v) => format!("ok 0 {v}"), NormOrd::Inf => "ok 1".into(), NormOrd::NegInf => "ok 2".into(), NormOrd::Fro => "ok 3".into(), NormOrd::Nuc => "ok 4".into() }, Err(e) => format!("err {}", err_name(&e)) },
        "convolveMode" => match if string_impl { text.clone().to_mode() } else { t.to_mode() } {
            Ok(k) => format!("ok {}", match k { ConvolveMode::Full => 0, ConvolveMode::Valid => 1, ConvolveMode::Same => 2 }), Err(e) => format!("err {}", err_name(&e)) },
        _ => "bad-parser".into(),
    }))
}

thread_local! {
    /// A-B-A: the previous case line (op, arguments) and the outcome text of its call
    static PREV: std::cell::RefCell<Option<(String, Vec<String>, String)>> = std::cell::RefCell::new(None);
}
/// the outcome text of a case line's call (classes with a receiver shape / an error receiver); `None` for the other classes
fn observe(op: &str, args: &[&str]) -> Option<String> {
    let (cls_full, rest) = op.split_once('.')?;
    let mut parts = cls_full.split('-');
    let cls = parts.next()?;
    let mut alt = "";
    for f in parts { if f != "z" { alt = f; } }
    match cls {
        "p" | "ea" => { let i: usize = args.get(1)?.strip_prefix('e')?.parse().ok()?; let errs = error_values(); let e = errs.get(i)?; run_entry(rest, alt, &Rc::Err(e), if cls == "ea" { &args[2..] } else { &[] }) }
        "m" | "b" | "u" | "o" | "n" | "t" | "x" => run_entry(rest, alt, &Rc::Shape(parse_usize_list(args.first()?)), &args[1..]),
        _ => None,
    }
}
/// A-B-A discipline: after case B the previous case A is invoked again and must give the outcome it gave before B
fn exec(op: &str, args: &[&str], expected: &str) -> Option<Verdict> {
    let v = exec_case(op, args, expected)?;
    let prev = PREV.with(|p| p.borrow_mut().take());
    let mut verdict = v;
    if let (Verdict::Match(_) | Verdict::Open(_), Some((pop, pargs, ptext))) = (&verdict, &prev) {
        let pa: Vec<&str> = pargs.iter().map(String::as_str).collect();
        if let Some(again) = observe(pop, &pa) {
            if &again != ptext { verdict = Verdict::Mismatch { observed: again, detail: format!("A-B-A: after this case the PREVIOUS case `{pop} {}` gives another outcome; before: `{ptext}`", pargs.join(" ")) }; }
        }
    }
    // remember this case (cheap receivers only: the re-run costs one call)
    let small = args.first().map_or(false, |a| a.split(',').filter_map(|x| x.parse::<usize>().ok()).product::<usize>() <= 5000);
    if small { if let (Verdict::Match(t) | Verdict::Open(t), true) = (&verdict, observe_class(op)) { PREV.with(|p| *p.borrow_mut() = Some((op.to_string(), args.iter().map(|x| x.to_string()).collect(), t.trim_start_matches("closure-called (").trim_end_matches(')').to_string()))); } }
    Some(verdict)
}
fn observe_class(op: &str) -> bool { matches!(op.split_once('.').map(|x| x.0.split('-').next().unwrap_or("")), Some("m" | "b" | "u" | "o" | "n" | "t" | "x" | "p" | "ea")) }

fn exec_case(op: &str, args: &[&str], expected: &str) -> Option<Verdict> {
    let (cls_full, rest) = op.split_once('.')?;
    // class suffixes of the robustness streams: `-z` zero-size receiver, anything else names the receiver / element-type variant
    let mut parts = cls_full.split('-');
    let cls = parts.next()?;
    let (mut zero, mut alt) = (false, "");
    for f in parts { if f == "z" { zero = true; } else { alt = f; } }
    match cls {
        "inv" => {
            let ents = entries();
            match rest {
                "result_impls" | "fallible" => {
                    let k = args.first()?.split(',').count();
                    let mine = if rest == "fallible" { ents.len() - 1 } else { ents.iter().filter(|e| e.res_impl).count() + 2 };
                    if k != mine { return None; }
                    Some(compare_default(format!("ok covered={k}/{k} missing=- extra=-"), expected))
                }
                "invalid_args" => if expected.starts_with("ok ") { Some(Verdict::Match(expected.to_string())) } else { Some(Verdict::Mismatch { observed: "n/a".into(), detail: format!("coverage accounting failed: {expected}") }) },
                _ => None,
            }
        }
        "opt" => {
            let (p, _) = rest.split_once('.')?;
            let observed = parse_opt(p, unhex(args.first()?), *args.get(1)? == "string")?;
            Some(compare_default(observed, expected))
        }
        "p" | "ea" => {
            let i: usize = args.get(1)?.strip_prefix('e')?.parse().ok()?;
            let errs = error_values();
            let e = errs.get(i)?;
            CALLS.with(|c| c.set(0));
            let toks: &[&str] = if cls == "ea" { &args[2..] } else { &[] };
            let mut observed = run_entry(rest, alt, &Rc::Err(e), toks)?;
            if CALLS.with(|c| c.get()) > 0 { observed = format!("closure-called ({observed})"); }
            if observed == expected { Some(Verdict::Match(observed)) }
            else { Some(Verdict::Mismatch { detail: format!("invoked on Err({e:?}){}; the earlier error must come back unchanged — the model (liftR) says `{expected}`", if cls == "ea" { " with invalid arguments" } else { "" }), observed }) }
        }
        "m" | "b" | "u" | "o" | "n" | "t" | "x" => {
            let sh = parse_usize_list(args.first()?);
            let observed = run_entry(rest, alt, &Rc::Shape(sh.clone()), &args[1..])?;
            let oc = class_of(&observed);
            match cls {
                "x" => {
                    // the model decides: the real call must fall into the model's outcome class (twice)
                    let again = run_entry(rest, alt, &Rc::Shape(sh), &args[1..])?;
                    if again != observed { return Some(Verdict::Mismatch { detail: format!("the same call a second time gives `{again}`"), observed }); }
                    let ec = class_of(expected);
                    if ec != "ok" && ec != "err" { return Some(Verdict::Mismatch { detail: format!("the MODEL answers `{expected}` (a fallible operation must return Ok or Err)"), observed }); }
                    if oc == ec { Some(Verdict::Match(observed)) }
                    else if ec == "err" { Some(Verdict::Mismatch { detail: format!("the model refuses these arguments (`{expected}`): the outcome must be an error value"), observed }) }
                    else { Some(Verdict::Mismatch { detail: "the model accepts these arguments (ok): the real call must succeed (and never panic)".into(), observed }) }
                }
                "m" | "b" | "u" => {
                    // the same call a second time must give the same outcome
                    let again = run_entry(rest, alt, &Rc::Shape(sh), &args[1..])?;
                    if again != observed { return Some(Verdict::Mismatch { detail: format!("the same call a second time gives `{again}`"), observed }); }
                    if zero && cls != "u" && class_of(expected) != "err" {
                        // zero-size receiver and the model does not refuse the argument (or has no answer): not an invalid argument here
                        return if oc == "panic" || oc == "hang" { Some(Verdict::Mismatch { detail: format!("zero-size receiver (model: `{expected}`): a fallible operation must not panic"), observed }) } else { Some(Verdict::Open(observed)) };
                    }
                    if class_of(expected) != "err" { return Some(Verdict::Mismatch { detail: format!("the MODEL does not refuse this argument: `{expected}`"), observed }); }
                    if oc == "err" { Some(Verdict::Match(observed)) }
                    else { Some(Verdict::Mismatch { detail: "invalid argument: the outcome must be an error value (model: err)".into(), observed }) }
                }
                "o" => if expected != "open" { None } else if oc == "panic" || oc == "hang" { Some(Verdict::Mismatch { detail: "open region, but a fallible operation must not panic".into(), observed }) } else { Some(Verdict::Open(observed)) },
                _ => if expected != "total" { None } else if oc == "ok" || oc == "err" { Some(Verdict::Match(observed)) } else { Some(Verdict::Mismatch { detail: "a fallible operation must return Ok or Err, not panic".into(), observed }) },
            }
        }
        _ => None,
    }
}

/// non-trivial: an invalid argument, an unknown/known option spelling, or an error receiver (not the smoke / extreme-value / open / accounting lines)
fn nontrivial(op: &str, _args: &[&str]) -> bool { matches!(op.split_once('.').map(|x| x.0.split('-').next().unwrap_or("")), Some("m" | "b" | "u" | "x" | "p" | "ea" | "opt")) }

fn main() {
    harness_main(Spec { prop: "C09", gen, exec, nontrivial, hang_secs: 20,
        rule: "ROUND 5: insert(indices, values, Some(axis)) answered by the Lean model Arr.insertAxis - class m for axis outside the rank / index above the bound / values rank outside 1..=rank, class x (the model decides ok or err) for the three-argument relations: 1-3 indices (sorted, unsorted, repeated, at the bound, empty) x 0..=7 rows of the values x other axes match / 1 / divisor / non-divisor / too long / zero, every axis, ranks 1-3 (thorough 4), zero-size and big receivers up to 1 200 elements, both receivers, u8 / f64 / String; Unicode look-alike option names (long s, sharp s, dotless i, ligatures, Kelvin sign) through the 5 parsers and 7 operations; receivers above 2^24 elements (u8, class u); constructor spans 2^31..2^62 (class t). PART 2: invalid axes REPEATED 2/3/4 times inside an axis list, alone and mixed with valid axes in every position (3-5 unsorted entries), through every axis-list argument (flip, squeeze, transpose, moveaxis source/destination/both, roll, rot90, expand_dims relative to the result rank, norm) on 9 (18) receivers incl. [600],[17,16],[2,70,2], the plain receiver, u8/f64/String arrays and zero-size receivers; every invalid-argument class on receivers of rank 5..8 and on HUGE receivers ([20000],[70000],[2,10000],[10000,2],[130,130],[40,30,30],[16385],[2,70000],[10,11,12,13]; thorough +6 up to 140001 elements; also plain / u8 / f64 receivers and the option-name and repeated-axis streams) - left out there: the String traits, vstack/row_stack and delete along an axis (not an early refusal: seconds per call or per model run); hidden state: colliding receiver shapes (equal-count polynomial-hash siblings [2,m]/[1,2m], collision_shape_pairs, permuted axes, lengths equal modulo 2^8) interleaved in both orders through a smoke call of every shape-sensitive method and refused axes / indices / shapes, so that every failing call is directly followed by a valid call on the sibling; A-B-A: after EVERY case the previous case is invoked again and must give the same outcome; closures: apply_along_axis with a closure that returns an error value, that calls apply_along_axis itself (re-entrancy) and whose nested call refuses an axis, 5 receivers / element types; every invalid-argument line of shape [2,3] of the 46 generic methods through i64/u8/f64/String and both receivers back to back; narrowing images c+2^8, c+2^16, c+2^32 of valid axes / indices / coordinates. ROBUSTNESS STREAMS: the invalid-argument classes below also on big receivers ([600],[1030],[4100],[2,600],[600,2],[65,3],[3,65],[2,70,2],[17,16],[70,70],[5,5,5,5]; thorough +10), on every zero_shapes() receiver (class suffix -z), through the plain receiver (-p, all 203 Result-receiver methods) and on u8/f64/String arrays through both receivers (46 generic methods) for 6 (11) shapes incl. [600],[2,600] and 4 zero-size shapes; option names as enum/&str/String: 20 blank / whitespace / padded / non-ASCII names x 9 option-taking calls, valid names in all three spellings combined with an invalid axis / operand; ea = every invalid-argument line of shape [2,3] invoked on Err(e) for 2 (4) of the 23 error values; propagation also through the Result impls at u8/f64/String; each m/b/u call made twice. BASE: every method of the regenerated inventory is registered once (inv.* lines compare the registry with Tables.lean); classes: p = 205 Result-receiver methods x 23 error values (15 variants, payload and empty payload); m/b/u = arguments the statement calls invalid (axis = rank, rank+1, isize::MAX, -rank-1, isize::MIN, +-1000 at every position; wrong-length axis/coordinate lists; index = bound, bound+1, usize::MAX; non-fitting shapes; zero parts; unknown option names) on 16 shapes of rank 1..4 (quick) / all shapes rank<=4 len<=3 + 4 larger (thorough); opt = 80 spellings x 5 parsers x {&str,String}; n/t = smoke and extreme values (only panic fails); o = open regions. distinct = distinct case lines; non-trivial = classes m,b,u,x,p,ea,opt (any suffix)" });
}
