//! C08 — axis-wise reductions and scans equal the 1-D operation on every lane.  Index protocol:
//! the model answers, for every output position, with the input positions of the lane; this harness extracts that lane
//! from the real input and judges the real result at that position by TWO oracles:
//!  (a) lane oracle: the SAME real operation with `axis = None` on the lane, compared bit-exactly (all element types, all
//!      operations; the only oracle for float sums/products, where the evaluation order matters);
//!  (b) native oracle: a plain Rust fold over the lane values that calls nothing of the crate (exact i128 arithmetic for
//!      integer sum/prod/cumsum/cumprod and their NaN forms; max/min/nanmax/nanmin by `partial_cmp`, NaN wins / NaN ignored;
//!      count of non-zeros; FIRST position of the extreme, the first NaN winning) — the lane oracle cannot see a defect that
//!      lives in the 1-D body itself, and the statement covers that body too ("with no axis the operation acts on the
//!      flattened array", "position of the extreme").
//! Every case (up to 16 000 elements; beyond that the repetition is dropped) is executed three times: the plain call, the plain call again (same answer required) and the chained call on
//! `Ok(array)` through `impl … for Result<Array<T>, ArrayError>` (same answer required).
//! Part 2 (after the third round of seeded changes):
//!  * native lane-membership reference `native_map` (plain coordinate arithmetic: which input positions form the lane of an
//!    output position, and the result shape).  It is compared with the MODEL's answer on every case the model answers
//!    (non-empty arrays) — the `refstats` line at the end of a run reports how many — and replaces the model on the `ref` cases
//!    (seventh token `ref`: 16 384 … 140 000 elements, more than 8192 lanes, an axis above 65 536, axis lengths 121..300 in an
//!    inner position), for which the quadratic list-backed model would need minutes.  Chain: model -> reference -> crate.
//!  * hidden state: shapes that collide under weak polynomial / packed / order-blind keys back to back in both orders on one
//!    thread, value sets that are permutations / one-ulp neighbours of one another, failing calls directly followed by valid ones,
//!    and the A-B-A discipline in `exec` (after case B the previous case A is run again and must answer as before).
//!  * every lane length 1..300 in trailing and inner position; ranks 7 and 8.
//!
//! VALUE CASES (seventh token `val`, `gen_val`): the array is written out in the case line and the Lean driver answers the VALUES with
//! the kernel definitions of `ArrModel/C08Kernels.lean` (the 1-D arms, about which `Props/C08.lean` proves the fold / running-total /
//! extreme / first-position / NaN statements); the crate's answer is compared with that text (`0.0` / `-0.0` are one value there) and
//! the native value oracle - which alone judges float and giant cases - is compared with the kernel model on every output value of
//! these cases (`kernel_vs_native`, counted in the refstats line).
use arrharness::*;
use std::cell::{Cell, RefCell};
use std::cmp::Ordering;
use std::panic::{catch_unwind, AssertUnwindSafe};

const REDUCE: [&str; 10] = ["sum", "prod", "nansum", "nanprod", "max", "min", "nanmax", "nanmin", "amax", "amin"];
const COUNT: [&str; 3] = ["count_nonzero", "argmax", "argmin"];
const SCAN: [&str; 4] = ["cumsum", "cumprod", "nancumsum", "nancumprod"];
const FOLD: [&str; 4] = ["sum", "prod", "nansum", "nanprod"];
const EXTREME: [&str; 6] = ["max", "min", "nanmax", "nanmin", "amax", "amin"];

/// element types / value classes of the cross-type sweep (`i64` and `f64` are the original two streams)
const DT_OPS: [&str; 8] = ["i64", "f64", "i64b", "i8", "i16", "i32", "f64s", "f32"];              // NumericOps: every operation
const DT_NUM: [&str; 6] = ["u64", "usize", "isize", "u8", "u16", "u32"];                           // Numeric: extrema + count family
const DT_ANY: [&str; 2] = ["bool", "str"];                                                         // ArrayElement: count family
/// hidden-state value classes (only in the part-2 streams): the `i64` / `f64` values of the same seed REVERSED (same multiset,
/// same sum / xor / product), or with ONE element moved by one (i64) / by one ulp (f64)
const DT_HID: [&str; 4] = ["i64r", "i64n", "f64r", "f64n"];
/// part 3, value classes "related in a way random data never is" and the giant-array classes (only in the part-3 streams):
/// `f64z` every element is a zero, `0.0` and `-0.0` mixed (all `==`, not bit-identical); `f64c` / `i64c` a CONSTANT array (the
/// constant rotates with the seed: 0, -0.0, 1, -1, 0.1, NaN, inf, MAX, MIN, 2^53+1 ...); `f64e` groups of values that are `==` or
/// neighbours by one ulp; `i64g` / `f64g` near-distinct scrambled integers (every lane has its own extreme, sum, sign pattern and
/// zero count — a lane read from the wrong offsets is visible in every operation; no long runs of equal values, on which the
/// crate's 1-D argmax / argmin are quadratic)
const DT_P3: [&str; 6] = ["f64z", "f64c", "i64c", "f64e", "i64g", "f64g"];
/// part 3, element LAYOUT (count family, `T: ArrayElement`): 12-byte `Tuple3<i32,i32,i32>`, 3-byte `Tuple3<u8,u8,u8>`, 32-byte
/// non-`Copy` `Tuple2<String,i32>`; `strl`: strings that share a stem of 32 / 33 / 64 / 65 / 1024 bytes before the first difference
const DT_LAY: [&str; 4] = ["t3", "t3b", "tw", "strl"];
fn applicable(op: &str, dt: &str) -> bool {
    if DT_OPS.contains(&dt) || DT_HID.contains(&dt) || DT_P3.contains(&dt) { return true; }
    if DT_NUM.contains(&dt) { return EXTREME.contains(&op) || COUNT.contains(&op); }
    (DT_ANY.contains(&dt) || DT_LAY.contains(&dt)) && COUNT.contains(&op)
}
fn all_dtypes() -> Vec<&'static str> { DT_OPS.iter().chain(DT_NUM.iter()).chain(DT_ANY.iter()).copied().collect() }

// ---------------------------------------------------------------- values

fn vals_i64(n: usize, vseed: u64, prodlike: bool) -> Vec<i64> {
    let mut r = Rng::new(vseed ^ 0xC08);
    (0..n).map(|i| if prodlike { if i < 8 { [-2, -1, 0, 1, 2, 3, 1, -1][r.below(8)] } else { [-1, 1, 1, -1, 0, 1, 1, 1][r.below(8)] } } else { r.range(-4, 4) }).collect()
}
fn vals_f64(n: usize, vseed: u64) -> Vec<f64> {
    let mut r = Rng::new(vseed ^ 0xF08);
    let special = vseed % 3; // 0: finite only, 1: with NaN, 2: with NaN and infinities
    (0..n).map(|_| match r.below(16) {
        0 if special >= 1 => f64::NAN,
        1 if special == 2 => f64::INFINITY,
        2 if special == 2 => f64::NEG_INFINITY,
        3 => -0.0, 4 => 0.0, 5 => 0.5, 6 => -2.25, 7 => 1e300, 8 => -1e300, 9 => 1e-310,
        _ => r.range(-5, 5) as f64,
    }).collect()
}

const P53: i128 = 1 << 53;
/// integer value classes inside `lo..=hi`.  Sums and products (and every prefix / every lane of them) stay inside the type
/// (the harness is built with overflow checks): the absolute values are drawn against a budget.
/// Extreme / count / position queries get: values next to the ends of the type, clusters of DISTINCT values above 2^53
/// (which collapse to one f64), many repeated extremes, and small values.
fn vals_int(n: usize, vseed: u64, op: &str, lo: i128, hi: i128) -> Vec<i128> {
    let mut r = Rng::new(vseed ^ 0x1B08);
    let wide = hi > (1 << 60);
    let clip = |v: i128| v.max(lo).min(hi);
    if op.contains("prod") {
        let big = if wide { P53 + 1 } else { (hi / 5).max(2) };
        let cands = [1, 1, -1, 1, -1, 2, -2, 3, big, 1, 1, -1, 1, 1, 0, 1, 1, 1, -1, 1, 1, 1, 1, 1];
        let mut budget = hi;
        let zero_ok = vseed % 2 == 0;
        return (0..n).map(|_| {
            let mut v = clip(cands[r.below(cands.len())]);
            if v == 0 && !zero_ok { v = 1; }
            let m = v.abs();
            if m >= 2 { if m > budget { v = if v < 0 && lo < 0 { -1 } else { 1 }; } else { budget /= m; } }
            v
        }).collect();
    }
    if op.contains("sum") {
        let cands: Vec<i128> = if wide { vec![P53 + 1, P53 + 2, -(P53 + 1), P53 + 3, 2 * P53 + 1, 3, -7, 1, 0, -(P53 + 2), (1 << 60) + 1, -1, 2, 0] }
            else { vec![hi / 4, -(hi / 4), hi / 8 + 1, 3, -2, 1, 0, -1, 2, -3, hi / 2, 0] };
        let mut budget = hi;
        let sparse = n > 64;
        return (0..n).map(|_| {
            if sparse && r.below(4) != 0 { return 0; }
            let v = clip(cands[r.below(cands.len())]);
            if v.abs() > budget { 0 } else { budget -= v.abs(); v }
        }).collect();
    }
    let top: Vec<i128> = if wide { vec![hi, hi - 1, hi - 2, P53, P53 + 1, P53 + 2, P53 + 3, 2 * P53 + 1, 2 * P53 + 2] } else { vec![hi, hi - 1, hi - 2, hi - 3] };
    let bot: Vec<i128> = if lo < 0 { if wide { vec![lo, lo + 1, lo + 2, -P53, -P53 - 1, -P53 - 2, -P53 - 3] } else { vec![lo, lo + 1, lo + 2] } } else { vec![0, 1, 2] };
    let small: Vec<i128> = (-4..=4).map(clip).collect();
    (0..n).map(|_| match vseed % 5 {
        0 => match r.below(3) { 0 => top[r.below(top.len())], 1 => bot[r.below(bot.len())], _ => small[r.below(small.len())] },
        // a cluster of neighbouring values far above 2^53 (64-bit types) / next to the upper end: the extreme is rarely the first
        1 => if wide { P53 + r.below(4) as i128 } else { hi - r.below(4) as i128 },
        2 => if lo < 0 { if wide { -P53 - r.below(4) as i128 } else { lo + r.below(4) as i128 } } else { r.below(3) as i128 },
        3 => if wide { if r.below(2) == 0 { hi - r.below(3) as i128 } else { 2 * P53 + r.below(3) as i128 } } else { hi - r.below(2) as i128 },
        _ => if r.below(12) == 0 { top[r.below(top.len())] } else { small[r.below(small.len())] },
    }).collect()
}
/// float value classes: subnormals, signed zeros, the ends of the range, NaN placed first / last / at random, infinities
fn vals_flt(n: usize, vseed: u64, single: bool) -> Vec<f64> {
    let mut r = Rng::new(vseed ^ 0xF1F0);
    let cands: Vec<f64> = if single {
        vec![1e-45, -1e-45, f32::MIN_POSITIVE as f64, -0.0, 0.0, 1.0, -1.0, f32::MAX as f64, -(f32::MAX as f64), 0.1f32 as f64, 16777216.0, 3.0, -2.5, 2.0, 0.0, -0.0]
    } else {
        vec![5e-324, -5e-324, 1e-310, f64::MIN_POSITIVE, -0.0, 0.0, 1.0, -1.0, f64::MAX, -f64::MAX, 0.1, 3.0, 9007199254740994.0, -2.5, 2.0, -0.0]
    };
    let mode = vseed % 6;
    let mut v: Vec<f64> = (0..n).map(|_| match (mode, r.below(7)) {
        (3, 0) => f64::NAN,
        (4, 0) => f64::INFINITY, (4, 1) => f64::NEG_INFINITY, (4, 2) => f64::NAN,
        (5, _) => if r.below(3) == 0 { cands[r.below(cands.len())] } else { f64::NAN },
        _ => cands[r.below(cands.len())],
    }).collect();
    if n > 0 { if mode == 1 { v[0] = f64::NAN; } if mode == 2 { v[n - 1] = f64::NAN; } }
    v
}

/// part 3: a 64-bit mixer (position, seed) -> pseudo-random word; the giant arrays are filled from it position by position
fn mix(i: u64, seed: u64) -> u64 {
    let mut z = i.wrapping_add(seed.wrapping_mul(0xD1B54A32D192ED03)).wrapping_mul(0x9E3779B97F4A7C15);
    z = (z ^ (z >> 30)).wrapping_mul(0xBF58476D1CE4E5B9);
    z = (z ^ (z >> 27)).wrapping_mul(0x94D049BB133111EB);
    z ^ (z >> 31)
}
/// `i64g` / `f64g`: integers (as f64: integer-valued, so that sums and products are exact in any order).  Products: +-1 by a hash
/// bit and twelve planted factors 2 / 3 / -2 / -3 (|product| <= 6^6); count_nonzero: -1 / 0 / 1; otherwise `hash % 4n - 2n`
/// (near-distinct: |sum| <= 2 n^2 < 2^44 for n <= 2.2 million)
fn vals_giant(n: usize, vseed: u64, op: &str) -> Vec<i64> {
    if op.contains("prod") {
        let mut v: Vec<i64> = (0..n).map(|i| if mix(i as u64, vseed) & 4 == 0 { 1 } else { -1 }).collect();
        if n > 0 { for t in 0..12u64 { let p = (mix(n as u64 + t, vseed) % n as u64) as usize; v[p] = [2, 3, -2, -3][t as usize % 4]; } }
        return v;
    }
    if op == "count_nonzero" { return (0..n).map(|i| (mix(i as u64, vseed) % 3) as i64 - 1).collect(); }
    let m = 4 * n.max(1) as u64;
    (0..n).map(|i| (mix(i as u64, vseed) % m) as i64 - 2 * n as i64).collect()
}
/// constants of the `i64c` / `f64c` classes
fn const_i64(vseed: u64) -> i64 { [0, 1, -1, 7, i64::MAX, i64::MIN, (1 << 53) + 1, 2][vseed as usize % 8] }
fn const_f64(vseed: u64) -> f64 { [0.0, -0.0, 1.0, -1.0, 0.1, f64::NAN, f64::INFINITY, f64::MAX, f64::NEG_INFINITY, 5e-324, 3.0, -f64::MAX][vseed as usize % 12] }
/// sums / products of a constant array must stay inside i64 (the harness is built with overflow checks)
fn const_i64_for(vseed: u64, n: usize, op: &str) -> i64 {
    let c = const_i64(vseed);
    if (FOLD.contains(&op) || SCAN.contains(&op)) && c.unsigned_abs() > 8 { return if op.contains("prod") && n > 38 { [1, -1][vseed as usize % 2] } else { [2, -2, 3, 1][vseed as usize % 4] }; }
    if op.contains("prod") && n > 20 && c.abs() > 1 { return -1; }
    c
}
/// `f64e`: a few groups of values that are `==` (0.0 / -0.0) or neighbours by one ulp (1.0, 1.0 + ulp, 1.0 - ulp/2; 0.1 + 0.2 and 0.3)
fn vals_f64e(n: usize, vseed: u64) -> Vec<f64> {
    let g: [f64; 10] = [0.0, -0.0, 1.0, f64::from_bits(1.0f64.to_bits() + 1), f64::from_bits(1.0f64.to_bits() - 1), 0.1 + 0.2, 0.3, -1.0, f64::from_bits((-1.0f64).to_bits() + 1), 5e-324];
    let mut r = Rng::new(vseed ^ 0xE0E0);
    let base = (vseed % 4) as usize * 2;
    (0..n).map(|_| if r.below(5) == 0 { g[r.below(10)] } else { g[(base + r.below(3)) % 10] }).collect()
}

/// what the two oracles need to know about an element type
trait Val: ArrayElement + Clone + std::fmt::Display + PartialOrd + 'static {
    const LO: i128 = 0; const HI: i128 = 1; const FLOAT: bool = false; const SINGLE: bool = false;
    /// bit-identical (all NaN alike)
    fn same(&self, o: &Self) -> bool { self == o }
    fn nan(&self) -> bool { false }
    /// exact value of an integer element
    fn int(&self) -> Option<i128> { None }
    /// `Some(is zero)` where "zero" is unambiguous (numbers, bool)
    fn zero_like(&self) -> Option<bool> { None }
    fn of_int(i: i128) -> Self;
    fn of_f64(_x: f64) -> Self { Self::of_int(0) }
    /// the value of a float element
    fn as_f64(&self) -> Option<f64> { None }
    /// `strl`: a string with a long stem (other types: `of_int`)
    fn of_stem(i: i128, _vseed: u64) -> Self { Self::of_int(i) }
}
macro_rules! val_int { ($($t:ty),*) => { $(impl Val for $t {
    const LO: i128 = <$t>::MIN as i128; const HI: i128 = <$t>::MAX as i128;
    fn int(&self) -> Option<i128> { Some(*self as i128) }
    fn zero_like(&self) -> Option<bool> { Some(*self == 0) }
    fn of_int(i: i128) -> Self { i as $t }
})* } }
val_int!(i8, i16, i32, i64, isize, u8, u16, u32, u64, usize);
impl Val for f64 {
    const FLOAT: bool = true;
    fn same(&self, o: &Self) -> bool { (self.is_nan() && o.is_nan()) || self.to_bits() == o.to_bits() }
    fn nan(&self) -> bool { self.is_nan() }
    fn zero_like(&self) -> Option<bool> { Some(*self == 0.0) }
    fn of_int(i: i128) -> Self { i as f64 }
    fn of_f64(x: f64) -> Self { x }
    fn as_f64(&self) -> Option<f64> { Some(*self) }
}
impl Val for f32 {
    const FLOAT: bool = true; const SINGLE: bool = true;
    fn same(&self, o: &Self) -> bool { (self.is_nan() && o.is_nan()) || self.to_bits() == o.to_bits() }
    fn nan(&self) -> bool { self.is_nan() }
    fn zero_like(&self) -> Option<bool> { Some(*self == 0.0) }
    fn of_int(i: i128) -> Self { i as f32 }
    fn of_f64(x: f64) -> Self { x as f32 }
    fn as_f64(&self) -> Option<f64> { Some(*self as f64) }
}
impl Val for bool {
    fn zero_like(&self) -> Option<bool> { Some(!*self) }
    fn of_int(i: i128) -> Self { i.rem_euclid(3) != 0 }
}
impl Val for String {
    fn of_int(i: i128) -> Self { ["", "0", "a", "ab", "b", "zz", "Z", "0", "zz", "10", "1", "a"][i.rem_euclid(12) as usize].to_string() }
    fn of_stem(i: i128, vseed: u64) -> Self { stem_string(i, vseed) }
}

/// odd layouts (part 3): few distinct values (ties, zeros), the components disagree about the order
impl Val for T3 {
    fn zero_like(&self) -> Option<bool> { Some(self.0 == 0 && self.1 == 0 && self.2 == 0) }
    fn of_int(i: i128) -> Self { let k = i.rem_euclid(12) as i32; Tuple3(k % 3 - 1, 1 - (k / 3) % 2, if k >= 6 { 0 } else { k % 2 }) }
}
impl Val for T3b {
    fn zero_like(&self) -> Option<bool> { Some(self.0 == 0 && self.1 == 0 && self.2 == 0) }
    fn of_int(i: i128) -> Self { let k = i.rem_euclid(12) as u8; Tuple3(k % 3 * 127, 255 * ((k / 3) % 2), if k >= 6 { 0 } else { 254 + k % 2 }) }
}
impl Val for TW {
    fn of_int(i: i128) -> Self { let k = i.rem_euclid(12) as i32; Tuple2(["", "0", "a", "ab"][(k % 4) as usize].to_string(), k / 4 - 1) }
}
/// strings with a long common stem: 32 / 33 / 64 / 65 / 1024 bytes before the first difference
fn stem_string(i: i128, vseed: u64) -> String {
    let stem = [32usize, 33, 64, 65, 1024][vseed as usize % 5];
    let tail = ["", "a", "b", "ab", "a", "b", "", "0", "ba", "b", "aa", "a"][i.rem_euclid(12) as usize];
    if i.rem_euclid(12) == 7 && vseed % 2 == 0 { return "0".to_string(); }
    format!("{}{}", "x".repeat(stem), tail)
}

fn gen_vals<T: Val>(dt: &str, n: usize, vseed: u64, op: &str) -> Vec<T> {
    match dt {
        "i64g" => vals_giant(n, vseed, op).into_iter().map(|x| T::of_int(x as i128)).collect(),
        "f64g" => { let z = vseed % 2 == 0; vals_giant(n, vseed, op).into_iter().map(|x| if x == 0 && z { T::of_f64(-0.0) } else { T::of_f64(x as f64) }).collect() }
        "f64z" => { let mut r = Rng::new(vseed ^ 0x2E20); (0..n).map(|i| T::of_f64(match vseed % 4 { 0 => if r.below(2) == 0 { 0.0 } else { -0.0 }, 1 => if i == 0 { 0.0 } else { -0.0 }, 2 => if i == 0 { -0.0 } else { 0.0 }, _ => if i % 2 == 0 { -0.0 } else { 0.0 } })).collect() }
        "f64c" => (0..n).map(|_| T::of_f64(const_f64(vseed))).collect(),
        "i64c" => (0..n).map(|_| T::of_int(const_i64_for(vseed, n, op) as i128)).collect(),
        "f64e" => vals_f64e(n, vseed).into_iter().map(T::of_f64).collect(),
        "strl" => { let mut r = Rng::new(vseed ^ 0x57E); (0..n).map(|_| T::of_stem(r.below(12) as i128, vseed)).collect() }
        "t3" | "t3b" | "tw" => { let mut r = Rng::new(vseed ^ 0x7A7); let c = vseed % 5 == 0; (0..n).map(|_| T::of_int(if c { vseed as i128 } else { r.below(12) as i128 })).collect() }
        "i64" => vals_i64(n, vseed, op.contains("prod")).into_iter().map(|x| T::of_int(x as i128)).collect(),
        "f64" => vals_f64(n, vseed).into_iter().map(T::of_f64).collect(),
        "i64r" => vals_i64(n, vseed, op.contains("prod")).into_iter().rev().map(|x| T::of_int(x as i128)).collect(),
        "i64n" => { let mut v = vals_i64(n, vseed, op.contains("prod")); if n > 0 { v[(vseed as usize / 7) % n] += 1; } v.into_iter().map(|x| T::of_int(x as i128)).collect() }
        "f64r" => vals_f64(n, vseed).into_iter().rev().map(T::of_f64).collect(),
        "f64n" => { let mut v = vals_f64(n, vseed); if n > 0 { let k = (vseed as usize / 7) % n; if v[k].is_finite() && v[k] != 0.0 && v[k].abs() < 1e299 { v[k] = f64::from_bits(v[k].to_bits() + 1); } } v.into_iter().map(T::of_f64).collect() }
        "bool" | "str" => { let mut r = Rng::new(vseed ^ 0x57); (0..n).map(|_| T::of_int(r.below(12) as i128)).collect() }
        _ if T::FLOAT => vals_flt(n, vseed, T::SINGLE).into_iter().map(T::of_f64).collect(),
        _ => vals_int(n, vseed, op, T::LO, T::HI).into_iter().map(T::of_int).collect(),
    }
}

// ---------------------------------------------------------------- gen

fn axes_of(nd: isize) -> Vec<String> {
    let mut axes: Vec<String> = vec!["none".into()];
    for a in 0..nd { axes.push(a.to_string()); axes.push((a - nd).to_string()); }
    axes
}

fn gen(tier: &str, seed: u64, out: &mut dyn FnMut(String)) {
    let thorough = tier == "thorough";
    let mut rng = Rng::new(seed);
    // corpus: the rank-4 middle-axis cases that the pinned tree got wrong
    for l in ["sum i64 i2,3,2,2 1 none 1", "cumsum i64 i2,3,2,2 1 none 1", "sum f64 i2,2,2,2 2 none 4", "argmax i64 i2,3,2,2 -3 none 2", "max f64 i1,2,3,2 1 none 5"] { out(l.to_string()); }
    // corpus 2: the classes of the round-2 seeded changes (distinct integers above 2^53 that tie as f64; NaN inside a float
    // lane on the chained receiver; repeated maxima in a lane longer than 4096)
    for l in ["max i64b i2,3 1 none 1", "amax u64 i2,3 0 none 1", "max i64b i6 none none 6", "cumprod f64s i2,3 1 none 1", "cumprod f64 i2,3 -2 none 4",
              "argmax i64 i4100 none none 3", "argmax u8 i4100 0 none 1"] { out(l.to_string()); }
    let mut all = shapes(1, 4, 1, 3);
    if thorough { all.extend(shapes(5, 5, 1, 2)); }
    let ops: Vec<&str> = REDUCE.iter().chain(COUNT.iter()).chain(SCAN.iter()).copied().collect();
    for s in &all {
        let nd = s.len() as isize;
        let axes = axes_of(nd);
        for op in &ops { for ax in &axes { for dt in ["i64", "f64"] {
            let kds: Vec<&str> = if COUNT.contains(op) { vec!["none", "true", "false"] } else { vec!["none"] };
            for kd in kds {
                let nseeds = if thorough { 3 } else { 1 };
                for k in 0..nseeds { out(format!("{op} {dt} {} {ax} {kd} {}", tag(s), (rng.next() % 1000) * 3 + k)); }
            }
        } } }
        // out-of-range axes: must be an error (C09 owns the requirement; compared here as well)
        for bad in [nd, nd + 1, -nd - 1] { for op in ["sum", "max", "cumsum", "argmax", "count_nonzero", "nanmin"] {
            out(format!("{op} i64 {} {bad} none 0", tag(s)));
        } }
    }
    // random: rank 5 (and 6), lengths up to 4 (3)
    let n_rand = if thorough { 6000 } else { 1500 };
    for _ in 0..n_rand {
        let nd = 5 + rng.below(2);
        let s: Vec<usize> = (0..nd).map(|_| 1 + rng.below(if nd == 6 { 2 } else { 3 })).collect();
        let op = *rng.pick(&ops);
        let ax = rng.below(nd) as isize; let ax = if rng.below(2) == 0 { ax } else { ax - nd as isize };
        let kd = if COUNT.contains(&op) { *rng.pick(&["none", "true", "false"]) } else { "none" };
        out(format!("{op} {} {} {ax} {kd} {}", *rng.pick(&["i64", "f64"]), tag(&s), rng.next() % 3000));
    }

    // ---------------- robustness streams (FRAMEWORK.md) ----------------
    let dts = all_dtypes();
    let new_dts: Vec<&str> = dts.iter().copied().filter(|d| *d != "i64" && *d != "f64").collect();
    let kd_all = ["none", "true", "false"];
    // (3) element types / value classes: every operation x every axis spelling x every further element type, on every shape of
    //     rank <= 3 (len <= 3) plus rank-4 shapes whose middle axes matter; the value class rotates with the seed
    let mut tshapes = shapes(1, 3, 1, 3);
    tshapes.extend([vec![2, 3, 2, 2], vec![2, 1, 2, 3], vec![1, 2, 3, 2], vec![6], vec![2, 6], vec![7, 2]]);
    if thorough { tshapes.extend(shapes(4, 4, 1, 2)); tshapes.extend([vec![3, 3, 3, 3], vec![2, 2, 3, 2, 2]]); }
    let mut k = 0u64;
    for s in &tshapes { for op in &ops { for ax in &axes_of(s.len() as isize) { for dt in &new_dts {
        if !applicable(op, dt) { continue; }
        let kds: Vec<&str> = if COUNT.contains(op) { if thorough { kd_all.to_vec() } else { vec![kd_all[(k % 3) as usize]] } } else { vec!["none"] };
        for kd in kds { let reps = if thorough { 3 } else { 1 }; for _ in 0..reps { k += 1; out(format!("{op} {dt} {} {ax} {kd} {}", tag(s), (rng.next() % 997) * 30 + k % 30)); } }
    } } } }
    // (2) zero-length axes: every operation, every axis (both spellings, none, out of range), keepdims, three element types
    for s in &zero_shapes() {
        let nd = s.len() as isize;
        let mut axes = axes_of(nd); axes.push(nd.to_string()); axes.push((-nd - 1).to_string());
        for op in &ops { for ax in &axes { for dt in ["i64", "f64", "u8", "i8", "str"] {
            if !applicable(op, dt) { continue; }
            let kds: Vec<&str> = if COUNT.contains(op) { kd_all.to_vec() } else { vec!["none"] };
            for kd in kds { out(format!("{op} {dt} {} {ax} {kd} {}", tag(s), rng.next() % 60)); }
        } } }
    }
    // (1) sizes: axis lengths 7..17 in every position, element counts > 256 / 1024 / 4096; the element type rotates.
    //     The model driver is quadratic in the element count, so shapes above 2000 elements get fewer axis/keepdims combinations.
    let mut j = 0usize;
    for s in &big_shapes() {
        let n: usize = s.iter().product();
        let nd = s.len() as isize;
        let axes: Vec<String> = if n > 2000 { let mut a = vec!["none".to_string(), (nd - 1).to_string()]; if nd > 1 { a.push((-nd).to_string()); } else { a.push("-1".into()); } a } else { axes_of(nd) };
        for ax in &axes { for op in &ops {
            let kds: Vec<&str> = if !COUNT.contains(op) { vec!["none"] } else if n > 2000 { vec![if ax == "none" { "true" } else { "none" }] } else { kd_all.to_vec() };
            for kd in kds {
                // two element types per combination, walking through all applicable ones
                let cands: Vec<&str> = dts.iter().copied().filter(|d| applicable(op, d)).collect();
                for t in 0..2 { j += 1; let dt = cands[(j * 7 + t * 3) % cands.len()]; out(format!("{op} {dt} {} {ax} {kd} {}", tag(s), rng.next() % 30000)); }
            }
        } }
    }
    //     lanes longer than 4096 with repeated extreme values (small value ranges / clusters => many ties): the position and
    //     extreme queries on every applicable element type, the other operations on one
    let mut long: Vec<(Vec<usize>, Vec<&str>)> = vec![(vec![4100], vec!["none", "0", "-1"]), (vec![2, 4100], vec!["1"])];
    if thorough { long.extend([(vec![4100, 2], vec!["0", "-2"]), (vec![1, 4200, 1], vec!["1", "-2", "none"]), (vec![3, 1400], vec!["none"]), (vec![2, 4100], vec!["-1", "none"])]); }
    for (s, axes) in &long { for ax in axes {
        for op in &ops {
            let kd = if COUNT.contains(op) && ax != &"none" { "true" } else { "none" };
            for dt in &dts {
                if !applicable(op, dt) { continue; }
                let query = COUNT.contains(op) || EXTREME.contains(op);
                if !query && !["i64", "f64s", "i32"].contains(dt) { continue; }
                let reps = if query && ["i64", "u8", "f64", "i64b"].contains(dt) { 3 } else { 1 };
                for _ in 0..reps { out(format!("{op} {dt} {} {ax} {kd} {}", tag(s), rng.next() % 30000)); }
            }
        }
    } }
    // (5)+random: further element types on random shapes of rank 1..5 with one long axis (7..17) in a random position
    let n_rand2 = if thorough { 12000 } else { 3000 };
    for _ in 0..n_rand2 {
        let nd = 1 + rng.below(5);
        let mut s: Vec<usize> = (0..nd).map(|_| 1 + rng.below(3)).collect();
        if rng.below(3) != 0 { let p = rng.below(nd); s[p] = 7 + rng.below(11); }
        let op = *rng.pick(&ops);
        let cands: Vec<&str> = dts.iter().copied().filter(|d| applicable(op, d)).collect();
        let dt = *rng.pick(&cands);
        let ax = if rng.below(8) == 0 { "none".to_string() } else { let a = rng.below(nd) as isize; (if rng.below(2) == 0 { a } else { a - nd as isize }).to_string() };
        let kd = if COUNT.contains(&op) { *rng.pick(&kd_all) } else { "none" };
        out(format!("{op} {dt} {} {ax} {kd} {}", tag(&s), rng.next() % 30000));
    }
    gen_val(thorough, &mut rng, out);
    gen_part2(thorough, &mut rng, out);
}


// ---------------------------------------------------------------- gen, value cases (kernel model)

/// element types of the value cases: the integer types run against `Elem.int` of the kernel model, `f64` / `f32` against `Elem.nanInt`
const VAL_INT: [(&str, i128, i128); 10] = [("i64", i64::MIN as i128, i64::MAX as i128), ("i32", i32::MIN as i128, i32::MAX as i128), ("i16", i16::MIN as i128, i16::MAX as i128),
    ("i8", i8::MIN as i128, i8::MAX as i128), ("u64", 0, u64::MAX as i128), ("usize", 0, usize::MAX as i128), ("isize", isize::MIN as i128, isize::MAX as i128),
    ("u8", 0, u8::MAX as i128), ("u16", 0, u16::MAX as i128), ("u32", 0, u32::MAX as i128)];
/// integer values (no lane sum / product leaves the type: the budgets of `vals_int`), or - float types - small integers (every float
/// sum / product of them is exact, also in f32) with NaN nowhere / first / last / at random / everywhere / almost everywhere
fn val_elems(dt: &str, n: usize, vseed: u64, op: &str) -> Vec<Option<i128>> {
    if let Some(&(_, lo, hi)) = VAL_INT.iter().find(|t| t.0 == dt) {
        if dt == "i64" && vseed % 2 == 0 { return vals_i64(n, vseed, op.contains("prod")).into_iter().map(|x| Some(x as i128)).collect(); }
        return vals_int(n, vseed, op, lo, hi).into_iter().map(Some).collect();
    }
    let base = vals_i64(n, vseed / 6, op.contains("prod"));
    let mut r = Rng::new(vseed ^ 0xAA4);
    let mode = vseed % 6;
    let mut v: Vec<Option<i128>> = base.into_iter().map(|x| match mode { 3 if r.below(4) == 0 => None, 4 => None, 5 if r.below(3) != 0 => None, _ => Some(x as i128) }).collect();
    if n > 0 { if mode == 1 { v[0] = None; } if mode == 2 { v[n - 1] = None; } }
    v
}
fn val_line(op: &str, dt: &str, shape: &[usize], ax: &str, kd: &str, vseed: u64, elems: &[Option<i128>]) -> String {
    let es = if elems.is_empty() { "-".to_string() } else { elems.iter().map(|x| x.map_or("n".to_string(), |i| i.to_string())).collect::<Vec<_>>().join(",") };
    format!("{op} {dt} {}:{es} {ax} {kd} {vseed} val", show_list(shape))
}
/// VALUE CASES: the array is written out, the kernel model (`ArrModel/C08Kernels.lean`: the 1-D arms, proved in `Props/C08.lean`)
/// answers the VALUES, the crate's answer is compared with them directly, and the native value oracle is compared with the kernel
/// model on the same cases (`kernel_vs_native`).
fn gen_val(thorough: bool, rng: &mut Rng, out: &mut dyn FnMut(String)) {
    let ops: Vec<&str> = REDUCE.iter().chain(COUNT.iter()).chain(SCAN.iter()).copied().collect();
    let kd_all = ["none", "true", "false"];
    let val_dts: Vec<&str> = VAL_INT.iter().map(|t| t.0).chain(["f64", "f32"]).collect();
    let emit = |op: &str, dt: &str, s: &[usize], ax: &str, kd: &str, vseed: u64, out: &mut dyn FnMut(String)| {
        if !applicable(op, dt) { return; }
        let n: usize = s.iter().product();
        out(val_line(op, dt, s, ax, kd, vseed, &val_elems(dt, n, vseed, op)));
    };
    // (a) every lane of length 0..3 over {NaN, -1, 0, 2} (f64) / {-1, 0, 2} (i64): every arm of every kernel, flattened and along axis 0
    for (dt, alphabet) in [("f64", vec![None, Some(-1i128), Some(0), Some(2)]), ("i64", vec![Some(-1i128), Some(0), Some(2)])] {
        for len in 0..=3usize { for code in boxes(&vec![alphabet.len(); len]) {
            let elems: Vec<Option<i128>> = code.iter().map(|&k| alphabet[k]).collect();
            for op in &ops { for (ax, kd) in [("none", "none"), ("0", if COUNT.contains(op) { "true" } else { "none" })] {
                out(val_line(op, dt, &[len], ax, kd, 0, &elems));
            } }
        } }
    }
    // (b) every shape of rank <= 3 (lengths <= 3) and rank 4 (lengths <= 2) x every axis spelling x every operation x keepdims,
    //     on i64 and f64 (NaN placement rotates with the seed) and on one further element type
    let mut small = shapes(1, 3, 1, 3);
    small.extend(shapes(4, 4, 1, 2));
    if thorough { small.extend(shapes(4, 4, 3, 3)); small.extend([vec![2, 3, 2, 3], vec![3, 1, 3, 2], vec![2, 2, 2, 2, 2], vec![1, 2, 1, 3, 2]]); }
    let mut k = 0usize;
    for s in &small { for op in &ops { for ax in &axes_of(s.len() as isize) {
        let kds: Vec<&str> = if COUNT.contains(op) { kd_all.to_vec() } else { vec!["none"] };
        for kd in kds {
            k += 1;
            let reps = if thorough { 3 } else { 1 };
            for _ in 0..reps {
                emit(op, "i64", s, ax, kd, rng.next() % 3000, out);
                emit(op, "f64", s, ax, kd, rng.next() % 3000, out);
            }
            if s.len() <= 2 || thorough || k % 4 == 0 { emit(op, val_dts[k % val_dts.len()], s, ax, kd, rng.next() % 3000, out); }
        }
    } } }
    // (c) zero-length axes: every operation x every axis (both spellings, none, out of range) x keepdims - the complete answer of
    //     the model (error / empty array / the value of the empty lane: `nanmax` of an empty integer lane is 0, of a float lane NaN)
    for s in &zero_shapes() {
        let nd = s.len() as isize;
        let mut axes = axes_of(nd); axes.push(nd.to_string()); axes.push((-nd - 1).to_string());
        for op in &ops { for ax in &axes { for dt in ["i64", "f64", "u8"] {
            let kds: Vec<&str> = if COUNT.contains(op) { kd_all.to_vec() } else { vec!["none"] };
            for kd in kds { emit(op, dt, s, ax, kd, rng.next() % 60, out); }
        } } }
    }
    // (d) sizes: big_shapes (axis lengths 7..17 in every position, > 256 / 1024 / 4096 elements), operations / axes / types rotating
    let mut j = 0usize;
    for s in &big_shapes() {
        let n: usize = s.iter().product();
        let nd = s.len() as isize;
        let axes: Vec<String> = if n > 2000 { vec!["none".to_string(), (nd - 1).to_string(), "none".to_string(), (-nd).to_string()] } else { axes_of(nd) };
        let per = if n > 2000 { if thorough { 6 } else { 2 } } else if thorough { 12 } else { 6 };
        for t in 0..per {
            j += 1;
            let op = ops[(j * 5 + t) % ops.len()];
            // (the crate's sort-based 1-D argmax / argmin and the model's quick sort are quadratic on repeated values)
            let op = if n > 2000 && (op == "argmax" || op == "argmin") && t % 2 == 0 { "count_nonzero" } else { op };
            let ax = &axes[(j + t) % axes.len()];
            let kd = if COUNT.contains(&op) { if ax == "none" && nd > 3 { "false" } else { kd_all[j % 3] } } else { "none" };
            let cands: Vec<&str> = val_dts.iter().copied().filter(|d| applicable(op, d)).collect();
            emit(op, cands[(j * 3 + t) % cands.len()], s, ax, kd, rng.next() % 30000, out);
        }
    }
    //     lanes of 4100 elements with many repeated extremes (the list-backed model of apply_along_axis is quadratic in the element
    //     count - 0.4 s at 4100, 1.2 s at 8200 elements -, the kernels are not: mostly the flattened form)
    for (i, op) in ["argmax", "argmin", "max", "nanmin", "count_nonzero", "cumsum", "nanprod", "sum", "nancumprod", "amin"].iter().enumerate() {
        for rep in 0..(if thorough { 6 } else { 2 }) {
            emit(op, "i64", &[4100], "none", "none", 2 * (rng.next() % 1000), out);
            emit(op, if (i + rep) % 2 == 0 { "f64" } else { "f32" }, &[4100], "none", "none", 6 * (rng.next() % 1000) + [0, 3, 1, 2, 5][(i + rep) % 5], out);
        }
    }
    let long_axis: Vec<(&str, &str, Vec<usize>, &str, &str)> = if thorough {
        vec![("argmax", "i64", vec![4100], "0", "true"), ("cumsum", "f64", vec![4100], "-1", "none"), ("nanmin", "f64", vec![2, 4100], "1", "none"), ("argmin", "f32", vec![2, 4100], "-1", "none"),
             ("count_nonzero", "u8", vec![4100], "0", "false"), ("max", "i64", vec![2, 4100], "1", "none"), ("nancumsum", "f64", vec![2, 4100], "1", "none"), ("prod", "i64", vec![4100, 2], "0", "none")]
    } else { vec![("argmax", "i64", vec![4100], "0", "true"), ("cumsum", "f64", vec![4100], "-1", "none")] };
    for (op, dt, s, ax, kd) in long_axis { emit(op, dt, &s, ax, kd, 6 * (rng.next() % 1000) + 3, out); }
    // (e) random shapes of rank 1..6 with one longer axis; out-of-range axes
    let n_rand = if thorough { 6000 } else { 600 };
    for _ in 0..n_rand {
        let nd = 1 + rng.below(6);
        let mut s: Vec<usize> = (0..nd).map(|_| 1 + rng.below(if nd >= 5 { 2 } else { 3 })).collect();
        if rng.below(3) != 0 { let p = rng.below(nd); s[p] = 4 + rng.below(14); }
        let op = *rng.pick(&ops);
        let cands: Vec<&str> = val_dts.iter().copied().filter(|d| applicable(op, d)).collect();
        let ax = match rng.below(12) { 0 => "none".to_string(), 1 => (nd as isize + rng.below(2) as isize).to_string(), _ => { let a = rng.below(nd) as isize; (if rng.below(2) == 0 { a } else { a - nd as isize }).to_string() } };
        let kd = if COUNT.contains(&op) { *rng.pick(&kd_all) } else { "none" };
        emit(op, *rng.pick(&cands), &s, &ax, kd, rng.next() % 30000, out);
    }
}

// ---------------------------------------------------------------- gen, part 2

/// groups of same-rank shapes that collide under a key a per-shape cache could plausibly use
fn c08_collision_groups(thorough: bool) -> Vec<Vec<Vec<usize>>> {
    let mut g: Vec<Vec<Vec<usize>>> = vec![];
    // equal rank, equal ELEMENT COUNT and equal polynomial hash `h = h*m + d` (any start value): [c+k, c*m] and [c, (c+k)*m]
    // (a cached index plan that is only checked for its length is reused for the sibling)
    for &m in &[31usize, 33, 37, 131, 257, 256] {
        for (c, k) in [(1usize, 1usize), (2, 1), (1, 2)] {
            let (a, b) = (vec![c + k, c * m], vec![c, (c + k) * m]);
            g.push(vec![a.clone(), b.clone()]);
            if m <= 37 && (k == 1 || thorough) {
                g.push(vec![[vec![3], a.clone()].concat(), [vec![3], b.clone()].concat()]);
                g.push(vec![[a.clone(), vec![2]].concat(), [b.clone(), vec![2]].concat()]);
            }
        }
    }
    // the pairs of lib.rs (equal hash, different element counts)
    for (a, b) in collision_shape_pairs() { g.push(vec![a, b]); }
    // order-blind keys (element count + rank, sum / product / xor of the axis lengths, sorted axis lengths)
    g.push(vec![vec![2, 3, 4], vec![4, 3, 2], vec![3, 4, 2], vec![2, 4, 3], vec![4, 2, 3], vec![2, 2, 6]]);
    g.push(vec![vec![2, 6], vec![6, 2], vec![3, 4], vec![4, 3], vec![1, 12], vec![12, 1]]);
    g.push(vec![vec![16, 17], vec![17, 16], vec![8, 34], vec![34, 8]]);
    g.push(vec![vec![1, 5, 7], vec![7, 5, 1], vec![5, 1, 7], vec![5, 7, 1]]);
    // packed keys: the axis lengths agree modulo 2^8
    g.push(vec![vec![2, 3], vec![2, 259], vec![258, 3]]);
    g.push(vec![vec![3, 2, 4], vec![3, 258, 4], vec![3, 2, 260]]);
    g
}

/// the operations of the three families, rotating; element type rotating among those every operation of the pick accepts
fn pick_ops(k: usize) -> [(&'static str, &'static str); 3] {
    let r = REDUCE[k % REDUCE.len()];
    let c = COUNT[k % COUNT.len()];
    let sc = SCAN[k % SCAN.len()];
    let dr = if EXTREME.contains(&r) { ["i64", "f64", "u8", "i64b", "f32", "u64"][k % 6] } else { ["i64", "f64", "i32", "f64s"][k % 4] };
    let dc = ["i64", "u8", "f64", "str", "bool", "i8"][k % 6];
    let ds = ["i64", "f64", "i16", "f64s"][k % 4];
    [(r, dr), (c, dc), (sc, ds)]
}

/// keep a pick affordable: String arrays are slow in the crate (beyond 64 elements: i64 instead), and the 1-D argmax / argmin sort
/// the lane with a quicksort that is quadratic on repeated values (lanes beyond 5000: count_nonzero instead)
fn fit(op: &'static str, dt: &'static str, shape: &[usize], ax: &str) -> (&'static str, &'static str) {
    let n: usize = shape.iter().product();
    let lane = match ax.parse::<isize>() { Ok(a) => { let k = if a < 0 { a + shape.len() as isize } else { a }; if k >= 0 && (k as usize) < shape.len() { shape[k as usize] } else { 1 } } Err(_) => n };
    let dt = if dt == "str" && n > 64 { "i64" } else { dt };
    if (op == "argmax" || op == "argmin") && lane > 5000 { ("count_nonzero", dt) } else { (op, dt) }
}

fn gen_part2(thorough: bool, rng: &mut Rng, out: &mut dyn FnMut(String)) {
    let kd_all = ["none", "true", "false"];
    let mut k = 0usize;
    // ---- (6a) hidden state: colliding shapes back to back, in both orders, the same axis, every family
    for (gi, g) in c08_collision_groups(thorough).into_iter().enumerate() {
        let nd = g[0].len() as isize;
        // the model is quadratic: groups with a member above 600 elements take one axis and one family (rotating) in the quick tier
        let heavy = !thorough && g.iter().any(|s| s.iter().product::<usize>() > 600);
        for a in 0..nd {
            k += 1;
            if heavy && a != gi as isize % nd { continue; }
            let ax = if k % 2 == 0 { a } else { a - nd };
            for (fi, (op, dt)) in pick_ops(k).into_iter().enumerate() {
                if heavy && fi != (gi / 2) % 3 { continue; }
                let kd = if COUNT.contains(&op) { kd_all[k % 3] } else { "none" };
                let vs = rng.next() % 30000;
                // g0 g1 .. gn g0 | gn .. g1 g0 g1  (every member directly after every neighbour, both orders)
                let mut seq: Vec<&Vec<usize>> = g.iter().collect();
                seq.push(&g[0]);
                seq.extend(g.iter().rev().skip(1));
                seq.push(&g[1]);
                for (i, s) in seq.iter().enumerate() { let (op, dt) = fit(op, dt, s, &ax.to_string()); out(format!("{op} {dt} {} {ax} {kd} {}", tag(s), vs + (i as u64 % 2))); }
            }
        }
    }
    // 16-bit packed keys: [2,3] and [2,65539] (131 078 elements, reference cases; only the axis with two lanes — the crate's
    // lane splitting is quadratic in the number of lanes)
    for (small, huge, ax) in [(vec![2usize, 3], vec![2usize, 65539], "1"), (vec![3, 2], vec![65539, 2], "-2")] {
        for (op, dt) in [("sum", "i64"), ("count_nonzero", "u8"), ("max", "f64")] {
            if !thorough && op == "max" { continue; }
            for s in [&small, &huge, &small] {
                let big = s.iter().product::<usize>() > 5000;
                out(format!("{op} {dt} {} {ax} none {}{}", tag(s), rng.next() % 30000, if big { " ref" } else { "" }));
            }
        }
    }
    // ---- (6b) hidden state keyed by the VALUES: the same shape with the values reversed (same multiset / sum / xor), and with one
    //      element moved by one / one ulp, between two runs of the original
    let ops: Vec<&str> = REDUCE.iter().chain(COUNT.iter()).chain(SCAN.iter()).copied().collect();
    let mut vshapes = vec![vec![6usize], vec![2, 3], vec![3, 4], vec![2, 3, 4]];
    if thorough { vshapes.extend([vec![4, 1, 5], vec![31], vec![2, 2, 2, 2]]); }
    for s in &vshapes {
        let nd = s.len() as isize;
        let mut axes = vec!["none".to_string(), (nd - 1).to_string(), (-nd).to_string()];
        if thorough { axes = axes_of(nd); }
        for op in &ops { for ax in &axes {
            let vs = (rng.next() % 1000) * 3 + 1;      // f64: with NaN
            let kd = if COUNT.contains(op) { kd_all[(vs % 3) as usize] } else { "none" };
            for dt in ["i64", "i64r", "i64", "i64n", "i64", "f64", "f64r", "f64", "f64n", "f64"] { out(format!("{op} {dt} {} {ax} {kd} {vs}", tag(s))); }
        } }
    }
    // ---- (6c) a failing call (axis outside the rank) directly followed by a valid call on the same shape, alternating
    for s in [vec![5usize], vec![2, 3], vec![3, 4, 2], vec![2, 31], vec![1, 62], vec![2, 1, 2, 3]] {
        let nd = s.len() as isize;
        for (i, op) in ops.iter().enumerate() {
            let dt = ["i64", "f64"][i % 2];
            let kd = if COUNT.contains(op) { kd_all[i % 3] } else { "none" };
            let good = [(i as isize) % nd, (i as isize) % nd - nd];
            for (j, bad) in [nd, -nd - 1, nd + 1 + i as isize].iter().enumerate() {
                let vs = rng.next() % 3000;
                out(format!("{op} {dt} {} {bad} {kd} {vs}", tag(&s)));
                out(format!("{op} {dt} {} {} {kd} {vs}", tag(&s), good[j % 2]));
            }
        }
    }
    // ---- (8) exact lengths: EVERY lane length 1..300 in the trailing position ([2,d]) and in an inner position ([3,d,2]).
    //      [2,d]: both axes; one family per (d, axis) is tied to the model (rotating, so three consecutive lengths cover all), the
    //      other two go to the native reference.  [3,d,2] axis 1: model up to d = 120 (the model needs ~d^2), reference above.
    for d in 1..=300usize {
        for (ai, ax) in ["1", "0", "-1", "-2"].iter().enumerate() {
            if ai >= 2 && !thorough && d % 4 != 0 { continue; }
            k += 1;
            for (fi, (op, dt)) in pick_ops(k).iter().enumerate() {
                let (op, dt) = &fit(op, dt, &[2, d], ax);
                let kd = if COUNT.contains(op) { kd_all[(d + ai) % 3] } else { "none" };
                let model = fi == (d + ai) % 3;
                out(format!("{op} {dt} {} {ax} {kd} {}{}", tag(&[2, d]), rng.next() % 30000, if model { "" } else { " ref" }));
            }
        }
        k += 1;
        let inner_model = d <= if thorough { 200 } else { 120 };
        for (fi, (op, dt)) in pick_ops(k).iter().enumerate() {
            let (op, dt) = &fit(op, dt, &[3, d, 2], "1");
            let kd = if COUNT.contains(op) { kd_all[d % 3] } else { "none" };
            let model = inner_model && fi == d % 3;
            out(format!("{op} {dt} {} {} {kd} {}{}", tag(&[3, d, 2]), if d % 2 == 0 { "1" } else { "-2" }, rng.next() % 30000, if model { "" } else { " ref" }));
        }
    }
    // ---- (10) ranks 7 and 8 (the enumeration stops at rank 4/5, the random stream at 6)
    let mut high = vec![vec![2usize; 7], vec![2; 8], vec![1, 2, 1, 2, 1, 2, 1, 2], vec![2, 1, 1, 3, 1, 1, 2], vec![3, 1, 2, 1, 2, 1, 1, 2]];
    if thorough { high.extend([vec![2, 3, 2, 1, 2, 3, 2], vec![2, 2, 3, 2, 2, 1, 2, 2]]); }
    for s in &high {
        let nd = s.len() as isize;
        for a in 0..nd { for ax in [a, a - nd] {
            k += 1;
            for (op, dt) in pick_ops(k) {
                let (op, dt) = fit(op, dt, s, &ax.to_string());
                let kds: Vec<&str> = if COUNT.contains(&op) { kd_all.to_vec() } else { vec!["none"] };
                for kd in kds { out(format!("{op} {dt} {} {ax} {kd} {}", tag(s), rng.next() % 30000)); }
            }
        } }
        for (op, dt) in pick_ops(k + 1) { let (op, dt) = fit(op, dt, s, "none"); out(format!("{op} {dt} {} none {} {}", tag(s), if COUNT.contains(&op) { "true" } else { "none" }, rng.next() % 30000)); }
        for bad in [nd, -nd - 1] { out(format!("sum i64 {} {bad} none 0", tag(s))); out(format!("argmin i64 {} {bad} true 0", tag(s))); }
    }
    // ---- (7) huge sizes: native reference cases (seventh token `ref`).  (a) more than 8192 lanes of length >= 2 (a batched walk
    //      over the lanes), the boundary 8192 / 8193; the crate needs ~0.1 s per call at 9000 lanes (quadratic in the number of
    //      lanes), so axes that give more than ~20 000 lanes are left out;  (b) `huge_shapes()` of lib.rs on the axes with at most
    //      ~300 lanes and with `none`
    let many: Vec<(Vec<usize>, Vec<&str>)> = vec![
        (vec![9000, 3], vec!["1", "-1"]), (vec![100, 2, 90], vec!["-2", "1"]), (vec![3, 9000], vec!["0", "-2"]), (vec![8193, 2], vec!["1"]),
        (vec![2, 8193], vec!["0"]), (vec![8192, 2], vec!["-1"]), (vec![91, 2, 91], vec!["1"])];
    for (s, axes) in &many { for ax in axes {
        let reps = if thorough { 4 } else { 1 };
        for _ in 0..reps {
            k += 1;
            for (op, dt) in pick_ops(k) {
                let (op, dt) = fit(op, dt, s, ax);
                let kd = if COUNT.contains(&op) { kd_all[k % 3] } else { "none" };
                out(format!("{op} {dt} {} {ax} {kd} {} ref", tag(s), rng.next() % 30000));
            }
        }
    } }
    let mut few: Vec<(Vec<usize>, Vec<&str>)> = vec![
        (vec![9000, 3], vec!["0", "none"]), (vec![100, 2, 90], vec!["0"]), (vec![16385], vec!["0", "none"]), (vec![130, 130], vec!["0", "1"]), (vec![129, 131], vec!["-1", "-2"]),
        (vec![100, 200], vec!["0", "-1"]), (vec![33000], vec!["-1"]), (vec![70000], vec!["0", "none"]), (vec![2, 70000], vec!["1", "none"]), (vec![70000, 2], vec!["0"]),
        (vec![40, 30, 30], vec!["0", "1", "2"]), (vec![10, 11, 12, 13], vec!["0", "-3", "2", "-1"]), (vec![5, 4, 10, 10, 10], vec!["0", "1", "-3", "3", "4"]), (vec![300, 300], vec!["0", "1"])];
    if thorough { few.extend([(vec![140001], vec!["0"]), (vec![7, 131, 151], vec!["0", "1", "2"]), (vec![1, 66000, 2, 1], vec!["1", "-3"]), (vec![20000, 2], vec!["1"]), (vec![3, 5, 7, 11, 13, 2], vec!["0", "2", "4", "-1"])]); }
    for (s, axes) in &few { for ax in axes {
        let reps = if thorough { 3 } else { 1 };
        for _ in 0..reps {
            k += 1;
            for (op, dt) in pick_ops(k) {
                let (op, dt) = fit(op, dt, s, ax);
                let kd = if COUNT.contains(&op) { kd_all[k % 3] } else { "none" };
                out(format!("{op} {dt} {} {ax} {kd} {} ref", tag(s), rng.next() % 30000));
            }
        }
    } }
    gen_part3(thorough, rng, out);
    // the last line of a run: how many times the native reference was compared with the model / used in its place
    out("refstats".to_string());
}

// ---------------------------------------------------------------- gen, part 3 (after the fourth round of seeded changes)

/// giant arrays (2^20 elements and a little below / above, up to 2.1 million): shape, axes.  The crate's `apply_along_axis` copies
/// the whole buffer once per lane, so only axes that leave FEW lanes are affordable: (a) a handful of lanes — first, middle and last
/// axis of ranks 1..4, extents that are / are not multiples of 64, exactly 2^20 elements, 8 elements below, the `giant_shapes()`
/// of lib.rs; (b) thorough: about a thousand lanes.
fn giant_configs(thorough: bool) -> Vec<(Vec<usize>, Vec<&'static str>)> {
    let mut g: Vec<(Vec<usize>, Vec<&'static str>)> = vec![
        (vec![2, 131_073, 4], vec!["1", "-2"]),           // middle axis, 8 lanes
        (vec![2, 131_072, 4], vec!["1"]),                 // exactly 2^20 elements, every extent a power of two
        (vec![2, 131_071, 4], vec!["-2"]),                // 8 elements below 2^20
        (vec![3, 400_001], vec!["1"]), (vec![400_001, 3], vec!["0"]),
        (vec![2, 3, 174_763], vec!["2"]), (vec![174_763, 3, 2], vec!["-3"]),
        (vec![5, 70_000, 4], vec!["1"]),
        (vec![2, 2, 65_537, 4], vec!["2"]), (vec![2, 65_537, 2, 4], vec!["-3"]),       // rank 4, two axes in front / behind
        (vec![1 << 20 | 5], vec!["0", "none"]),
        (vec![64, 128, 128], vec!["none"]),               // 2^20 elements, flattened form
    ];
    if thorough {
        g.extend([
            (vec![2, 131_073, 4], vec!["none"]), (vec![3, 349_526], vec!["-1"]), (vec![349_526, 3], vec!["-2"]), (vec![2_097_153], vec!["-1", "none"]),
            (vec![4, 65_536, 4], vec!["1"]), (vec![3, 64, 5462], vec!["-1"]), (vec![3, 5462, 64], vec!["1"]), (vec![2, 1, 131_075, 2, 2], vec!["2", "-3"]),
            (vec![1, 1_048_577], vec!["1"]), (vec![1_048_577, 1], vec!["0"]), (vec![7, 149_797], vec!["1"]), (vec![2, 2, 2, 131_073], vec!["3"]),
            (vec![131_073, 2, 2, 2], vec!["0"]), (vec![2, 524_289], vec!["-1"]), (vec![2, 262_145, 4], vec!["1"]), (vec![3, 2, 174_763, 2], vec!["-2"]),
            // a few hundred lanes (every giant case has to stay below ~2 s on a quiet machine; the crate needs 2 .. 8 s at 1000 .. 2000 lanes): two operations each
            (vec![3500, 300], vec!["0"]), (vec![300, 3500], vec!["1"]),
        ]);
    }
    g
}

fn gen_part3(thorough: bool, rng: &mut Rng, out: &mut dyn FnMut(String)) {
    let kd_all = ["none", "true", "false"];
    let ops: Vec<&str> = REDUCE.iter().chain(COUNT.iter()).chain(SCAN.iter()).copied().collect();
    // ---- (13) values related in a way random data never is: all-zero arrays mixing 0.0 and -0.0, constant arrays (the constant
    //      rotates: 0, -0.0, 1, 0.1, NaN, inf, MAX, MIN, 2^53+1 ...), values that are `==` / one ulp apart; (12) element layout:
    //      12-byte / 3-byte / 32-byte non-Copy tuples and strings sharing a stem of 32..1024 bytes through the count family.
    //      Every operation x every axis spelling (and none) on a few shapes; both oracles + the bit-exact lane oracle as ever.
    let mut rshapes = vec![vec![5usize], vec![2, 3], vec![3, 2], vec![2, 3, 2], vec![3, 1, 4], vec![17], vec![4, 16], vec![2, 2, 2, 2]];
    if thorough { rshapes.extend([vec![1, 7], vec![9, 9], vec![2, 3, 4, 2], vec![64], vec![3, 33]]); }
    let mut k = 0u64;
    for s in &rshapes {
        for op in &ops { for ax in &axes_of(s.len() as isize) { for dt in ["f64z", "f64c", "i64c", "f64e", "t3", "t3b", "tw", "strl"] {
            if !applicable(op, dt) { continue; }
            k += 1;
            let kds: Vec<&str> = if COUNT.contains(op) { if thorough { kd_all.to_vec() } else { vec![kd_all[(k % 3) as usize]] } } else { vec!["none"] };
            let reps = if thorough { 3 } else { 1 };
            for kd in kds { for r in 0..reps { out(format!("{op} {dt} {} {ax} {kd} {}", tag(s), (rng.next() % 500) * 60 + (k + r * 7) % 60)); } }
        } } }
    }
    //      ... and on lanes longer than 4096 (extreme / position / count queries: every element a candidate)
    for (s, ax) in [(vec![4100usize], "none"), (vec![2, 4100], "1"), (vec![4100, 2], "-2")] {
        for op in ["max", "min", "nanmax", "amin", "count_nonzero", "sum", "cumsum"] { for dt in ["f64z", "f64c", "i64c"] {
            k += 1; out(format!("{op} {dt} {} {ax} {} {}", tag(&s), if op == "count_nonzero" { "true" } else { "none" }, k));
        } }
    }
    // ---- (15) axis values whose narrowed / wrapped image is a valid axis: a + 2^8, a + 2^16, a + 2^32, a - 2^8 ..., the ends of isize
    for s in [vec![2usize, 3], vec![3, 2, 2], vec![4], vec![2, 1, 3, 2]] {
        let nd = s.len() as isize;
        let mut bad: Vec<isize> = vec![isize::MAX, isize::MIN, isize::MIN + nd, isize::MIN + nd - 1, isize::MAX - nd + 1, -(1isize << 32), 1isize << 32, 1 << 62, -(1 << 62)];
        for a in 0..nd { for img in narrowing_images(a as usize) { bad.push(img as isize); bad.push(a - nd - (img as isize - a)); } bad.push(a + (1 << 31)); bad.push(a + (1 << 63 - 1) / 2); }
        for (i, b) in bad.iter().enumerate() {
            let op = ops[(i + s.len() * 5) % ops.len()];
            let kd = if COUNT.contains(&op) { kd_all[i % 3] } else { "none" };
            out(format!("{op} {} {} {b} {kd} {}", ["i64", "f64", "u8"][i % 3].replace("u8", if COUNT.contains(&op) || EXTREME.contains(&op) { "u8" } else { "i32" }), tag(&s), rng.next() % 3000));
            // ... directly followed by a valid call
            out(format!("{op} i64 {} {} {kd} {}", tag(&s), (i as isize) % nd - if i % 2 == 0 { 0 } else { nd }, rng.next() % 3000));
        }
    }
    // ---- (11) giant arrays: native reference cases judged in place.  Element types: near-distinct scrambled integers as i64 / f64
    //      (`i64g` / `f64g`: every lane has its own sum, extreme, sign pattern and zero count), small-range i64 / u8 / bool for the count.
    //      Quick: two operations (of different families, rotating so that all 17 occur) per configuration; thorough: every operation.
    let (mut j, mut ci) = (0usize, 0usize);
    for (s, axes) in giant_configs(thorough) { for ax in axes {
        let lanes: usize = match ax.parse::<isize>() { Ok(a) => { let k = if a < 0 { a + s.len() as isize } else { a } as usize; s.iter().product::<usize>() / s[k] } Err(_) => 1 };
        let picks: Vec<&str> = if thorough { ci += 1; (0..if lanes > 100 { 2 } else { 4 }).map(|t| ops[(ci * 4 + t) % 17]).collect() } else {
            ci += 1;
            let other: Vec<&str> = COUNT.iter().chain(SCAN.iter()).copied().collect();
            vec![REDUCE[(ci * 3) % 10], other[(ci * 2) % 7]]
        };
        for op in picks {
            j += 1;
            // the crate's 1-D argmax / argmin sort the lane: above 1.5 million elements the call takes more than 2 s
            let op = if (op == "argmax" || op == "argmin") && s.iter().product::<usize>() > 1_500_000 { "count_nonzero" } else { op };
            let dt = if op == "count_nonzero" { ["i64g", "u8", "f64g", "bool"][j % 4] } else { ["i64g", "f64g"][(j + ci) % 2] };
            let kd = if COUNT.contains(&op) { kd_all[j % 3] } else { "none" };
            let kd = if ax == "none" && s.len() > 3 && kd == "true" { "false" } else { kd };
            out(format!("{op} {dt} {} {ax} {kd} {} ref", tag(&s), rng.next() % 30000));
        }
    } }
    // a refused axis on a giant array, then a valid call
    out(format!("sum i64g {} 3 none 1 ref", tag(&[2, 131_073, 4])));
    out(format!("sum i64g {} -1 none 1 ref", tag(&[3, 349_526])));
}

// ---------------------------------------------------------------- exec

/// lane map of an answer: result shape, per output position (position inside the lane, lane id), and the lanes (input
/// positions), numbered in the order of their first occurrence in the output
#[derive(PartialEq)]
struct LaneMap { shape: Vec<usize>, outs: Vec<(usize, usize)>, lanes: Vec<Vec<usize>> }

/// model answer -> lane map
fn parse_lanes(s: &str, scan: bool) -> Option<LaneMap> {
    let (sh, body) = s.split_once(':')?;
    let shape = parse_usize_list(sh);
    let mut lanes: Vec<Vec<usize>> = vec![];
    let mut outs: Vec<(usize, usize)> = vec![];
    if body != "-" {
        for el in body.split('|') {
            if let Some((j, k)) = el.split_once('=') {
                let id = outs.get(k.parse::<usize>().ok()?)?.1;
                outs.push((j.parse().ok()?, id));
            } else {
                let l = if el == "e" { vec![] } else { parse_usize_list(el) };
                if scan { let (j, lane) = l.split_first()?; lanes.push(lane.to_vec()); outs.push((*j, lanes.len() - 1)); }
                else { lanes.push(l); outs.push((0, lanes.len() - 1)); }
            }
        }
    }
    Some(LaneMap { shape, outs, lanes })
}

/// NATIVE LANE-MEMBERSHIP REFERENCE in closed form: the result shape and, by plain coordinate arithmetic, which input positions
/// (row-major) form lane `q` and which (position inside the lane, lane) stands behind output position `p`.  Lane `q = o * inner + i`
/// (`o` the index over the axes in front of the reduced axis, `i` over those behind it) — that is also the order in which the
/// lanes first occur in the output.  `materialize` writes the same thing out as a `LaneMap`; THAT is what is compared with the
/// model on every ordinary case, so the two views (`pos` / `out_of`) used lazily on the giant cases are exactly the validated ones.
struct Strided { shape: Vec<usize>, outer: usize, len: usize, inner: usize, scan: bool }
impl Strided {
    fn lanes(&self) -> usize { self.outer * self.inner }
    /// input position of element `j` of lane `q`
    fn pos(&self, q: usize, j: usize) -> usize { q / self.inner * self.len * self.inner + j * self.inner + q % self.inner }
    fn n_out(&self) -> usize { if self.scan { self.outer * self.len * self.inner } else { self.lanes() } }
    /// output position -> (position inside the lane, lane)
    fn out_of(&self, p: usize) -> (usize, usize) { if self.scan { (p / self.inner % self.len, p / (self.len * self.inner) * self.inner + p % self.inner) } else { (0, p) } }
    fn materialize(&self) -> LaneMap {
        LaneMap { shape: self.shape.clone(), outs: (0..self.n_out()).map(|p| self.out_of(p)).collect(),
                  lanes: (0..self.lanes()).map(|q| (0..self.len).map(|j| self.pos(q, j)).collect()).collect() }
    }
}
/// `fam`: 'R' reduction, 'C' count / position query (keepdims), 'S' scan.
/// `None`: no reference (zero-size arrays are left to the model);  `Some(Err(()))`: an error value (the axis is outside the rank; `keepdims` on the flattened form of an array of rank > 3).
fn native_strided(shape: &[usize], axis: Option<isize>, kd: Option<bool>, fam: char) -> Option<Result<Strided, ()>> {
    let n: usize = shape.iter().product();
    let nd = shape.len();
    if n == 0 || nd == 0 { return None; }
    let Some(ax) = axis else {
        // the flattened form: one lane = the whole array
        let sh = match fam {
            'S' => vec![n],
            // `atleast(ndim)` refuses more than three dimensions
            'C' if kd == Some(true) && nd > 3 => return Some(Err(())),
            'C' if kd == Some(true) => vec![1; nd],
            _ => vec![1],
        };
        return Some(Ok(Strided { shape: sh, outer: 1, len: n, inner: 1, scan: fam == 'S' }));
    };
    let k = if ax < 0 { ax.checked_add(nd as isize)? } else { ax };
    if k < 0 || k >= nd as isize { return Some(Err(())); }
    let k = k as usize;
    let inner: usize = shape[k + 1..].iter().product();          // distance between two neighbours of a lane
    let outer: usize = shape[..k].iter().product();
    let mut sh = shape.to_vec();
    if fam == 'S' { }
    else if fam == 'C' { if kd == Some(true) { sh[k] = 1; } else { sh.remove(k); } }
    else if nd > 1 { sh.remove(k); } else { sh = vec![1]; }
    Some(Ok(Strided { shape: sh, outer, len: shape[k], inner, scan: fam == 'S' }))
}
fn native_map(shape: &[usize], axis: Option<isize>, kd: Option<bool>, fam: char) -> Option<Result<LaneMap, ()>> {
    native_strided(shape, axis, kd, fam).map(|r| r.map(|s| s.materialize()))
}

thread_local! {
    /// how often the native reference was compared with the model's answer in this run / used in place of the model
    static REF_VALIDATED: Cell<usize> = Cell::new(0);
    static REF_USED: Cell<usize> = Cell::new(0);
    static REF_BROKEN: Cell<usize> = Cell::new(0);
    /// A-B-A: the previous case (op, arguments, answer of its plain call)
    static PREV: RefCell<Option<(String, Vec<String>, String)>> = RefCell::new(None);
    static ABA_RUNS: Cell<usize> = Cell::new(0);
}
fn family(op: &str) -> char { if SCAN.contains(&op) { 'S' } else if COUNT.contains(&op) { 'C' } else { 'R' } }

fn show_out<R: Val>(r: &Result<Array<R>, ArrayError>) -> String {
    show_res(r, |a| format!("{}:{}", show_list(&a.get_shape().unwrap()), show_list(&a.get_elements().unwrap())))
}

/// what the native oracle expects at one output position
enum Want<R> { Int(i128), Is(R), Nan }
impl<R: Val> Want<R> {
    fn agrees(&self, got: &R) -> bool {
        match self { Want::Int(i) => got.int() == Some(*i), Want::Is(v) => got.partial_cmp(v) == Some(Ordering::Equal), Want::Nan => got.nan() }
    }
    fn show(&self) -> String { match self { Want::Int(i) => i.to_string(), Want::Is(v) => v.to_string(), Want::Nan => "NaN".into() } }
}

/// `ok shape:a,-0,b` -> `ok shape:a,0,b` (element tokens only)
fn neg_zero_as_zero(t: &str) -> String {
    match t.split_once(':') { Some((h, es)) if t.starts_with("ok ") => format!("{h}:{}", es.split(',').map(|x| if x == "-0" { "0" } else { x }).collect::<Vec<_>>().join(",")), _ => t.to_string() }
}
/// compare one real result against the lane map (of the model, or of the native reference on `ref` cases): shape, consistency,
/// then per output position the lane oracle (`lane_op`, the same real 1-D operation, bit-exact) and the native oracle (`native`: per
/// lane the expected values, one for a reduction, one per lane position for a scan; `None` = no native reference for this
/// operation / element type)
fn judge<T: Val, R: Val>(vals: &[T], observed: &Result<Array<R>, ArrayError>, expected: &str, map: Option<&LaneMap>, source: &str,
    lane_op: &dyn Fn(&Array<T>) -> Result<Array<R>, ArrayError>, native: &dyn Fn(&[T]) -> Option<Vec<Want<R>>>) -> Verdict {
    let obs_text = show_out(observed);
    // (no lane map: an error is expected, or - value cases - `expected` is the VALUE answer of the kernel model, in which `0.0` and
    //  `-0.0` are one value: `0 * -3`)
    let Some(map) = map else { return match compare_default(neg_zero_as_zero(&obs_text), expected) { Verdict::Match(_) => Verdict::Match(obs_text), v => v } };
    let (shape, outs, lanes) = (&map.shape, &map.outs, &map.lanes);
    // lane values and the 1-D operation on each distinct lane, once
    let mut lane_vals: Vec<Vec<T>> = Vec::with_capacity(lanes.len());
    let mut lane_res: Vec<Result<Vec<R>, String>> = Vec::with_capacity(lanes.len());
    for l in lanes {
        if l.iter().any(|&t| t >= vals.len()) { return Verdict::Mismatch { observed: obs_text, detail: format!("{source} names an input position outside the array") } }
        let lv: Vec<T> = l.iter().map(|&t| vals[t].clone()).collect();
        let lane_arr = Array::new(lv.clone(), vec![lv.len()]).unwrap();
        lane_res.push(match catch_unwind(AssertUnwindSafe(|| lane_op(&lane_arr))) {
            Ok(Ok(r)) => Ok(r.get_elements().unwrap()),
            Ok(Err(e)) => Err(format!("fails: {}", err_name(&e))),
            Err(_) => Err("panics".to_string()),
        });
        lane_vals.push(lv);
    }
    let idx_text = |id: usize| truncate(&show_list(&lanes[id]), 300);
    let arr = match observed {
        Ok(a) => a,
        // the model runs a lane-collecting body that always succeeds; the real 1-D body may refuse a lane (max / argmax of an
        // empty lane): then, and only then, the refusal of the array operation is the lane-wise answer
        Err(_) => return match lane_res.iter().position(|r| matches!(r, Err(m) if m.starts_with("fails"))) {
            Some(_) => Verdict::Match(obs_text),
            None => Verdict::Mismatch { observed: obs_text, detail: format!("{source} says `{}` and the 1-D operation succeeds on every lane", truncate(expected, 200)) },
        },
    };
    if let Some(id) = lane_res.iter().position(|r| r.is_err()) {
        return Verdict::Mismatch { detail: format!("1-D operation on lane {} {}, array operation returned a value", idx_text(id), lane_res[id].as_ref().err().unwrap()), observed: obs_text };
    }
    if !consistent(arr) { return Verdict::Mismatch { observed: obs_text, detail: "result violates shape/length consistency".into() } }
    if &arr.get_shape().unwrap() != shape { return Verdict::Mismatch { observed: obs_text, detail: format!("shape differs: theorem says {:?}", shape) } }
    let got = arr.get_elements().unwrap();
    if got.len() != outs.len() { return Verdict::Mismatch { observed: obs_text, detail: "element count differs".into() } }
    let lane_nat: Vec<Option<Vec<Want<R>>>> = lane_vals.iter().map(|lv| native(lv)).collect();
    for (p, &(j, id)) in outs.iter().enumerate() {
        let want = lane_res[id].as_ref().ok().unwrap();
        if j >= want.len() || !want[j].same(&got[p]) {
            return Verdict::Mismatch { detail: format!("output position {p}: lane = input positions {}; 1-D operation on that lane gives {} there, array operation returned {}", idx_text(id),
                want.get(j).map_or("<nothing>".to_string(), |x| x.to_string()), got[p]), observed: obs_text };
        }
        if let Some(w) = lane_nat[id].as_ref().and_then(|n| n.get(j)) {
            if !w.agrees(&got[p]) {
                return Verdict::Mismatch { detail: format!("output position {p}: lane = input positions {}, values {}; the operation returned {}, but the independent reference (plain Rust over the lane values: exact integer arithmetic / comparison of the elements, NaN rules, FIRST position) gives {}",
                    idx_text(id), truncate(&show_list(&lane_vals[id]), 300), got[p], w.show()), observed: obs_text };
            }
        }
    }
    Verdict::Match(obs_text)
}

/// first entries of a long list (a giant lane is never written out)
fn brief<X: std::fmt::Display>(v: &[X]) -> String {
    if v.len() <= 10 { show_list(v) } else { format!("{},… ({} entries, last {})", show_list(&v[..8]), v.len(), v[v.len() - 1]) }
}
fn brief_out<R: Val>(r: &Result<Array<R>, ArrayError>) -> String {
    show_res(r, |a| { let (sh, n) = (a.get_shape().unwrap(), a.len().unwrap()); if n <= 24 { format!("{}:{}", show_list(&sh), show_list(&a.get_elements().unwrap())) } else { format!("{}:<{n} elements, judged in place>", show_list(&sh)) } })
}

/// IN-PLACE JUDGE (giant arrays; in shadow mode also on a share of the ordinary cases): the same three checks as `judge` — result
/// shape, lane oracle (the real 1-D operation on the gathered lane, bit-exact), native value oracle — but lane by lane through the
/// closed form of the native lane reference, without a materialised lane map and without printing the arrays; reports the first
/// differing output position only.
fn judge_big<T: Val, R: Val>(vals: &[T], observed: &Result<Array<R>, ArrayError>, st: &Strided,
    lane_op: &dyn Fn(&Array<T>) -> Result<Array<R>, ArrayError>, native: &dyn Fn(&[T]) -> Option<Vec<Want<R>>>) -> Verdict {
    let obs_text = brief_out(observed);
    let bad = |detail: String| Verdict::Mismatch { observed: obs_text.clone(), detail };
    if st.outer * st.len * st.inner != vals.len() { return bad("HARNESS: native lane reference and array size differ".into()); }
    let got: Option<Vec<R>> = match observed {
        Ok(arr) => {
            if !consistent(arr) { return bad("result violates shape/length consistency".into()); }
            if arr.get_shape().unwrap() != st.shape { return bad(format!("shape differs: the native lane reference says {:?}", st.shape)); }
            let g = arr.get_elements().unwrap();
            if g.len() != st.n_out() { return bad("element count differs".into()); }
            Some(g)
        }
        Err(_) => None,
    };
    let mut visited = 0usize;
    let mut refused = false;
    for q in 0..st.lanes() {
        let lv: Vec<T> = (0..st.len).map(|j| vals[st.pos(q, j)].clone()).collect();
        let where_ = || format!("lane {q} (leading index {}, trailing index {}) = input positions {}", q / st.inner, q % st.inner, brief(&(0..st.len).map(|j| st.pos(q, j)).collect::<Vec<usize>>()));
        let lane_arr = Array::new(lv.clone(), vec![lv.len()]).unwrap();
        let res: Vec<R> = match catch_unwind(AssertUnwindSafe(|| lane_op(&lane_arr))) {
            Ok(Ok(r)) => r.get_elements().unwrap(),
            Ok(Err(_)) => { refused = true; if got.is_some() { return bad(format!("1-D operation fails on {}, array operation returned a value", where_())); } continue; }
            Err(_) => return bad(format!("1-D operation panics on {}", where_())),
        };
        let Some(got) = &got else { continue };
        let nat = native(&lv);
        for j in 0..(if st.scan { st.len } else { 1 }) {
            let p = if st.scan { st.pos(q, j) } else { q };
            if st.out_of(p) != (j, q) { return bad("HARNESS: the two views of the native lane reference disagree".into()); }
            visited += 1;
            if j >= res.len() || !res[j].same(&got[p]) {
                return bad(format!("output position {p}: {}; 1-D operation on that lane gives {} at lane position {j}, array operation returned {}", where_(), res.get(j).map_or("<nothing>".to_string(), |x| x.to_string()), got[p]));
            }
            if let Some(w) = nat.as_ref().and_then(|n| n.get(j)) {
                if !w.agrees(&got[p]) {
                    return bad(format!("output position {p}: {}, values {}; the operation returned {}, but the independent reference (plain Rust over the lane values) gives {} at lane position {j}", where_(), brief(&lv), got[p], w.show()));
                }
            }
        }
    }
    match got {
        None if refused => Verdict::Match(obs_text),
        None => bad("the native lane reference gives a value and the 1-D operation succeeds on every lane".into()),
        Some(g) if visited != g.len() => bad("HARNESS: not every output position was judged".into()),
        Some(_) => Verdict::Match(obs_text),
    }
}

/// two real results, compared in place (bit-identical elements, all NaN alike); `None` = alike
fn differ<R: Val>(a: &Caught<R>, b: &Caught<R>) -> Option<String> {
    match (a, b) {
        (Err(_), Err(_)) => None,
        (Ok(Err(_)), Ok(Err(_))) => None,
        (Ok(Ok(x)), Ok(Ok(y))) => {
            if x.get_shape().unwrap() != y.get_shape().unwrap() { return Some(format!("shapes {:?} and {:?}", x.get_shape().unwrap(), y.get_shape().unwrap())); }
            let (ex, ey) = (x.get_elements().unwrap(), y.get_elements().unwrap());
            if ex.len() != ey.len() { return Some("element counts differ".into()); }
            ex.iter().zip(ey.iter()).position(|(u, v)| !u.same(v)).map(|p| format!("flat position {p}: {} and {}", ex[p], ey[p]))
        }
        _ => Some(format!("outcomes `{}` and `{}`", match a { Ok(r) => brief_out(r), Err(_) => "panic".into() }, match b { Ok(r) => brief_out(r), Err(_) => "panic".into() })),
    }
}

/// a giant case: the plain call judged in place, then the chained call on `Ok(array)` (the array is MOVED into the Result, no copy is
/// kept) compared with it in place
fn run_big<T: Val, R: Val>(a: Array<T>, vals: &[T], st: &Result<Strided, ()>, expected: &str,
    call: &dyn Fn(&Array<T>) -> Result<Array<R>, ArrayError>, call_ch: &dyn Fn(&Result<Array<T>, ArrayError>) -> Result<Array<R>, ArrayError>,
    lane_op: &dyn Fn(&Array<T>) -> Result<Array<R>, ArrayError>, native: &dyn Fn(&[T]) -> Option<Vec<Want<R>>>) -> Verdict {
    let p1: Caught<R> = catch_unwind(AssertUnwindSafe(|| call(&a)));
    let v = match (&p1, st) {
        (Ok(r), Ok(st)) => judge_big(vals, r, st, lane_op, native),
        (Ok(r), Err(())) => compare_default(brief_out(r), expected),
        (Err(_), _) => compare_default("panic".into(), expected),
    };
    if let Verdict::Match(t) = &v {
        let r: Result<Array<T>, ArrayError> = Ok(a);
        let ch: Caught<R> = catch_unwind(AssertUnwindSafe(|| call_ch(&r)));
        if let Some(d) = differ(&p1, &ch) {
            return Verdict::Mismatch { observed: format!("chained: {}", match &ch { Ok(r) => brief_out(r), Err(_) => "panic".into() }), detail: format!("RECEIVER-DIVERGENCE: the chained call on Ok(array) (impl … for Result<Array<T>, ArrayError>) and the plain call (`{t}`) differ: {d}") };
        }
    }
    v
}

/// native oracle, value-valued operations: plain Rust over the lane values, nothing of the crate
fn native_val<T: Val>(op: &str, lane: &[T]) -> Option<Vec<Want<T>>> {
    if lane.is_empty() { return None; }
    if FOLD.contains(&op) || SCAN.contains(&op) {
        // floats: the evaluation order matters (lane oracle only) unless every partial result is exact in any order
        let ints: Vec<i128> = match lane.iter().map(|x| x.int()).collect::<Option<Vec<i128>>>() { Some(v) => v, None => return native_float_exact(op, lane) };
        let prod = op.contains("prod");
        let mut acc: i128 = if prod { 1 } else { 0 };
        let run: Vec<i128> = ints.iter().map(|&x| { acc = if prod { acc.checked_mul(x).unwrap_or(i128::MAX) } else { acc + x }; acc }).collect();
        return Some(if SCAN.contains(&op) { run.into_iter().map(Want::Int).collect() } else { vec![Want::Int(*run.last().unwrap())] });
    }
    let nan_forms = op.starts_with("nan");
    let is_max = op.contains("max");
    if !nan_forms && lane.iter().any(|x| x.nan()) { return Some(vec![Want::Nan]); }
    let kept: Vec<&T> = lane.iter().filter(|x| !x.nan()).collect();
    if kept.is_empty() { return Some(vec![Want::Nan]); }
    let mut best = kept[0];
    for x in &kept[1..] { let o = x.partial_cmp(&best); if (is_max && o == Some(Ordering::Greater)) || (!is_max && o == Some(Ordering::Less)) { best = x; } }
    Some(vec![Want::Is(best.clone())])
}
/// native oracle for float sums / products / running totals on lanes of INTEGER-VALUED finite floats whose absolute values add
/// (multiply) up to at most 2^53 (f32: 2^24): every partial result of any evaluation order is then an integer inside the exactly
/// representable range, so the exact integer result is the only correct answer (0.0 and -0.0 are not told apart here)
fn native_float_exact<T: Val>(op: &str, lane: &[T]) -> Option<Vec<Want<T>>> {
    let lim: f64 = if T::SINGLE { 16777216.0 } else { 9007199254740992.0 };
    let fl: Vec<f64> = lane.iter().map(|x| x.as_f64()).collect::<Option<Vec<f64>>>()?;
    if fl.iter().any(|x| !x.is_finite() || x.fract() != 0.0 || x.abs() > lim) { return None; }
    let prod = op.contains("prod");
    let mut bound: f64 = if prod { 1.0 } else { 0.0 };
    for x in &fl { bound = if prod { bound * x.abs().max(1.0) } else { bound + x.abs() }; if bound > lim { return None; } }
    let mut acc: i128 = if prod { 1 } else { 0 };
    let run: Vec<i128> = fl.iter().map(|&x| { acc = if prod { acc * x as i128 } else { acc + x as i128 }; acc }).collect();
    Some(if SCAN.contains(&op) { run.into_iter().map(|v| Want::Is(T::of_f64(v as f64))).collect() } else { vec![Want::Is(T::of_f64(*run.last().unwrap() as f64))] })
}
/// native oracle, position / count queries
fn native_cnt<T: Val>(op: &str, lane: &[T]) -> Option<Vec<Want<usize>>> {
    if op == "count_nonzero" {
        let z: Vec<bool> = lane.iter().map(|x| x.zero_like()).collect::<Option<Vec<bool>>>()?;
        return Some(vec![Want::Int(z.iter().filter(|b| !**b).count() as i128)]);
    }
    if lane.is_empty() { return None; }
    let is_max = op == "argmax";
    let want = match lane.iter().position(|x| x.nan()) {
        Some(i) => i,
        None => { let mut b = 0; for i in 1..lane.len() { let o = lane[i].partial_cmp(&lane[b]); if (is_max && o == Some(Ordering::Greater)) || (!is_max && o == Some(Ordering::Less)) { b = i; } } b }
    };
    Some(vec![Want::Int(want as i128)])
}

type Caught<R> = std::thread::Result<Result<Array<R>, ArrayError>>;
fn text_of<R: Val>(r: &Caught<R>) -> String { match r { Ok(r) => show_out(r), Err(_) => "panic".into() } }
/// judge the plain call, then require the repeated plain call and the chained call to answer alike
fn finish<R: Val>(p1: Caught<R>, p2: Option<Caught<R>>, ch: Caught<R>, expected: &str, judge1: &dyn Fn(&Result<Array<R>, ArrayError>) -> Verdict) -> Verdict {
    let v = match &p1 { Ok(r) => judge1(r), Err(_) => compare_default("panic".into(), expected) };
    if let Verdict::Match(t) = &v {
        let alike = |x: &str| x == t || (class_of(x) == "err" && class_of(t) == "err");
        let (t2, tc) = (p2.as_ref().map_or_else(|| t.clone(), text_of), text_of(&ch));
        if !alike(&t2) { return Verdict::Mismatch { observed: truncate(t, 2000), detail: format!("the same call a second time answers `{}`", truncate(&t2, 300)) }; }
        if !alike(&tc) {
            // is the chained answer at least what the model + lane oracle accept?  (only for the report)
            return Verdict::Mismatch { observed: format!("chained: {}", truncate(&tc, 2000)), detail: format!("RECEIVER-DIVERGENCE: the chained call on Ok(array) (impl … for Result<Array<T>, ArrayError>) answers `{}`, the plain call `{}`", truncate(&tc, 300), truncate(t, 300)) };
        }
        // remember the full answer of the plain call for the A-B-A re-run
        LAST_PLAIN.with(|l| *l.borrow_mut() = Some(t.clone()));
        return Verdict::Match(truncate(t, 3000));
    }
    v
}
thread_local! { static LAST_PLAIN: RefCell<Option<String>> = RefCell::new(None); static CASE_NO: Cell<usize> = Cell::new(0); }

macro_rules! three { ($a:ident, $T:ty, |$x:ident| $e:expr) => {{
    let p1 = catch_unwind(AssertUnwindSafe(|| { let $x = &$a; $e }));
    // (arrays beyond 16 000 elements: the repeated plain call is left to the A-B-A discipline of the smaller cases)
    let p2 = if $a.len().unwrap_or(0) > 16000 { None } else { Some(catch_unwind(AssertUnwindSafe(|| { let $x = &$a; $e }))) };
    let ch = catch_unwind(AssertUnwindSafe(|| { let r: Result<Array<$T>, ArrayError> = Ok($a.clone()); let $x = &r; $e }));
    (p1, p2, ch)
}} }
/// probe mode (A-B-A): only the plain call, its answer text
macro_rules! probe { ($a:ident, |$x:ident| $e:expr) => {{
    let p1 = catch_unwind(AssertUnwindSafe(|| { let $x = &$a; $e }));
    return Some(Verdict::Match(text_of(&p1)));
}} }

/// `map`: the lane map the result is judged by (`None`: the expected outcome is an error / not a lane answer: outcome classes are
/// compared); `source`: who says so (the model, or the native reference on `ref` cases); `probe`: only run the plain call
/// `big`: judge in place by the closed form of the native lane reference (giant cases); `shadow`: after the ordinary judgement
/// run the in-place judge as well — it must accept what the ordinary path accepted (keeps the giant path honest on small cases)
struct Case<'a> { op: &'a str, dt: &'a str, shape: Vec<usize>, axis: Option<isize>, kd: Option<bool>, vseed: u64, expected: &'a str, map: Option<LaneMap>, source: &'a str, probe: bool,
    big: Option<Result<Strided, ()>>, shadow: Option<Strided>,
    /// value cases: the elements are written out in the case line (`None` = NaN) and the expected text is the kernel model's VALUE answer
    explicit: Option<Vec<Option<i128>>> }
/// the elements of a case: written out (value cases) or drawn from the value class of the element type
fn case_vals<T: Val>(c: &Case, n: usize) -> Vec<T> {
    match &c.explicit {
        Some(e) => e.iter().map(|x| match x { Some(i) => if T::FLOAT { T::of_f64(*i as f64) } else { T::of_int(*i) }, None => T::of_f64(f64::NAN) }).collect(),
        None => gen_vals::<T>(c.dt, n, c.vseed, c.op),
    }
}
thread_local! {
    /// value cases answered by the kernel model / output values on which the native value oracle was compared with it / disagreements
    static KV_CASES: Cell<usize> = Cell::new(0); static KV_VALUES: Cell<usize> = Cell::new(0); static KV_BROKEN: Cell<usize> = Cell::new(0);
}
/// `shape:v,v,…` (`NaN`) of a kernel-model answer
fn parse_val_answer(expected: &str) -> Option<(Vec<usize>, Vec<Option<i128>>)> {
    let body = expected.strip_prefix("ok ")?;
    let (sh, es) = body.split_once(':')?;
    let es: Vec<Option<i128>> = if es == "-" { vec![] } else { es.split(',').map(|x| if x == "NaN" { Some(None) } else { x.parse::<i128>().ok().map(Some) }).collect::<Option<Vec<_>>>()? };
    Some((parse_usize_list(sh), es))
}
/// VALUE CASES, the chain kernel model -> native value oracle: on every output position on which the native oracle (the plain-Rust
/// reference that alone judges the float / giant cases) has an opinion, it must give the value the kernel model (the Lean
/// definitions the kernel theorems are about) gives.  Lane membership comes from the native lane reference.
fn kernel_vs_native<T: Val, R: Val>(c: &Case, vals: &[T], native: &dyn Fn(&[T]) -> Option<Vec<Want<R>>>) -> Option<Verdict> {
    if c.explicit.is_none() || c.probe { return None; }
    KV_CASES.with(|k| k.set(k.get() + 1));
    let (shape, model) = parse_val_answer(c.expected)?;
    let map = match native_map(&c.shape, c.axis, c.kd, family(c.op)) { Some(Ok(m)) => m, _ => return None };
    let bad = |d: String| { KV_BROKEN.with(|k| k.set(k.get() + 1)); Some(Verdict::Mismatch { observed: "n/a".into(), detail: format!("HARNESS: kernel model and native oracle: {d}") }) };
    if map.shape != shape || map.outs.len() != model.len() { return bad(format!("the native lane reference gives shape {:?} with {} positions, the kernel model `{}`", map.shape, map.outs.len(), truncate(c.expected, 200))); }
    let lane_nat: Vec<Option<Vec<Want<R>>>> = map.lanes.iter().map(|l| native(&l.iter().map(|&t| vals[t].clone()).collect::<Vec<T>>())).collect();
    for (p, &(j, id)) in map.outs.iter().enumerate() {
        let Some(w) = lane_nat[id].as_ref().and_then(|n| n.get(j)) else { continue };
        let m: R = match model[p] { Some(i) => if R::FLOAT { R::of_f64(i as f64) } else { R::of_int(i) }, None => R::of_f64(f64::NAN) };
        KV_VALUES.with(|k| k.set(k.get() + 1));
        if model[p].is_none() && !R::FLOAT || !w.agrees(&m) { return bad(format!("output position {p}: the kernel model says {}, the native value oracle {}", m, w.show())); }
    }
    None
}
thread_local! { static SHADOW_RUNS: Cell<usize> = Cell::new(0); static BIG_RUNS: Cell<usize> = Cell::new(0); static BIG_SLOWEST: RefCell<(f64, String)> = RefCell::new((0.0, String::new())); }
/// shadow mode: the in-place judge on an ordinary case that the ordinary judge accepted
fn shadowed<T: Val, R: Val>(v: Verdict, c: &Case, vals: &[T], call: &dyn Fn() -> Result<Array<R>, ArrayError>,
    lane_op: &dyn Fn(&Array<T>) -> Result<Array<R>, ArrayError>, native: &dyn Fn(&[T]) -> Option<Vec<Want<R>>>) -> Verdict {
    let (Verdict::Match(_), Some(st)) = (&v, &c.shadow) else { return v };
    SHADOW_RUNS.with(|c| c.set(c.get() + 1));
    match catch_unwind(AssertUnwindSafe(call)) {
        Ok(r) => match judge_big(vals, &r, st, lane_op, native) {
            Verdict::Mismatch { observed, detail } => Verdict::Mismatch { observed, detail: format!("HARNESS: the in-place judge of the giant cases rejects a result the ordinary judge accepted: {detail}") },
            _ => v,
        },
        Err(_) => v,
    }
}

fn run_any<T: Val>(c: &Case) -> Option<Verdict> {
    let n: usize = c.shape.iter().product();
    let vals: Vec<T> = case_vals::<T>(c, n);
    let a = Array::new(vals.clone(), c.shape.clone()).unwrap();
    let (axis, kd, op, expected) = (c.axis, c.kd, c.op, c.expected);
    macro_rules! cnt { ($m:ident, $tr:ident) => {{
        if c.probe { probe!(a, |x| $tr::$m(x, axis, kd)) }
        if let Some(v) = kernel_vs_native::<T, usize>(c, &vals, &|lane| native_cnt(op, lane)) { return Some(v); }
        if let Some(st) = &c.big { return Some(run_big(a, &vals, st, expected, &|x| $tr::$m(x, axis, kd), &|x| $tr::$m(x, axis, kd), &|l: &Array<T>| $tr::$m(l, None, None), &|lane| native_cnt(op, lane))); }
        let (p1, p2, ch) = three!(a, T, |x| $tr::$m(x, axis, kd));
        let v = finish(p1, p2, ch, expected, &|r| judge(&vals, r, expected, c.map.as_ref(), c.source, &|l: &Array<T>| $tr::$m(l, None, None), &|lane| native_cnt(op, lane)));
        shadowed(v, c, &vals, &|| $tr::$m(&a, axis, kd), &|l: &Array<T>| $tr::$m(l, None, None), &|lane| native_cnt(op, lane))
    }} }
    Some(match op { "count_nonzero" => cnt!(count_nonzero, ArrayCount), "argmax" => cnt!(argmax, ArraySearch), "argmin" => cnt!(argmin, ArraySearch), _ => return None })
}
fn run_num<T: Val + Numeric>(c: &Case) -> Option<Verdict> {
    if !EXTREME.contains(&c.op) { return run_any::<T>(c); }
    let n: usize = c.shape.iter().product();
    let vals: Vec<T> = case_vals::<T>(c, n);
    let a = Array::new(vals.clone(), c.shape.clone()).unwrap();
    let (axis, op, expected) = (c.axis, c.op, c.expected);
    macro_rules! red { ($m:ident) => {{
        if c.probe { probe!(a, |x| ArrayExtrema::$m(x, axis)) }
        if let Some(v) = kernel_vs_native::<T, T>(c, &vals, &|lane| native_val(op, lane)) { return Some(v); }
        if let Some(st) = &c.big { return Some(run_big(a, &vals, st, expected, &|x| ArrayExtrema::$m(x, axis), &|x| ArrayExtrema::$m(x, axis), &|l: &Array<T>| ArrayExtrema::$m(l, None), &|lane| native_val(op, lane))); }
        let (p1, p2, ch) = three!(a, T, |x| ArrayExtrema::$m(x, axis));
        let v = finish(p1, p2, ch, expected, &|r| judge(&vals, r, expected, c.map.as_ref(), c.source, &|l: &Array<T>| ArrayExtrema::$m(l, None), &|lane| native_val(op, lane)));
        shadowed(v, c, &vals, &|| ArrayExtrema::$m(&a, axis), &|l: &Array<T>| ArrayExtrema::$m(l, None), &|lane| native_val(op, lane))
    }} }
    Some(match op { "max" => red!(max), "min" => red!(min), "nanmax" => red!(nanmax), "nanmin" => red!(nanmin), "amax" => red!(amax), "amin" => red!(amin), _ => return None })
}
fn run_ops<T: Val + NumericOps>(c: &Case) -> Option<Verdict> {
    if !(FOLD.contains(&c.op) || SCAN.contains(&c.op)) { return run_num::<T>(c); }
    let n: usize = c.shape.iter().product();
    let vals: Vec<T> = case_vals::<T>(c, n);
    let a = Array::new(vals.clone(), c.shape.clone()).unwrap();
    let (axis, op, expected) = (c.axis, c.op, c.expected);
    macro_rules! red { ($m:ident) => {{
        if c.probe { probe!(a, |x| ArraySumProdDiff::$m(x, axis)) }
        if let Some(v) = kernel_vs_native::<T, T>(c, &vals, &|lane| native_val(op, lane)) { return Some(v); }
        if let Some(st) = &c.big { return Some(run_big(a, &vals, st, expected, &|x| ArraySumProdDiff::$m(x, axis), &|x| ArraySumProdDiff::$m(x, axis), &|l: &Array<T>| ArraySumProdDiff::$m(l, None), &|lane| native_val(op, lane))); }
        let (p1, p2, ch) = three!(a, T, |x| ArraySumProdDiff::$m(x, axis));
        let v = finish(p1, p2, ch, expected, &|r| judge(&vals, r, expected, c.map.as_ref(), c.source, &|l: &Array<T>| ArraySumProdDiff::$m(l, None), &|lane| native_val(op, lane)));
        shadowed(v, c, &vals, &|| ArraySumProdDiff::$m(&a, axis), &|l: &Array<T>| ArraySumProdDiff::$m(l, None), &|lane| native_val(op, lane))
    }} }
    Some(match op {
        "sum" => red!(sum), "prod" => red!(prod), "nansum" => red!(nansum), "nanprod" => red!(nanprod),
        "cumsum" => red!(cumsum), "cumprod" => red!(cumprod), "nancumsum" => red!(nancumsum), "nancumprod" => red!(nancumprod),
        _ => return None,
    })
}
fn dispatch(c: &Case) -> Option<Verdict> {
    match c.dt {
        "i64" | "i64b" | "i64r" | "i64n" => run_ops::<i64>(c), "f64" | "f64s" | "f64r" | "f64n" => run_ops::<f64>(c), "f32" => run_ops::<f32>(c),
        "i8" => run_ops::<i8>(c), "i16" => run_ops::<i16>(c), "i32" => run_ops::<i32>(c),
        "u64" => run_num::<u64>(c), "usize" => run_num::<usize>(c), "isize" => run_num::<isize>(c),
        "u8" => run_num::<u8>(c), "u16" => run_num::<u16>(c), "u32" => run_num::<u32>(c),
        "bool" => run_any::<bool>(c), "str" | "strl" => run_any::<String>(c),
        "i64g" | "i64c" => run_ops::<i64>(c), "f64g" | "f64z" | "f64c" | "f64e" => run_ops::<f64>(c),
        "t3" => run_any::<T3>(c), "t3b" => run_any::<T3b>(c), "tw" => run_any::<TW>(c),
        _ => None,
    }
}
/// the shape of a tag array `i<shape>` without building its elements (giant shapes), other spellings through lib.rs
fn shape_of(s: &str) -> Vec<usize> {
    // (value cases write the array out, `shape:v,v,…` with `n` for NaN)
    if let Some((sh, _)) = s.split_once(':') { return parse_usize_list(sh); }
    match s.strip_prefix('i') { Some(b) if !b.contains('+') => parse_usize_list(b), _ => parse_arr_raw(s).0 }
}
/// the written-out elements of a value case (`None` = NaN)
fn explicit_of(s: &str) -> Option<Vec<Option<i128>>> {
    let (_, es) = s.split_once(':')?;
    if es == "-" { return Some(vec![]); }
    es.split(',').map(|x| if x == "n" { Some(None) } else { x.parse::<i128>().ok().map(Some) }).collect()
}
/// cases with more elements than this are judged in place (`run_big`); all of them are `ref` cases
const BIG_MIN: usize = 500_000;
struct Parsed<'a> { dt: &'a str, shape: Vec<usize>, axis: Option<isize>, kd: Option<bool>, vseed: u64, by_ref: bool, explicit: Option<Vec<Option<i128>>> }
fn parse_case<'a>(op: &str, args: &[&'a str]) -> Option<Parsed<'a>> {
    if args.len() != 5 && !(args.len() == 6 && (args[5] == "ref" || args[5] == "val")) { return None; }
    let by_val = args.len() == 6 && args[5] == "val";
    let explicit = if by_val { let e = explicit_of(args[1])?; if e.len() != shape_of(args[1]).iter().product::<usize>() { return None; } Some(e) } else { None };
    let shape = shape_of(args[1]);
    let axis: Option<isize> = parse_opt(args[2]);
    let kd: Option<bool> = match args[3] { "none" => None, "true" => Some(true), _ => Some(false) };
    let vseed: u64 = args[4].parse().ok()?;
    if !applicable(op, args[0]) { return None; }
    Some(Parsed { dt: args[0], shape, axis, kd, vseed, by_ref: args.len() == 6 && !by_val, explicit })
}
fn mism(observed: &str, detail: String) -> Option<Verdict> { Some(Verdict::Mismatch { observed: observed.to_string(), detail }) }

fn exec(op: &str, args: &[&str], expected: &str) -> Option<Verdict> {
    if op == "refstats" {
        let (v, u, b, aba) = (REF_VALIDATED.with(Cell::get), REF_USED.with(Cell::get), REF_BROKEN.with(Cell::get), ABA_RUNS.with(Cell::get));
        let (big, sh) = (BIG_RUNS.with(Cell::get), SHADOW_RUNS.with(Cell::get));
        let (kc, kv, kb) = (KV_CASES.with(Cell::get), KV_VALUES.with(Cell::get), KV_BROKEN.with(Cell::get));
        let text = format!("ok native lane reference: compared with the model on {v} cases of this run ({b} disagreements), used in place of the model on {u} cases, {big} of them giant (> {BIG_MIN} elements, judged in place; the in-place judge also ran in shadow mode on {sh} ordinary cases); A-B-A re-runs {aba}; kernel model (1-D arms, Lean): answered the VALUES of {kc} cases, the native value oracle was compared with it on {kv} output values ({kb} disagreements)");
        eprintln!("C08 {}", &text[3..]);
        BIG_SLOWEST.with(|b| { let b = b.borrow(); if b.0 > 0.0 { eprintln!("C08 slowest giant case: {:.2} s (`{}`); the rule is < 2 s on a quiet machine, the watchdog is 60 s", b.0, b.1); } });
        if expected != "ref" { return None; }
        return if b > 0 || kb > 0 || (u > 0 && v < 1000) || (big > 0 && sh < 1000) || (big > 0 && kv < 1000) { mism(&text, "a native reference / oracle was used without (enough) validation against the model in the same run".into()) } else { Some(Verdict::Match(text)) };
    }
    let pc = parse_case(op, args)?;
    let fam = family(op);
    let scan = fam == 'S';
    let giant = pc.by_ref && pc.shape.iter().product::<usize>() > BIG_MIN;
    // (giant cases: the lane map is never written out; the closed form is used below)
    let native: Option<Result<Option<LaneMap>, ()>> = if pc.explicit.is_some() { None } else if giant { native_strided(&pc.shape, pc.axis, pc.kd, fam).map(|r| r.map(|_| None)) } else { native_map(&pc.shape, pc.axis, pc.kd, fam).map(|r| r.map(Some)) };
    // which lane map judges the result
    let (map, source, exp_text): (Option<LaneMap>, &str, String) = if pc.explicit.is_some() {
        // value case: the kernel model answers the values; the real answer is compared with that text (and `kernel_vs_native` inside
        // `dispatch` compares the native value oracle with it)
        if expected == "ref" || expected == "bad-op" { return None; }
        (None, "the kernel model", expected.to_string())
    } else if pc.by_ref {
        if expected != "ref" { return None; }
        REF_USED.with(|c| c.set(c.get() + 1));
        match native {
            Some(Ok(m)) => (m, "the native lane reference", "ok <native lane reference>".to_string()),
            Some(Err(())) => (None, "the native lane reference", "err AxisOutOfBounds".to_string()),
            None => return None,
        }
    } else {
        let model = if let Some(body) = expected.strip_prefix("ok ") { match parse_lanes(body, scan) { Some(m) => Some(m), None => return mism("n/a", "unparsable model answer".into()) } } else { None };
        // the chain model -> native reference: the reference must reproduce the model's answer on every case it has an opinion on
        if let Some(nat) = &native {
            let agrees = match (nat, &model) { (Ok(Some(n)), Some(m)) => n == m, (Err(()), None) => class_of(expected) == "err", _ => false };
            REF_VALIDATED.with(|c| c.set(c.get() + 1));
            if !agrees {
                REF_BROKEN.with(|c| c.set(c.get() + 1));
                return mism("n/a", format!("HARNESS: the native lane reference disagrees with the model on this case (model: `{}`)", truncate(expected, 300)));
            }
        }
        (model, "the model", expected.to_string())
    };
    let n_all: usize = pc.shape.iter().product();
    // giant cases: judged in place by the closed form of the reference; every fourth ordinary case: the in-place judge in shadow mode
    let big = if pc.by_ref && n_all > BIG_MIN { BIG_RUNS.with(|c| c.set(c.get() + 1)); native_strided(&pc.shape, pc.axis, pc.kd, fam) } else { None };
    let shadow = if big.is_none() && map.is_some() && n_all <= 20000 && CASE_NO.with(|c| { c.set(c.get() + 1); c.get() % 4 == 0 }) { native_strided(&pc.shape, pc.axis, pc.kd, fam).and_then(Result::ok) } else { None };
    let map = if big.is_some() { None } else { map };
    let c = Case { op, dt: pc.dt, shape: pc.shape, axis: pc.axis, kd: pc.kd, vseed: pc.vseed, expected: &exp_text, map, source, probe: false, big, shadow, explicit: pc.explicit };
    LAST_PLAIN.with(|l| *l.borrow_mut() = None);
    let t_case = std::time::Instant::now();
    let v = dispatch(&c)?;
    if c.big.is_some() {
        let dt = t_case.elapsed().as_secs_f64();
        BIG_SLOWEST.with(|b| { if dt > b.borrow().0 { *b.borrow_mut() = (dt, format!("{op} {}", args.join(" "))); } });
    }
    // A-B-A: run the previous case again; it must answer exactly as it did before this case ran
    let n: usize = c.shape.iter().product();
    let prev = PREV.with(|p| p.borrow_mut().take());
    let mine = LAST_PLAIN.with(|l| l.borrow_mut().take());
    let mut verdict = v;
    if let (Verdict::Match(_), Some((pop, pargs, ptext))) = (&verdict, &prev) {
        let pa: Vec<&str> = pargs.iter().map(String::as_str).collect();
        if let Some(pp) = parse_case(pop, &pa) {
            let pcase = Case { op: pop, dt: pp.dt, shape: pp.shape, axis: pp.axis, kd: pp.kd, vseed: pp.vseed, expected: "", map: None, source: "", probe: true, big: None, shadow: None, explicit: pp.explicit };
            ABA_RUNS.with(|c| c.set(c.get() + 1));
            if let Some(Verdict::Match(again)) = dispatch(&pcase) {
                if &again != ptext {
                    verdict = Verdict::Mismatch { observed: truncate(&again, 2000), detail: format!("A-B-A: after this case the PREVIOUS case `{pop} {}` answers differently; before: `{}`", pargs.join(" "), truncate(ptext, 600)) };
                }
            }
        }
    }
    // remember this case for the next one (cheap cases only: the re-run costs one call)
    if let (Some(t), true) = (mine, n <= 2000) { PREV.with(|p| *p.borrow_mut() = Some((op.to_string(), args.iter().map(|x| x.to_string()).collect(), t))); }
    Some(verdict)
}

/// non-trivial: an axis is given, the array has rank >= 2 and the lane is longer than one
fn nontrivial(_op: &str, args: &[&str]) -> bool {
    if args.len() < 5 { return false; }
    let s = shape_of(args[1]);
    if args[2] == "none" || s.len() < 2 { return false; }
    let ax: isize = args[2].parse().unwrap_or(0);
    let k = if ax < 0 { ax + s.len() as isize } else { ax };
    k >= 0 && (k as usize) < s.len() && s[k as usize] > 1
}

fn main() {
    harness_main(Spec { prop: "C08", gen, exec, nontrivial, hang_secs: 60,
        rule: RULE });
}

const RULE: &str = "17 operations (10 reductions, count_nonzero/argmax/argmin x keepdims none/true/false, 4 scans) x every shape rank<=4 len<=3 (thorough: + rank 5 len<=2) x every axis in both spellings and `none` x i64 / f64 values (f64 with NaN, +-inf, +-0, subnormal, huge), out-of-range axes, seeded random rank 5-6; robustness streams: 14 further element types / value classes (i64 and u64/usize/isize beyond 2^53 and next to the ends of the type, i8/i16/i32/u8/u16/u32 next to their ends, f64 subnormals and NaN first/last/random, f32, bool, String) on every shape rank<=3 and every axis; every zero-length shape x every axis incl. out-of-range; big_shapes (axis lengths 7-17 in every position, > 256 / 1024 / 4096 elements); lanes of 4100 elements with repeated extremes; random shapes with one axis of 7-17. Oracles: per output position the model names the lane; (a) the same real operation with axis=None on that lane must give the bit-identical value, (b) a plain-Rust reference over the lane values (exact integer sum/product/running totals, max/min with NaN rules, count of non-zeros, FIRST position of the extreme) must agree; every case is run twice on the plain receiver and once on Ok(array) through the Result-receiver impl, all three must answer alike. PART 2: hidden state - same-rank shapes that collide under weak keys (polynomial hashes with multipliers 31/33/37/131/257/256 AND equal element count: [c+k,c*m] vs [c,(c+k)*m], also with a leading 3 / trailing 2; collision_shape_pairs(); permuted axis lengths; axis lengths equal modulo 2^8 and 2^16) executed back to back in both orders with the same axis through all three families; the same shape with the values reversed / one element moved by one or one ulp between two runs of the original; a refused axis directly followed by a valid call; A-B-A: after every case the previous case is run again and must answer exactly as before. Exact lengths: every lane length 1..300 in trailing ([2,d], both axes) and inner ([3,d,2]) position. Ranks 7 and 8. NATIVE LANE REFERENCE (plain coordinate arithmetic for result shape and lane membership) - compared with the model's answer on EVERY case the model answers (non-empty arrays; the closing refstats line reports the count and fails when the reference is used without >= 1000 validations in the same run) and used in place of the quadratic model on the cases marked `ref`: more than 8192 lanes ([9000,3], [3,9000], [100,2,90], [8193,2], [2,8193], [91,2,91]; boundary [8192,2]), huge_shapes() (16385..90000 elements, [70000], [2,70000], [70000,2], [2,65539]; thorough [140001], [7,131,151], [20000,2], rank 6) on every axis with at most ~20000 lanes, and the lengths 121..300 of [3,d,2] - value oracles (a) and (b) unchanged. PART 3: giant arrays (`ref` cases above 500 000 elements, judged in place through the closed form of the native lane reference whose written-out form is what is compared with the model on every ordinary case; the in-place judge also runs in shadow mode on every fourth ordinary case): 2^20 elements exactly / 8 below / up to 2.1 million, ranks 1-4 (thorough 5), first / middle / last axis in both spellings and the flattened form, extents that are / are not multiples of 64, near-distinct scrambled i64 / f64 values (every lane has its own sum, extreme, position, sign pattern, zero count), quick 30 cases over all 17 operations, thorough ~140 incl. ~1000-2000 lanes; exact native oracle for float sums / products of integer-valued lanes below 2^53; value relations: all-zero arrays mixing 0.0 / -0.0, constant arrays (0, -0.0, 0.1, NaN, inf, MAX, i64::MIN, 2^53+1 ...), values == or one ulp apart, on every operation x axis of eight shapes and on 4100-element lanes; element layout: count family on Tuple3<i32,i32,i32> (12 bytes), Tuple3<u8,u8,u8> (3 bytes), Tuple2<String,i32> (32 bytes) and strings with a common stem of 32..1024 bytes; axis arguments whose narrowed / wrapped image is a valid axis (a + 2^8 / 2^16 / 2^31 / 2^32, isize::MIN / MAX). VALUE CASES (`val`): the array is written out and the KERNEL MODEL (ArrModel/C08Kernels.lean: the 1-D arms of the seventeen operations, proved in Props/C08.lean; Elem.int for i64/i32/i16/i8/u64/usize/isize/u8/u16/u32 with lane sums / products inside the type, Elem.nanInt for f64/f32 on small integers with NaN nowhere / first / last / random / everywhere) answers the VALUES, compared with the crate's answer directly: every lane of length 0..3 over {NaN,-1,0,2}, every shape rank<=3 len<=3 and rank 4 len<=2 x every axis spelling x every operation x keepdims, every zero-length shape x every axis incl. out of range, big_shapes, 4100-element lanes with repeated extremes, random ranks 1-6; the native value oracle is compared with the kernel model on every output value of these cases (refstats reports the count and fails on a disagreement, or when giant cases ran with fewer than 1000 such comparisons). non-trivial = rank>=2, axis given, lane longer than 1";
