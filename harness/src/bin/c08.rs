//! C08 — axis-wise reductions and scans equal the 1-D operation on every lane.  Index protocol:
//! the model answers, for every output position, with the input positions of the lane; this harness extracts that lane
//! from the real input and judges the real result at that position by TWO oracles:
//!  (a) lane oracle: the SAME real operation with `axis = None` on the lane, compared bit-exactly (all element types, all
//!      operations; the only oracle for float sums/products, where the evaluation order matters);
//!  (b) native oracle: a plain Rust fold over the lane values that calls nothing of the crate (exact i128 arithmetic for
//!      integer sum/prod/cumsum/cumprod and their NaN forms; max/min/nanmax/nanmin by `partial_cmp`, NaN wins / NaN ignored;
//!      count of non-zeros; FIRST position of the extreme, the first NaN winning) — the lane oracle cannot see a defect that
//!      lives in the 1-D body itself, and the statement covers that body too ("with no axis the operation acts on the
//!      flattened array", "position of the extreme").
//! Every case is executed three times: the plain call, the plain call again (same answer required) and the chained call on
//! `Ok(array)` through `impl … for Result<Array<T>, ArrayError>` (same answer required).
use arrharness::*;
use std::cmp::Ordering;
use std::panic::{catch_unwind, AssertUnwindSafe};

const REDUCE: [&str; 10] = ["sum", "prod", "nansum", "nanprod", "max", "min", "nanmax", "nanmin", "amax", "amin"];
const COUNT: [&str; 3] = ["count_nonzero", "argmax", "argmin"];
const SCAN: [&str; 4] = ["cumsum", "cumprod", "nancumsum", "nancumprod"];
const FOLD: [&str; 4] = ["sum", "prod", "nansum", "nanprod"];
const EXTREME: [&str; 6] = ["max", "min", "nanmax", "nanmin", "amax", "amin"];

/// element types / value classes of the cross-type sweep (`i64` and `f64` are the original two streams)
const DT_OPS: [&str; 8] = ["i64", "f64", "i64b", "i8", "i16", "i32", "f64s", "f32"];              // NumericOps: every operation
const DT_NUM: [&str; 6] = ["u64", "usize", "isize", "u8", "u16", "u32"];                           // Numeric: extrema + count family
const DT_ANY: [&str; 2] = ["bool", "str"];                                                         // ArrayElement: count family
fn applicable(op: &str, dt: &str) -> bool {
    if DT_OPS.contains(&dt) { return true; }
    if DT_NUM.contains(&dt) { return EXTREME.contains(&op) || COUNT.contains(&op); }
    DT_ANY.contains(&dt) && COUNT.contains(&op)
}
fn all_dtypes() -> Vec<&'static str> { DT_OPS.iter().chain(DT_NUM.iter()).chain(DT_ANY.iter()).copied().collect() }

// ---------------------------------------------------------------- values

fn vals_i64(n: usize, vseed: u64, prodlike: bool) -> Vec<i64> {
    let mut r = Rng::new(vseed ^ 0xC08);
    (0..n).map(|i| if prodlike { if i < 8 { [-2, -1, 0, 1, 2, 3, 1, -1][r.below(8)] } else { [-1, 1, 1, -1, 0, 1, 1, 1][r.below(8)] } } else { r.range(-4, 4) }).collect()
}
fn vals_f64(n: usize, vseed: u64) -> Vec<f64> {
    let mut r = Rng::new(vseed ^ 0xF08);
    let special = vseed % 3; // 0: finite only, 1: with NaN, 2: with NaN and infinities
    (0..n).map(|_| match r.below(16) {
        0 if special >= 1 => f64::NAN,
        1 if special == 2 => f64::INFINITY,
        2 if special == 2 => f64::NEG_INFINITY,
        3 => -0.0, 4 => 0.0, 5 => 0.5, 6 => -2.25, 7 => 1e300, 8 => -1e300, 9 => 1e-310,
        _ => r.range(-5, 5) as f64,
    }).collect()
}

const P53: i128 = 1 << 53;
/// integer value classes inside `lo..=hi`.  Sums and products (and every prefix / every lane of them) stay inside the type
/// (the harness is built with overflow checks): the absolute values are drawn against a budget.
/// Extreme / count / position queries get: values next to the ends of the type, clusters of DISTINCT values above 2^53
/// (which collapse to one f64), many repeated extremes, and small values.
fn vals_int(n: usize, vseed: u64, op: &str, lo: i128, hi: i128) -> Vec<i128> {
    let mut r = Rng::new(vseed ^ 0x1B08);
    let wide = hi > (1 << 60);
    let clip = |v: i128| v.max(lo).min(hi);
    if op.contains("prod") {
        let big = if wide { P53 + 1 } else { (hi / 5).max(2) };
        let cands = [1, 1, -1, 1, -1, 2, -2, 3, big, 1, 1, -1, 1, 1, 0, 1, 1, 1, -1, 1, 1, 1, 1, 1];
        let mut budget = hi;
        let zero_ok = vseed % 2 == 0;
        return (0..n).map(|_| {
            let mut v = clip(cands[r.below(cands.len())]);
            if v == 0 && !zero_ok { v = 1; }
            let m = v.abs();
            if m >= 2 { if m > budget { v = if v < 0 && lo < 0 { -1 } else { 1 }; } else { budget /= m; } }
            v
        }).collect();
    }
    if op.contains("sum") {
        let cands: Vec<i128> = if wide { vec![P53 + 1, P53 + 2, -(P53 + 1), P53 + 3, 2 * P53 + 1, 3, -7, 1, 0, -(P53 + 2), (1 << 60) + 1, -1, 2, 0] }
            else { vec![hi / 4, -(hi / 4), hi / 8 + 1, 3, -2, 1, 0, -1, 2, -3, hi / 2, 0] };
        let mut budget = hi;
        let sparse = n > 64;
        return (0..n).map(|_| {
            if sparse && r.below(4) != 0 { return 0; }
            let v = clip(cands[r.below(cands.len())]);
            if v.abs() > budget { 0 } else { budget -= v.abs(); v }
        }).collect();
    }
    let top: Vec<i128> = if wide { vec![hi, hi - 1, hi - 2, P53, P53 + 1, P53 + 2, P53 + 3, 2 * P53 + 1, 2 * P53 + 2] } else { vec![hi, hi - 1, hi - 2, hi - 3] };
    let bot: Vec<i128> = if lo < 0 { if wide { vec![lo, lo + 1, lo + 2, -P53, -P53 - 1, -P53 - 2, -P53 - 3] } else { vec![lo, lo + 1, lo + 2] } } else { vec![0, 1, 2] };
    let small: Vec<i128> = (-4..=4).map(clip).collect();
    (0..n).map(|_| match vseed % 5 {
        0 => match r.below(3) { 0 => top[r.below(top.len())], 1 => bot[r.below(bot.len())], _ => small[r.below(small.len())] },
        // a cluster of neighbouring values far above 2^53 (64-bit types) / next to the upper end: the extreme is rarely the first
        1 => if wide { P53 + r.below(4) as i128 } else { hi - r.below(4) as i128 },
        2 => if lo < 0 { if wide { -P53 - r.below(4) as i128 } else { lo + r.below(4) as i128 } } else { r.below(3) as i128 },
        3 => if wide { if r.below(2) == 0 { hi - r.below(3) as i128 } else { 2 * P53 + r.below(3) as i128 } } else { hi - r.below(2) as i128 },
        _ => if r.below(12) == 0 { top[r.below(top.len())] } else { small[r.below(small.len())] },
    }).collect()
}
/// float value classes: subnormals, signed zeros, the ends of the range, NaN placed first / last / at random, infinities
fn vals_flt(n: usize, vseed: u64, single: bool) -> Vec<f64> {
    let mut r = Rng::new(vseed ^ 0xF1F0);
    let cands: Vec<f64> = if single {
        vec![1e-45, -1e-45, f32::MIN_POSITIVE as f64, -0.0, 0.0, 1.0, -1.0, f32::MAX as f64, -(f32::MAX as f64), 0.1f32 as f64, 16777216.0, 3.0, -2.5, 2.0, 0.0, -0.0]
    } else {
        vec![5e-324, -5e-324, 1e-310, f64::MIN_POSITIVE, -0.0, 0.0, 1.0, -1.0, f64::MAX, -f64::MAX, 0.1, 3.0, 9007199254740994.0, -2.5, 2.0, -0.0]
    };
    let mode = vseed % 6;
    let mut v: Vec<f64> = (0..n).map(|_| match (mode, r.below(7)) {
        (3, 0) => f64::NAN,
        (4, 0) => f64::INFINITY, (4, 1) => f64::NEG_INFINITY, (4, 2) => f64::NAN,
        (5, _) => if r.below(3) == 0 { cands[r.below(cands.len())] } else { f64::NAN },
        _ => cands[r.below(cands.len())],
    }).collect();
    if n > 0 { if mode == 1 { v[0] = f64::NAN; } if mode == 2 { v[n - 1] = f64::NAN; } }
    v
}

/// what the two oracles need to know about an element type
trait Val: ArrayElement + Clone + std::fmt::Display + PartialOrd + 'static {
    const LO: i128 = 0; const HI: i128 = 1; const FLOAT: bool = false; const SINGLE: bool = false;
    /// bit-identical (all NaN alike)
    fn same(&self, o: &Self) -> bool { self == o }
    fn nan(&self) -> bool { false }
    /// exact value of an integer element
    fn int(&self) -> Option<i128> { None }
    /// `Some(is zero)` where "zero" is unambiguous (numbers, bool)
    fn zero_like(&self) -> Option<bool> { None }
    fn of_int(i: i128) -> Self;
    fn of_f64(_x: f64) -> Self { Self::of_int(0) }
}
macro_rules! val_int { ($($t:ty),*) => { $(impl Val for $t {
    const LO: i128 = <$t>::MIN as i128; const HI: i128 = <$t>::MAX as i128;
    fn int(&self) -> Option<i128> { Some(*self as i128) }
    fn zero_like(&self) -> Option<bool> { Some(*self == 0) }
    fn of_int(i: i128) -> Self { i as $t }
})* } }
val_int!(i8, i16, i32, i64, isize, u8, u16, u32, u64, usize);
impl Val for f64 {
    const FLOAT: bool = true;
    fn same(&self, o: &Self) -> bool { (self.is_nan() && o.is_nan()) || self.to_bits() == o.to_bits() }
    fn nan(&self) -> bool { self.is_nan() }
    fn zero_like(&self) -> Option<bool> { Some(*self == 0.0) }
    fn of_int(i: i128) -> Self { i as f64 }
    fn of_f64(x: f64) -> Self { x }
}
impl Val for f32 {
    const FLOAT: bool = true; const SINGLE: bool = true;
    fn same(&self, o: &Self) -> bool { (self.is_nan() && o.is_nan()) || self.to_bits() == o.to_bits() }
    fn nan(&self) -> bool { self.is_nan() }
    fn zero_like(&self) -> Option<bool> { Some(*self == 0.0) }
    fn of_int(i: i128) -> Self { i as f32 }
    fn of_f64(x: f64) -> Self { x as f32 }
}
impl Val for bool {
    fn zero_like(&self) -> Option<bool> { Some(!*self) }
    fn of_int(i: i128) -> Self { i.rem_euclid(3) != 0 }
}
impl Val for String {
    fn of_int(i: i128) -> Self { ["", "0", "a", "ab", "b", "zz", "Z", "0", "zz", "10", "1", "a"][i.rem_euclid(12) as usize].to_string() }
}

fn gen_vals<T: Val>(dt: &str, n: usize, vseed: u64, op: &str) -> Vec<T> {
    match dt {
        "i64" => vals_i64(n, vseed, op.contains("prod")).into_iter().map(|x| T::of_int(x as i128)).collect(),
        "f64" => vals_f64(n, vseed).into_iter().map(T::of_f64).collect(),
        "bool" | "str" => { let mut r = Rng::new(vseed ^ 0x57); (0..n).map(|_| T::of_int(r.below(12) as i128)).collect() }
        _ if T::FLOAT => vals_flt(n, vseed, T::SINGLE).into_iter().map(T::of_f64).collect(),
        _ => vals_int(n, vseed, op, T::LO, T::HI).into_iter().map(T::of_int).collect(),
    }
}

// ---------------------------------------------------------------- gen

fn axes_of(nd: isize) -> Vec<String> {
    let mut axes: Vec<String> = vec!["none".into()];
    for a in 0..nd { axes.push(a.to_string()); axes.push((a - nd).to_string()); }
    axes
}

fn gen(tier: &str, seed: u64, out: &mut dyn FnMut(String)) {
    let thorough = tier == "thorough";
    let mut rng = Rng::new(seed);
    // corpus: the rank-4 middle-axis cases that the pinned tree got wrong
    for l in ["sum i64 i2,3,2,2 1 none 1", "cumsum i64 i2,3,2,2 1 none 1", "sum f64 i2,2,2,2 2 none 4", "argmax i64 i2,3,2,2 -3 none 2", "max f64 i1,2,3,2 1 none 5"] { out(l.to_string()); }
    // corpus 2: the classes of the round-2 seeded changes (distinct integers above 2^53 that tie as f64; NaN inside a float
    // lane on the chained receiver; repeated maxima in a lane longer than 4096)
    for l in ["max i64b i2,3 1 none 1", "amax u64 i2,3 0 none 1", "max i64b i6 none none 6", "cumprod f64s i2,3 1 none 1", "cumprod f64 i2,3 -2 none 4",
              "argmax i64 i4100 none none 3", "argmax u8 i4100 0 none 1"] { out(l.to_string()); }
    let mut all = shapes(1, 4, 1, 3);
    if thorough { all.extend(shapes(5, 5, 1, 2)); }
    let ops: Vec<&str> = REDUCE.iter().chain(COUNT.iter()).chain(SCAN.iter()).copied().collect();
    for s in &all {
        let nd = s.len() as isize;
        let axes = axes_of(nd);
        for op in &ops { for ax in &axes { for dt in ["i64", "f64"] {
            let kds: Vec<&str> = if COUNT.contains(op) { vec!["none", "true", "false"] } else { vec!["none"] };
            for kd in kds {
                let nseeds = if thorough { 3 } else { 1 };
                for k in 0..nseeds { out(format!("{op} {dt} {} {ax} {kd} {}", tag(s), (rng.next() % 1000) * 3 + k)); }
            }
        } } }
        // out-of-range axes: must be an error (C09 owns the requirement; compared here as well)
        for bad in [nd, nd + 1, -nd - 1] { for op in ["sum", "max", "cumsum", "argmax", "count_nonzero", "nanmin"] {
            out(format!("{op} i64 {} {bad} none 0", tag(s)));
        } }
    }
    // random: rank 5 (and 6), lengths up to 4 (3)
    let n_rand = if thorough { 6000 } else { 1500 };
    for _ in 0..n_rand {
        let nd = 5 + rng.below(2);
        let s: Vec<usize> = (0..nd).map(|_| 1 + rng.below(if nd == 6 { 2 } else { 3 })).collect();
        let op = *rng.pick(&ops);
        let ax = rng.below(nd) as isize; let ax = if rng.below(2) == 0 { ax } else { ax - nd as isize };
        let kd = if COUNT.contains(&op) { *rng.pick(&["none", "true", "false"]) } else { "none" };
        out(format!("{op} {} {} {ax} {kd} {}", *rng.pick(&["i64", "f64"]), tag(&s), rng.next() % 3000));
    }

    // ---------------- robustness streams (FRAMEWORK.md) ----------------
    let dts = all_dtypes();
    let new_dts: Vec<&str> = dts.iter().copied().filter(|d| *d != "i64" && *d != "f64").collect();
    let kd_all = ["none", "true", "false"];
    // (3) element types / value classes: every operation x every axis spelling x every further element type, on every shape of
    //     rank <= 3 (len <= 3) plus rank-4 shapes whose middle axes matter; the value class rotates with the seed
    let mut tshapes = shapes(1, 3, 1, 3);
    tshapes.extend([vec![2, 3, 2, 2], vec![2, 1, 2, 3], vec![1, 2, 3, 2], vec![6], vec![2, 6], vec![7, 2]]);
    if thorough { tshapes.extend(shapes(4, 4, 1, 2)); tshapes.extend([vec![3, 3, 3, 3], vec![2, 2, 3, 2, 2]]); }
    let mut k = 0u64;
    for s in &tshapes { for op in &ops { for ax in &axes_of(s.len() as isize) { for dt in &new_dts {
        if !applicable(op, dt) { continue; }
        let kds: Vec<&str> = if COUNT.contains(op) { if thorough { kd_all.to_vec() } else { vec![kd_all[(k % 3) as usize]] } } else { vec!["none"] };
        for kd in kds { let reps = if thorough { 3 } else { 1 }; for _ in 0..reps { k += 1; out(format!("{op} {dt} {} {ax} {kd} {}", tag(s), (rng.next() % 997) * 30 + k % 30)); } }
    } } } }
    // (2) zero-length axes: every operation, every axis (both spellings, none, out of range), keepdims, three element types
    for s in &zero_shapes() {
        let nd = s.len() as isize;
        let mut axes = axes_of(nd); axes.push(nd.to_string()); axes.push((-nd - 1).to_string());
        for op in &ops { for ax in &axes { for dt in ["i64", "f64", "u8", "i8", "str"] {
            if !applicable(op, dt) { continue; }
            let kds: Vec<&str> = if COUNT.contains(op) { kd_all.to_vec() } else { vec!["none"] };
            for kd in kds { out(format!("{op} {dt} {} {ax} {kd} {}", tag(s), rng.next() % 60)); }
        } } }
    }
    // (1) sizes: axis lengths 7..17 in every position, element counts > 256 / 1024 / 4096; the element type rotates.
    //     The model driver is quadratic in the element count, so shapes above 2000 elements get fewer axis/keepdims combinations.
    let mut j = 0usize;
    for s in &big_shapes() {
        let n: usize = s.iter().product();
        let nd = s.len() as isize;
        let axes: Vec<String> = if n > 2000 { let mut a = vec!["none".to_string(), (nd - 1).to_string()]; if nd > 1 { a.push((-nd).to_string()); } else { a.push("-1".into()); } a } else { axes_of(nd) };
        for ax in &axes { for op in &ops {
            let kds: Vec<&str> = if !COUNT.contains(op) { vec!["none"] } else if n > 2000 { vec![if ax == "none" { "true" } else { "none" }] } else { kd_all.to_vec() };
            for kd in kds {
                // two element types per combination, walking through all applicable ones
                let cands: Vec<&str> = dts.iter().copied().filter(|d| applicable(op, d)).collect();
                for t in 0..2 { j += 1; let dt = cands[(j * 7 + t * 3) % cands.len()]; out(format!("{op} {dt} {} {ax} {kd} {}", tag(s), rng.next() % 30000)); }
            }
        } }
    }
    //     lanes longer than 4096 with repeated extreme values (small value ranges / clusters => many ties): the position and
    //     extreme queries on every applicable element type, the other operations on one
    let mut long: Vec<(Vec<usize>, Vec<&str>)> = vec![(vec![4100], vec!["none", "0", "-1"]), (vec![2, 4100], vec!["1"])];
    if thorough { long.extend([(vec![4100, 2], vec!["0", "-2"]), (vec![1, 4200, 1], vec!["1", "-2", "none"]), (vec![3, 1400], vec!["none"]), (vec![2, 4100], vec!["-1", "none"])]); }
    for (s, axes) in &long { for ax in axes {
        for op in &ops {
            let kd = if COUNT.contains(op) && ax != &"none" { "true" } else { "none" };
            for dt in &dts {
                if !applicable(op, dt) { continue; }
                let query = COUNT.contains(op) || EXTREME.contains(op);
                if !query && !["i64", "f64s", "i32"].contains(dt) { continue; }
                let reps = if query && ["i64", "u8", "f64", "i64b"].contains(dt) { 3 } else { 1 };
                for _ in 0..reps { out(format!("{op} {dt} {} {ax} {kd} {}", tag(s), rng.next() % 30000)); }
            }
        }
    } }
    // (5)+random: further element types on random shapes of rank 1..5 with one long axis (7..17) in a random position
    let n_rand2 = if thorough { 12000 } else { 3000 };
    for _ in 0..n_rand2 {
        let nd = 1 + rng.below(5);
        let mut s: Vec<usize> = (0..nd).map(|_| 1 + rng.below(3)).collect();
        if rng.below(3) != 0 { let p = rng.below(nd); s[p] = 7 + rng.below(11); }
        let op = *rng.pick(&ops);
        let cands: Vec<&str> = dts.iter().copied().filter(|d| applicable(op, d)).collect();
        let dt = *rng.pick(&cands);
        let ax = if rng.below(8) == 0 { "none".to_string() } else { let a = rng.below(nd) as isize; (if rng.below(2) == 0 { a } else { a - nd as isize }).to_string() };
        let kd = if COUNT.contains(&op) { *rng.pick(&kd_all) } else { "none" };
        out(format!("{op} {dt} {} {ax} {kd} {}", tag(&s), rng.next() % 30000));
    }
}

// ---------------------------------------------------------------- exec

/// model answer -> (shape, per output position (position inside the lane, lane id), lanes)
fn parse_lanes(s: &str) -> Option<(Vec<usize>, Vec<(usize, usize)>, Vec<Vec<usize>>)> {
    let (sh, body) = s.split_once(':')?;
    let shape = parse_usize_list(sh);
    let mut lanes: Vec<Vec<usize>> = vec![];
    let mut outs: Vec<(usize, usize)> = vec![];
    let mut lane_of_out: Vec<usize> = vec![];
    if body != "-" {
        for el in body.split('|') {
            if let Some((j, k)) = el.split_once('=') {
                let id = *lane_of_out.get(k.parse::<usize>().ok()?)?;
                outs.push((j.parse().ok()?, id)); lane_of_out.push(id);
            } else {
                lanes.push(if el == "e" { vec![] } else { parse_usize_list(el) });
                outs.push((usize::MAX, lanes.len() - 1)); lane_of_out.push(lanes.len() - 1);
            }
        }
    }
    Some((shape, outs, lanes))
}

fn show_out<R: Val>(r: &Result<Array<R>, ArrayError>) -> String {
    show_res(r, |a| format!("{}:{}", show_list(&a.get_shape().unwrap()), show_list(&a.get_elements().unwrap())))
}

/// what the native oracle expects at one output position
enum Want<R> { Int(i128), Is(R), Nan }
impl<R: Val> Want<R> {
    fn agrees(&self, got: &R) -> bool {
        match self { Want::Int(i) => got.int() == Some(*i), Want::Is(v) => got.partial_cmp(v) == Some(Ordering::Equal), Want::Nan => got.nan() }
    }
    fn show(&self) -> String { match self { Want::Int(i) => i.to_string(), Want::Is(v) => v.to_string(), Want::Nan => "NaN".into() } }
}

/// compare one real result against the model's lane map: shape, consistency, then per output position the lane oracle
/// (`lane_op`, the same real 1-D operation, bit-exact) and the native oracle (`native`: per lane the expected values, one for a
/// reduction, one per lane position for a scan; `None` = no native reference for this operation / element type)
fn judge<T: Val, R: Val>(vals: &[T], observed: &Result<Array<R>, ArrayError>, expected: &str, scan: bool,
    lane_op: &dyn Fn(&Array<T>) -> Result<Array<R>, ArrayError>, native: &dyn Fn(&[T]) -> Option<Vec<Want<R>>>) -> Verdict {
    let obs_text = show_out(observed);
    if !expected.starts_with("ok ") { return compare_default(obs_text, expected); }
    let (shape, outs, lanes) = match parse_lanes(&expected[3..]) { Some(x) => x, None => return Verdict::Mismatch { observed: obs_text, detail: "unparsable model answer".into() } };
    // lane values and the 1-D operation on each distinct lane, once
    let mut lane_vals: Vec<Vec<T>> = Vec::with_capacity(lanes.len());
    let mut lane_res: Vec<Result<Vec<R>, String>> = Vec::with_capacity(lanes.len());
    for l in &lanes {
        if scan && l.is_empty() { return Verdict::Mismatch { observed: obs_text, detail: "unparsable model answer (empty scan element)".into() } }
        let idxs: &[usize] = if scan { &l[1..] } else { &l[..] };
        if idxs.iter().any(|&t| t >= vals.len()) { return Verdict::Mismatch { observed: obs_text, detail: "model names an input position outside the array".into() } }
        let lv: Vec<T> = idxs.iter().map(|&t| vals[t].clone()).collect();
        let lane_arr = Array::new(lv.clone(), vec![lv.len()]).unwrap();
        lane_res.push(match catch_unwind(AssertUnwindSafe(|| lane_op(&lane_arr))) {
            Ok(Ok(r)) => Ok(r.get_elements().unwrap()),
            Ok(Err(e)) => Err(format!("fails: {}", err_name(&e))),
            Err(_) => Err("panics".to_string()),
        });
        lane_vals.push(lv);
    }
    let idx_text = |id: usize| truncate(&show_list(if scan { &lanes[id][1..] } else { &lanes[id][..] }), 300);
    let arr = match observed {
        Ok(a) => a,
        // the model runs a lane-collecting body that always succeeds; the real 1-D body may refuse a lane (max / argmax of an
        // empty lane): then, and only then, the refusal of the array operation is the lane-wise answer
        Err(_) => return match lane_res.iter().position(|r| matches!(r, Err(m) if m.starts_with("fails"))) {
            Some(_) => Verdict::Match(obs_text),
            None => Verdict::Mismatch { observed: obs_text, detail: format!("model says `{}` and the 1-D operation succeeds on every lane", truncate(expected, 200)) },
        },
    };
    if let Some(id) = lane_res.iter().position(|r| r.is_err()) {
        return Verdict::Mismatch { detail: format!("1-D operation on lane {} {}, array operation returned a value", idx_text(id), lane_res[id].as_ref().err().unwrap()), observed: obs_text };
    }
    if !consistent(arr) { return Verdict::Mismatch { observed: obs_text, detail: "result violates shape/length consistency".into() } }
    if arr.get_shape().unwrap() != shape { return Verdict::Mismatch { observed: obs_text, detail: format!("shape differs: theorem says {:?}", shape) } }
    let got = arr.get_elements().unwrap();
    if got.len() != outs.len() { return Verdict::Mismatch { observed: obs_text, detail: "element count differs".into() } }
    let lane_nat: Vec<Option<Vec<Want<R>>>> = lane_vals.iter().map(|lv| native(lv)).collect();
    for (p, &(j0, id)) in outs.iter().enumerate() {
        let j = if scan { if j0 == usize::MAX { lanes[id][0] } else { j0 } } else { 0 };
        let want = lane_res[id].as_ref().ok().unwrap();
        if j >= want.len() || !want[j].same(&got[p]) {
            return Verdict::Mismatch { detail: format!("output position {p}: lane = input positions {}; 1-D operation on that lane gives {} there, array operation returned {}", idx_text(id),
                want.get(j).map_or("<nothing>".to_string(), |x| x.to_string()), got[p]), observed: obs_text };
        }
        if let Some(w) = lane_nat[id].as_ref().and_then(|n| n.get(j)) {
            if !w.agrees(&got[p]) {
                return Verdict::Mismatch { detail: format!("output position {p}: lane = input positions {}, values {}; the operation returned {}, but the independent reference (plain Rust over the lane values: exact integer arithmetic / comparison of the elements, NaN rules, FIRST position) gives {}",
                    idx_text(id), truncate(&show_list(&lane_vals[id]), 300), got[p], w.show()), observed: obs_text };
            }
        }
    }
    Verdict::Match(obs_text)
}

/// native oracle, value-valued operations: plain Rust over the lane values, nothing of the crate
fn native_val<T: Val>(op: &str, lane: &[T]) -> Option<Vec<Want<T>>> {
    if lane.is_empty() { return None; }
    if FOLD.contains(&op) || SCAN.contains(&op) {
        let ints: Vec<i128> = lane.iter().map(|x| x.int()).collect::<Option<Vec<i128>>>()?;     // floats: evaluation order matters, lane oracle only
        let prod = op.contains("prod");
        let mut acc: i128 = if prod { 1 } else { 0 };
        let run: Vec<i128> = ints.iter().map(|&x| { acc = if prod { acc.checked_mul(x).unwrap_or(i128::MAX) } else { acc + x }; acc }).collect();
        return Some(if SCAN.contains(&op) { run.into_iter().map(Want::Int).collect() } else { vec![Want::Int(*run.last().unwrap())] });
    }
    let nan_forms = op.starts_with("nan");
    let is_max = op.contains("max");
    if !nan_forms && lane.iter().any(|x| x.nan()) { return Some(vec![Want::Nan]); }
    let kept: Vec<&T> = lane.iter().filter(|x| !x.nan()).collect();
    if kept.is_empty() { return Some(vec![Want::Nan]); }
    let mut best = kept[0];
    for x in &kept[1..] { let o = x.partial_cmp(&best); if (is_max && o == Some(Ordering::Greater)) || (!is_max && o == Some(Ordering::Less)) { best = x; } }
    Some(vec![Want::Is(best.clone())])
}
/// native oracle, position / count queries
fn native_cnt<T: Val>(op: &str, lane: &[T]) -> Option<Vec<Want<usize>>> {
    if op == "count_nonzero" {
        let z: Vec<bool> = lane.iter().map(|x| x.zero_like()).collect::<Option<Vec<bool>>>()?;
        return Some(vec![Want::Int(z.iter().filter(|b| !**b).count() as i128)]);
    }
    if lane.is_empty() { return None; }
    let is_max = op == "argmax";
    let want = match lane.iter().position(|x| x.nan()) {
        Some(i) => i,
        None => { let mut b = 0; for i in 1..lane.len() { let o = lane[i].partial_cmp(&lane[b]); if (is_max && o == Some(Ordering::Greater)) || (!is_max && o == Some(Ordering::Less)) { b = i; } } b }
    };
    Some(vec![Want::Int(want as i128)])
}

type Caught<R> = std::thread::Result<Result<Array<R>, ArrayError>>;
fn text_of<R: Val>(r: &Caught<R>) -> String { match r { Ok(r) => show_out(r), Err(_) => "panic".into() } }
/// judge the plain call, then require the repeated plain call and the chained call to answer alike
fn finish<R: Val>(p1: Caught<R>, p2: Caught<R>, ch: Caught<R>, expected: &str, judge1: &dyn Fn(&Result<Array<R>, ArrayError>) -> Verdict) -> Verdict {
    let v = match &p1 { Ok(r) => judge1(r), Err(_) => compare_default("panic".into(), expected) };
    if let Verdict::Match(t) = &v {
        let alike = |x: &str| x == t || (class_of(x) == "err" && class_of(t) == "err");
        let (t2, tc) = (text_of(&p2), text_of(&ch));
        if !alike(&t2) { return Verdict::Mismatch { observed: t.clone(), detail: format!("the same call a second time answers `{}`", truncate(&t2, 300)) }; }
        if !alike(&tc) {
            // is the chained answer at least what the model + lane oracle accept?  (only for the report)
            return Verdict::Mismatch { observed: format!("chained: {}", tc), detail: format!("RECEIVER-DIVERGENCE: the chained call on Ok(array) (impl … for Result<Array<T>, ArrayError>) answers `{}`, the plain call `{}`", truncate(&tc, 300), truncate(t, 300)) };
        }
    }
    v
}

macro_rules! three { ($a:ident, $T:ty, |$x:ident| $e:expr) => {{
    let p1 = catch_unwind(AssertUnwindSafe(|| { let $x = &$a; $e }));
    let p2 = catch_unwind(AssertUnwindSafe(|| { let $x = &$a; $e }));
    let ch = catch_unwind(AssertUnwindSafe(|| { let r: Result<Array<$T>, ArrayError> = Ok($a.clone()); let $x = &r; $e }));
    (p1, p2, ch)
}} }

struct Case<'a> { op: &'a str, dt: &'a str, shape: Vec<usize>, axis: Option<isize>, kd: Option<bool>, vseed: u64, expected: &'a str }

fn run_any<T: Val>(c: &Case) -> Option<Verdict> {
    let n: usize = c.shape.iter().product();
    let vals: Vec<T> = gen_vals::<T>(c.dt, n, c.vseed, c.op);
    let a = Array::new(vals.clone(), c.shape.clone()).unwrap();
    let (axis, kd, op, expected) = (c.axis, c.kd, c.op, c.expected);
    macro_rules! cnt { ($m:ident, $tr:ident) => {{
        let (p1, p2, ch) = three!(a, T, |x| $tr::$m(x, axis, kd));
        finish(p1, p2, ch, expected, &|r| judge(&vals, r, expected, false, &|l: &Array<T>| $tr::$m(l, None, None), &|lane| native_cnt(op, lane)))
    }} }
    Some(match op { "count_nonzero" => cnt!(count_nonzero, ArrayCount), "argmax" => cnt!(argmax, ArraySearch), "argmin" => cnt!(argmin, ArraySearch), _ => return None })
}
fn run_num<T: Val + Numeric>(c: &Case) -> Option<Verdict> {
    if !EXTREME.contains(&c.op) { return run_any::<T>(c); }
    let n: usize = c.shape.iter().product();
    let vals: Vec<T> = gen_vals::<T>(c.dt, n, c.vseed, c.op);
    let a = Array::new(vals.clone(), c.shape.clone()).unwrap();
    let (axis, op, expected) = (c.axis, c.op, c.expected);
    macro_rules! red { ($m:ident) => {{
        let (p1, p2, ch) = three!(a, T, |x| ArrayExtrema::$m(x, axis));
        finish(p1, p2, ch, expected, &|r| judge(&vals, r, expected, false, &|l: &Array<T>| ArrayExtrema::$m(l, None), &|lane| native_val(op, lane)))
    }} }
    Some(match op { "max" => red!(max), "min" => red!(min), "nanmax" => red!(nanmax), "nanmin" => red!(nanmin), "amax" => red!(amax), "amin" => red!(amin), _ => return None })
}
fn run_ops<T: Val + NumericOps>(c: &Case) -> Option<Verdict> {
    if !(FOLD.contains(&c.op) || SCAN.contains(&c.op)) { return run_num::<T>(c); }
    let n: usize = c.shape.iter().product();
    let vals: Vec<T> = gen_vals::<T>(c.dt, n, c.vseed, c.op);
    let a = Array::new(vals.clone(), c.shape.clone()).unwrap();
    let (axis, op, expected) = (c.axis, c.op, c.expected);
    macro_rules! red { ($m:ident, $scan:expr) => {{
        let (p1, p2, ch) = three!(a, T, |x| ArraySumProdDiff::$m(x, axis));
        finish(p1, p2, ch, expected, &|r| judge(&vals, r, expected, $scan, &|l: &Array<T>| ArraySumProdDiff::$m(l, None), &|lane| native_val(op, lane)))
    }} }
    Some(match op {
        "sum" => red!(sum, false), "prod" => red!(prod, false), "nansum" => red!(nansum, false), "nanprod" => red!(nanprod, false),
        "cumsum" => red!(cumsum, true), "cumprod" => red!(cumprod, true), "nancumsum" => red!(nancumsum, true), "nancumprod" => red!(nancumprod, true),
        _ => return None,
    })
}

fn exec(op: &str, args: &[&str], expected: &str) -> Option<Verdict> {
    if args.len() != 5 { return None; }
    let (shape, _) = parse_arr_raw(args[1]);
    let axis: Option<isize> = parse_opt(args[2]);
    let kd: Option<bool> = match args[3] { "none" => None, "true" => Some(true), _ => Some(false) };
    let vseed: u64 = args[4].parse().ok()?;
    let dt = args[0];
    if !applicable(op, dt) { return None; }
    let c = Case { op, dt, shape, axis, kd, vseed, expected };
    match dt {
        "i64" | "i64b" => run_ops::<i64>(&c), "f64" | "f64s" => run_ops::<f64>(&c), "f32" => run_ops::<f32>(&c),
        "i8" => run_ops::<i8>(&c), "i16" => run_ops::<i16>(&c), "i32" => run_ops::<i32>(&c),
        "u64" => run_num::<u64>(&c), "usize" => run_num::<usize>(&c), "isize" => run_num::<isize>(&c),
        "u8" => run_num::<u8>(&c), "u16" => run_num::<u16>(&c), "u32" => run_num::<u32>(&c),
        "bool" => run_any::<bool>(&c), "str" => run_any::<String>(&c),
        _ => None,
    }
}

/// non-trivial: an axis is given, the array has rank >= 2 and the lane is longer than one
fn nontrivial(_op: &str, args: &[&str]) -> bool {
    let s = parse_arr_raw(args[1]).0;
    if args[2] == "none" || s.len() < 2 { return false; }
    let ax: isize = args[2].parse().unwrap_or(0);
    let k = if ax < 0 { ax + s.len() as isize } else { ax };
    k >= 0 && (k as usize) < s.len() && s[k as usize] > 1
}

fn main() {
    harness_main(Spec { prop: "C08", gen, exec, nontrivial, hang_secs: 60,
        rule: "17 operations (10 reductions, count_nonzero/argmax/argmin x keepdims none/true/false, 4 scans) x every shape rank<=4 len<=3 (thorough: + rank 5 len<=2) x every axis in both spellings and `none` x i64 / f64 values (f64 with NaN, +-inf, +-0, subnormal, huge), out-of-range axes, seeded random rank 5-6; robustness streams: 14 further element types / value classes (i64 and u64/usize/isize beyond 2^53 and next to the ends of the type, i8/i16/i32/u8/u16/u32 next to their ends, f64 subnormals and NaN first/last/random, f32, bool, String) on every shape rank<=3 and every axis; every zero-length shape x every axis incl. out-of-range; big_shapes (axis lengths 7-17 in every position, > 256 / 1024 / 4096 elements); lanes of 4100 elements with repeated extremes; random shapes with one axis of 7-17. Oracles: per output position the model names the lane; (a) the same real operation with axis=None on that lane must give the bit-identical value, (b) a plain-Rust reference over the lane values (exact integer sum/product/running totals, max/min with NaN rules, count of non-zeros, FIRST position of the extreme) must agree; every case is run twice on the plain receiver and once on Ok(array) through the Result-receiver impl, all three must answer alike. non-trivial = rank>=2, axis given, lane longer than 1" });
}
