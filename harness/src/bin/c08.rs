//! C08 — axis-wise reductions and scans equal the 1-D operation on every lane.  Index protocol:
//! the model answers, for every output position, with the input positions of the lane; this harness extracts that lane
//! from the real input, applies the SAME real operation with `axis = None` to it and compares bit-exactly.
use arrharness::*;

const REDUCE: [&str; 10] = ["sum", "prod", "nansum", "nanprod", "max", "min", "nanmax", "nanmin", "amax", "amin"];
const COUNT: [&str; 3] = ["count_nonzero", "argmax", "argmin"];
const SCAN: [&str; 4] = ["cumsum", "cumprod", "nancumsum", "nancumprod"];

fn vals_i64(n: usize, vseed: u64, prodlike: bool) -> Vec<i64> {
    let mut r = Rng::new(vseed ^ 0xC08);
    (0..n).map(|i| if prodlike { if i < 8 { [-2, -1, 0, 1, 2, 3, 1, -1][r.below(8)] } else { [-1, 1, 1, -1, 0, 1, 1, 1][r.below(8)] } } else { r.range(-4, 4) }).collect()
}
fn vals_f64(n: usize, vseed: u64) -> Vec<f64> {
    let mut r = Rng::new(vseed ^ 0xF08);
    let special = vseed % 3; // 0: finite only, 1: with NaN, 2: with NaN and infinities
    (0..n).map(|_| match r.below(16) {
        0 if special >= 1 => f64::NAN,
        1 if special == 2 => f64::INFINITY,
        2 if special == 2 => f64::NEG_INFINITY,
        3 => -0.0, 4 => 0.0, 5 => 0.5, 6 => -2.25, 7 => 1e300, 8 => -1e300, 9 => 1e-310,
        _ => r.range(-5, 5) as f64,
    }).collect()
}

fn gen(tier: &str, seed: u64, out: &mut dyn FnMut(String)) {
    let thorough = tier == "thorough";
    let mut rng = Rng::new(seed);
    // corpus: the rank-4 middle-axis cases that the pinned tree got wrong
    for l in ["sum i64 i2,3,2,2 1 none 1", "cumsum i64 i2,3,2,2 1 none 1", "sum f64 i2,2,2,2 2 none 4", "argmax i64 i2,3,2,2 -3 none 2", "max f64 i1,2,3,2 1 none 5"] { out(l.to_string()); }
    let mut all = shapes(1, 4, 1, 3);
    if thorough { all.extend(shapes(5, 5, 1, 2)); }
    let ops: Vec<&str> = REDUCE.iter().chain(COUNT.iter()).chain(SCAN.iter()).copied().collect();
    for s in &all {
        let nd = s.len() as isize;
        let mut axes: Vec<String> = vec!["none".into()];
        for a in 0..nd { axes.push(a.to_string()); axes.push((a - nd).to_string()); }
        for op in &ops { for ax in &axes { for dt in ["i64", "f64"] {
            let kds: Vec<&str> = if COUNT.contains(op) { vec!["none", "true", "false"] } else { vec!["none"] };
            for kd in kds {
                let nseeds = if thorough { 3 } else { 1 };
                for k in 0..nseeds { out(format!("{op} {dt} {} {ax} {kd} {}", tag(s), (rng.next() % 1000) * 3 + k)); }
            }
        } } }
        // out-of-range axes: must be an error (C09 owns the requirement; compared here as well)
        for bad in [nd, nd + 1, -nd - 1] { for op in ["sum", "max", "cumsum", "argmax", "count_nonzero", "nanmin"] {
            out(format!("{op} i64 {} {bad} none 0", tag(s)));
        } }
    }
    // random: rank 5 (and 6), lengths up to 4 (3)
    let n_rand = if thorough { 6000 } else { 1500 };
    for _ in 0..n_rand {
        let nd = 5 + rng.below(2);
        let s: Vec<usize> = (0..nd).map(|_| 1 + rng.below(if nd == 6 { 2 } else { 3 })).collect();
        let op = *rng.pick(&ops);
        let ax = rng.below(nd) as isize; let ax = if rng.below(2) == 0 { ax } else { ax - nd as isize };
        let kd = if COUNT.contains(&op) { *rng.pick(&["none", "true", "false"]) } else { "none" };
        out(format!("{op} {} {} {ax} {kd} {}", *rng.pick(&["i64", "f64"]), tag(&s), rng.next() % 3000));
    }
}

fn parse_lanes(s: &str) -> Option<(Vec<usize>, Vec<Vec<usize>>)> {
    let (sh, body) = s.split_once(':')?;
    let shape = parse_usize_list(sh);
    let lanes = if body == "-" { vec![] } else { body.split('|').map(parse_usize_list).collect() };
    Some((shape, lanes))
}

trait Bits: Copy { fn bits(self) -> u64; }
impl Bits for i64 { fn bits(self) -> u64 { self as u64 } }
impl Bits for usize { fn bits(self) -> u64 { self as u64 } }
impl Bits for f64 { fn bits(self) -> u64 { if self.is_nan() { 0x7ff8_0000_0000_0000 } else { self.to_bits() } } }

/// compare one real result against the model's lane map, lane results computed by `lane_op` (the same real 1-D operation)
fn judge<T: ArrayElement + Copy, R: ArrayElement + Bits + std::fmt::Display>(
    vals: &[T], observed: Result<Array<R>, ArrayError>, expected: &str, scan: bool,
    lane_op: &dyn Fn(&Array<T>) -> Result<Array<R>, ArrayError>) -> Verdict {
    let obs_text = show_res(&observed, |a| format!("{}:{}", show_list(&a.get_shape().unwrap()), show_list(&a.get_elements().unwrap())));
    if !expected.starts_with("ok ") { return compare_default(obs_text, expected); }
    let arr = match observed { Ok(a) => a, Err(_) => return Verdict::Mismatch { observed: obs_text, detail: format!("model says `{}`", truncate(expected, 200)) } };
    let (shape, lanes) = match parse_lanes(&expected[3..]) { Some(x) => x, None => return Verdict::Mismatch { observed: obs_text, detail: "unparsable model answer".into() } };
    if !consistent(&arr) { return Verdict::Mismatch { observed: obs_text, detail: "result violates shape/length consistency".into() } }
    if arr.get_shape().unwrap() != shape { return Verdict::Mismatch { observed: obs_text, detail: format!("shape differs: theorem says {:?}", shape) } }
    let got = arr.get_elements().unwrap();
    if got.len() != lanes.len() { return Verdict::Mismatch { observed: obs_text, detail: "element count differs".into() } }
    for (p, lane) in lanes.iter().enumerate() {
        let (j, idxs) = if scan { (lane[0], &lane[1..]) } else { (0, &lane[..]) };
        let lane_vals: Vec<T> = idxs.iter().map(|&t| vals[t]).collect();
        let lane_arr = Array::new(lane_vals, vec![idxs.len()]).unwrap();
        let want = match lane_op(&lane_arr) { Ok(r) => r.get_elements().unwrap(), Err(e) => return Verdict::Mismatch { observed: obs_text, detail: format!("1-D operation on lane {:?} fails: {}", idxs, err_name(&e)) } };
        if j >= want.len() || want[j].bits() != got[p].bits() {
            return Verdict::Mismatch { detail: format!("output position {p}: lane = input positions {:?}; 1-D operation on that lane gives {} there, array operation returned {}", idxs,
                want.get(j).map_or("<nothing>".to_string(), |x| x.to_string()), got[p]), observed: obs_text };
        }
    }
    Verdict::Match(obs_text)
}

fn run_typed<T>(op: &str, vals: Vec<T>, shape: Vec<usize>, axis: Option<isize>, kd: Option<bool>, expected: &str) -> Option<Verdict>
where T: NumericOps + ArrayElement + Copy + Bits + std::fmt::Display {
    let a = Array::new(vals.clone(), shape).unwrap();
    macro_rules! red { ($m:ident) => {{ let o = std::panic::catch_unwind(std::panic::AssertUnwindSafe(|| a.$m(axis)));
        match o { Ok(r) => judge(&vals, r, expected, false, &|l: &Array<T>| l.$m(None)), Err(_) => compare_default("panic".into(), expected) } }} }
    macro_rules! scn { ($m:ident) => {{ let o = std::panic::catch_unwind(std::panic::AssertUnwindSafe(|| a.$m(axis)));
        match o { Ok(r) => judge(&vals, r, expected, true, &|l: &Array<T>| l.$m(None)), Err(_) => compare_default("panic".into(), expected) } }} }
    macro_rules! cnt { ($m:ident) => {{ let o = std::panic::catch_unwind(std::panic::AssertUnwindSafe(|| a.$m(axis, kd)));
        match o { Ok(r) => judge(&vals, r, expected, false, &|l: &Array<T>| l.$m(None, None)), Err(_) => compare_default("panic".into(), expected) } }} }
    Some(match op {
        "sum" => red!(sum), "prod" => red!(prod), "nansum" => red!(nansum), "nanprod" => red!(nanprod),
        "max" => red!(max), "min" => red!(min), "nanmax" => red!(nanmax), "nanmin" => red!(nanmin), "amax" => red!(amax), "amin" => red!(amin),
        "cumsum" => scn!(cumsum), "cumprod" => scn!(cumprod), "nancumsum" => scn!(nancumsum), "nancumprod" => scn!(nancumprod),
        "count_nonzero" => cnt!(count_nonzero), "argmax" => cnt!(argmax), "argmin" => cnt!(argmin),
        _ => return None,
    })
}

fn exec(op: &str, args: &[&str], expected: &str) -> Option<Verdict> {
    let (shape, _) = parse_arr_raw(args[1]);
    let n: usize = shape.iter().product();
    let axis: Option<isize> = parse_opt(args[2]);
    let kd: Option<bool> = match args[3] { "none" => None, "true" => Some(true), _ => Some(false) };
    let vseed: u64 = args[4].parse().ok()?;
    match args[0] {
        "i64" => run_typed::<i64>(op, vals_i64(n, vseed, op.contains("prod")), shape, axis, kd, expected),
        "f64" => run_typed::<f64>(op, vals_f64(n, vseed), shape, axis, kd, expected),
        _ => None,
    }
}

/// non-trivial: an axis is given, the array has rank >= 2 and the lane is longer than one
fn nontrivial(_op: &str, args: &[&str]) -> bool {
    let s = parse_arr_raw(args[1]).0;
    if args[2] == "none" || s.len() < 2 { return false; }
    let ax: isize = args[2].parse().unwrap_or(0);
    let k = if ax < 0 { ax + s.len() as isize } else { ax };
    k >= 0 && (k as usize) < s.len() && s[k as usize] > 1
}

fn main() {
    harness_main(Spec { prop: "C08", gen, exec, nontrivial, hang_secs: 30,
        rule: "17 operations (10 reductions, count_nonzero/argmax/argmin x keepdims none/true/false, 4 scans) x every shape rank<=4 len<=3 (thorough: + rank 5 len<=2) x every axis in both spellings and `none` x i64 / f64 values (f64 with NaN, +-inf, +-0, subnormal, huge), out-of-range axes, seeded random rank 5-6. Oracle: per output position the model names the lane; the same real operation with axis=None on that lane must give the bit-identical value. non-trivial = rank>=2, axis given, lane longer than 1" });
}
