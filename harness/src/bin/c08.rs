//! C08 — axis-wise reductions and scans equal the 1-D operation on every lane.  Index protocol:
//! the model answers, for every output position, with the input positions of the lane; this harness extracts that lane
//! from the real input and judges the real result at that position by TWO oracles:
//!  (a) lane oracle: the SAME real operation with `axis = None` on the lane, compared bit-exactly (all element types, all
//!      operations; the only oracle for float sums/products, where the evaluation order matters);
//!  (b) native oracle: a plain Rust fold over the lane values that calls nothing of the crate (exact i128 arithmetic for
//!      integer sum/prod/cumsum/cumprod and their NaN forms; max/min/nanmax/nanmin by `partial_cmp`, NaN wins / NaN ignored;
//!      count of non-zeros; FIRST position of the extreme, the first NaN winning) — the lane oracle cannot see a defect that
//!      lives in the 1-D body itself, and the statement covers that body too ("with no axis the operation acts on the
//!      flattened array", "position of the extreme").
//! Every case (up to 16 000 elements; beyond that the repetition is dropped) is executed three times: the plain call, the plain call again (same answer required) and the chained call on
//! `Ok(array)` through `impl … for Result<Array<T>, ArrayError>` (same answer required).
//! Part 2 (after the third round of seeded changes):
//!  * native lane-membership reference `native_map` (plain coordinate arithmetic: which input positions form the lane of an
//!    output position, and the result shape).  It is compared with the MODEL's answer on every case the model answers
//!    (non-empty arrays) — the `refstats` line at the end of a run reports how many — and replaces the model on the `ref` cases
//!    (seventh token `ref`: 16 384 … 140 000 elements, more than 8192 lanes, an axis above 65 536, axis lengths 121..300 in an
//!    inner position), for which the quadratic list-backed model would need minutes.  Chain: model -> reference -> crate.
//!  * hidden state: shapes that collide under weak polynomial / packed / order-blind keys back to back in both orders on one
//!    thread, value sets that are permutations / one-ulp neighbours of one another, failing calls directly followed by valid ones,
//!    and the A-B-A discipline in `exec` (after case B the previous case A is run again and must answer as before).
//!  * every lane length 1..300 in trailing and inner position; ranks 7 and 8.
use arrharness::*;
use std::cell::{Cell, RefCell};
use std::cmp::Ordering;
use std::panic::{catch_unwind, AssertUnwindSafe};

const REDUCE: [&str; 10] = ["sum", "prod", "nansum", "nanprod", "max", "min", "nanmax", "nanmin", "amax", "amin"];
const COUNT: [&str; 3] = ["count_nonzero", "argmax", "argmin"];
const SCAN: [&str; 4] = ["cumsum", "cumprod", "nancumsum", "nancumprod"];
const FOLD: [&str; 4] = ["sum", "prod", "nansum", "nanprod"];
const EXTREME: [&str; 6] = ["max", "min", "nanmax", "nanmin", "amax", "amin"];

/// element types / value classes of the cross-type sweep (`i64` and `f64` are the original two streams)
const DT_OPS: [&str; 8] = ["i64", "f64", "i64b", "i8", "i16", "i32", "f64s", "f32"];              // NumericOps: every operation
const DT_NUM: [&str; 6] = ["u64", "usize", "isize", "u8", "u16", "u32"];                           // Numeric: extrema + count family
const DT_ANY: [&str; 2] = ["bool", "str"];                                                         // ArrayElement: count family
/// hidden-state value classes (only in the part-2 streams): the `i64` / `f64` values of the same seed REVERSED (same multiset,
/// same sum / xor / product), or with ONE element moved by one (i64) / by one ulp (f64)
const DT_HID: [&str; 4] = ["i64r", "i64n", "f64r", "f64n"];
fn applicable(op: &str, dt: &str) -> bool {
    if DT_OPS.contains(&dt) || DT_HID.contains(&dt) { return true; }
    if DT_NUM.contains(&dt) { return EXTREME.contains(&op) || COUNT.contains(&op); }
    DT_ANY.contains(&dt) && COUNT.contains(&op)
}
fn all_dtypes() -> Vec<&'static str> { DT_OPS.iter().chain(DT_NUM.iter()).chain(DT_ANY.iter()).copied().collect() }

// ---------------------------------------------------------------- values

fn vals_i64(n: usize, vseed: u64, prodlike: bool) -> Vec<i64> {
    let mut r = Rng::new(vseed ^ 0xC08);
    (0..n).map(|i| if prodlike { if i < 8 { [-2, -1, 0, 1, 2, 3, 1, -1][r.below(8)] } else { [-1, 1, 1, -1, 0, 1, 1, 1][r.below(8)] } } else { r.range(-4, 4) }).collect()
}
fn vals_f64(n: usize, vseed: u64) -> Vec<f64> {
    let mut r = Rng::new(vseed ^ 0xF08);
    let special = vseed % 3; // 0: finite only, 1: with NaN, 2: with NaN and infinities
    (0..n).map(|_| match r.below(16) {
        0 if special >= 1 => f64::NAN,
        1 if special == 2 => f64::INFINITY,
        2 if special == 2 => f64::NEG_INFINITY,
        3 => -0.0, 4 => 0.0, 5 => 0.5, 6 => -2.25, 7 => 1e300, 8 => -1e300, 9 => 1e-310,
        _ => r.range(-5, 5) as f64,
    }).collect()
}

const P53: i128 = 1 << 53;
/// integer value classes inside `lo..=hi`.  Sums and products (and every prefix / every lane of them) stay inside the type
/// (the harness is built with overflow checks): the absolute values are drawn against a budget.
/// Extreme / count / position queries get: values next to the ends of the type, clusters of DISTINCT values above 2^53
/// (which collapse to one f64), many repeated extremes, and small values.
fn vals_int(n: usize, vseed: u64, op: &str, lo: i128, hi: i128) -> Vec<i128> {
    let mut r = Rng::new(vseed ^ 0x1B08);
    let wide = hi > (1 << 60);
    let clip = |v: i128| v.max(lo).min(hi);
    if op.contains("prod") {
        let big = if wide { P53 + 1 } else { (hi / 5).max(2) };
        let cands = [1, 1, -1, 1, -1, 2, -2, 3, big, 1, 1, -1, 1, 1, 0, 1, 1, 1, -1, 1, 1, 1, 1, 1];
        let mut budget = hi;
        let zero_ok = vseed % 2 == 0;
        return (0..n).map(|_| {
            let mut v = clip(cands[r.below(cands.len())]);
            if v == 0 && !zero_ok { v = 1; }
            let m = v.abs();
            if m >= 2 { if m > budget { v = if v < 0 && lo < 0 { -1 } else { 1 }; } else { budget /= m; } }
            v
        }).collect();
    }
    if op.contains("sum") {
        let cands: Vec<i128> = if wide { vec![P53 + 1, P53 + 2, -(P53 + 1), P53 + 3, 2 * P53 + 1, 3, -7, 1, 0, -(P53 + 2), (1 << 60) + 1, -1, 2, 0] }
            else { vec![hi / 4, -(hi / 4), hi / 8 + 1, 3, -2, 1, 0, -1, 2, -3, hi / 2, 0] };
        let mut budget = hi;
        let sparse = n > 64;
        return (0..n).map(|_| {
            if sparse && r.below(4) != 0 { return 0; }
            let v = clip(cands[r.below(cands.len())]);
            if v.abs() > budget { 0 } else { budget -= v.abs(); v }
        }).collect();
    }
    let top: Vec<i128> = if wide { vec![hi, hi - 1, hi - 2, P53, P53 + 1, P53 + 2, P53 + 3, 2 * P53 + 1, 2 * P53 + 2] } else { vec![hi, hi - 1, hi - 2, hi - 3] };
    let bot: Vec<i128> = if lo < 0 { if wide { vec![lo, lo + 1, lo + 2, -P53, -P53 - 1, -P53 - 2, -P53 - 3] } else { vec![lo, lo + 1, lo + 2] } } else { vec![0, 1, 2] };
    let small: Vec<i128> = (-4..=4).map(clip).collect();
    (0..n).map(|_| match vseed % 5 {
        0 => match r.below(3) { 0 => top[r.below(top.len())], 1 => bot[r.below(bot.len())], _ => small[r.below(small.len())] },
        // a cluster of neighbouring values far above 2^53 (64-bit types) / next to the upper end: the extreme is rarely the first
        1 => if wide { P53 + r.below(4) as i128 } else { hi - r.below(4) as i128 },
        2 => if lo < 0 { if wide { -P53 - r.below(4) as i128 } else { lo + r.below(4) as i128 } } else { r.below(3) as i128 },
        3 => if wide { if r.below(2) == 0 { hi - r.below(3) as i128 } else { 2 * P53 + r.below(3) as i128 } } else { hi - r.below(2) as i128 },
        _ => if r.below(12) == 0 { top[r.below(top.len())] } else { small[r.below(small.len())] },
    }).collect()
}
/// float value classes: subnormals, signed zeros, the ends of the range, NaN placed first / last / at random, infinities
fn vals_flt(n: usize, vseed: u64, single: bool) -> Vec<f64> {
    let mut r = Rng::new(vseed ^ 0xF1F0);
    let cands: Vec<f64> = if single {
        vec![1e-45, -1e-45, f32::MIN_POSITIVE as f64, -0.0, 0.0, 1.0, -1.0, f32::MAX as f64, -(f32::MAX as f64), 0.1f32 as f64, 16777216.0, 3.0, -2.5, 2.0, 0.0, -0.0]
    } else {
        vec![5e-324, -5e-324, 1e-310, f64::MIN_POSITIVE, -0.0, 0.0, 1.0, -1.0, f64::MAX, -f64::MAX, 0.1, 3.0, 9007199254740994.0, -2.5, 2.0, -0.0]
    };
    let mode = vseed % 6;
    let mut v: Vec<f64> = (0..n).map(|_| match (mode, r.below(7)) {
        (3, 0) => f64::NAN,
        (4, 0) => f64::INFINITY, (4, 1) => f64::NEG_INFINITY, (4, 2) => f64::NAN,
        (5, _) => if r.below(3) == 0 { cands[r.below(cands.len())] } else { f64::NAN },
        _ => cands[r.below(cands.len())],
    }).collect();
    if n > 0 { if mode == 1 { v[0] = f64::NAN; } if mode == 2 { v[n - 1] = f64::NAN; } }
    v
}

/// what the two oracles need to know about an element type
trait Val: ArrayElement + Clone + std::fmt::Display + PartialOrd + 'static {
    const LO: i128 = 0; const HI: i128 = 1; const FLOAT: bool = false; const SINGLE: bool = false;
    /// bit-identical (all NaN alike)
    fn same(&self, o: &Self) -> bool { self == o }
    fn nan(&self) -> bool { false }
    /// exact value of an integer element
    fn int(&self) -> Option<i128> { None }
    /// `Some(is zero)` where "zero" is unambiguous (numbers, bool)
    fn zero_like(&self) -> Option<bool> { None }
    fn of_int(i: i128) -> Self;
    fn of_f64(_x: f64) -> Self { Self::of_int(0) }
}
macro_rules! val_int { ($($t:ty),*) => { $(impl Val for $t {
    const LO: i128 = <$t>::MIN as i128; const HI: i128 = <$t>::MAX as i128;
    fn int(&self) -> Option<i128> { Some(*self as i128) }
    fn zero_like(&self) -> Option<bool> { Some(*self == 0) }
    fn of_int(i: i128) -> Self { i as $t }
})* } }
val_int!(i8, i16, i32, i64, isize, u8, u16, u32, u64, usize);
impl Val for f64 {
    const FLOAT: bool = true;
    fn same(&self, o: &Self) -> bool { (self.is_nan() && o.is_nan()) || self.to_bits() == o.to_bits() }
    fn nan(&self) -> bool { self.is_nan() }
    fn zero_like(&self) -> Option<bool> { Some(*self == 0.0) }
    fn of_int(i: i128) -> Self { i as f64 }
    fn of_f64(x: f64) -> Self { x }
}
impl Val for f32 {
    const FLOAT: bool = true; const SINGLE: bool = true;
    fn same(&self, o: &Self) -> bool { (self.is_nan() && o.is_nan()) || self.to_bits() == o.to_bits() }
    fn nan(&self) -> bool { self.is_nan() }
    fn zero_like(&self) -> Option<bool> { Some(*self == 0.0) }
    fn of_int(i: i128) -> Self { i as f32 }
    fn of_f64(x: f64) -> Self { x as f32 }
}
impl Val for bool {
    fn zero_like(&self) -> Option<bool> { Some(!*self) }
    fn of_int(i: i128) -> Self { i.rem_euclid(3) != 0 }
}
impl Val for String {
    fn of_int(i: i128) -> Self { ["", "0", "a", "ab", "b", "zz", "Z", "0", "zz", "10", "1", "a"][i.rem_euclid(12) as usize].to_string() }
}

fn gen_vals<T: Val>(dt: &str, n: usize, vseed: u64, op: &str) -> Vec<T> {
    match dt {
        "i64" => vals_i64(n, vseed, op.contains("prod")).into_iter().map(|x| T::of_int(x as i128)).collect(),
        "f64" => vals_f64(n, vseed).into_iter().map(T::of_f64).collect(),
        "i64r" => vals_i64(n, vseed, op.contains("prod")).into_iter().rev().map(|x| T::of_int(x as i128)).collect(),
        "i64n" => { let mut v = vals_i64(n, vseed, op.contains("prod")); if n > 0 { v[(vseed as usize / 7) % n] += 1; } v.into_iter().map(|x| T::of_int(x as i128)).collect() }
        "f64r" => vals_f64(n, vseed).into_iter().rev().map(T::of_f64).collect(),
        "f64n" => { let mut v = vals_f64(n, vseed); if n > 0 { let k = (vseed as usize / 7) % n; if v[k].is_finite() && v[k] != 0.0 && v[k].abs() < 1e299 { v[k] = f64::from_bits(v[k].to_bits() + 1); } } v.into_iter().map(T::of_f64).collect() }
        "bool" | "str" => { let mut r = Rng::new(vseed ^ 0x57); (0..n).map(|_| T::of_int(r.below(12) as i128)).collect() }
        _ if T::FLOAT => vals_flt(n, vseed, T::SINGLE).into_iter().map(T::of_f64).collect(),
        _ => vals_int(n, vseed, op, T::LO, T::HI).into_iter().map(T::of_int).collect(),
    }
}

// ---------------------------------------------------------------- gen

fn axes_of(nd: isize) -> Vec<String> {
    let mut axes: Vec<String> = vec!["none".into()];
    for a in 0..nd { axes.push(a.to_string()); axes.push((a - nd).to_string()); }
    axes
}

fn gen(tier: &str, seed: u64, out: &mut dyn FnMut(String)) {
    let thorough = tier == "thorough";
    let mut rng = Rng::new(seed);
    // corpus: the rank-4 middle-axis cases that the pinned tree got wrong
    for l in ["sum i64 i2,3,2,2 1 none 1", "cumsum i64 i2,3,2,2 1 none 1", "sum f64 i2,2,2,2 2 none 4", "argmax i64 i2,3,2,2 -3 none 2", "max f64 i1,2,3,2 1 none 5"] { out(l.to_string()); }
    // corpus 2: the classes of the round-2 seeded changes (distinct integers above 2^53 that tie as f64; NaN inside a float
    // lane on the chained receiver; repeated maxima in a lane longer than 4096)
    for l in ["max i64b i2,3 1 none 1", "amax u64 i2,3 0 none 1", "max i64b i6 none none 6", "cumprod f64s i2,3 1 none 1", "cumprod f64 i2,3 -2 none 4",
              "argmax i64 i4100 none none 3", "argmax u8 i4100 0 none 1"] { out(l.to_string()); }
    let mut all = shapes(1, 4, 1, 3);
    if thorough { all.extend(shapes(5, 5, 1, 2)); }
    let ops: Vec<&str> = REDUCE.iter().chain(COUNT.iter()).chain(SCAN.iter()).copied().collect();
    for s in &all {
        let nd = s.len() as isize;
        let axes = axes_of(nd);
        for op in &ops { for ax in &axes { for dt in ["i64", "f64"] {
            let kds: Vec<&str> = if COUNT.contains(op) { vec!["none", "true", "false"] } else { vec!["none"] };
            for kd in kds {
                let nseeds = if thorough { 3 } else { 1 };
                for k in 0..nseeds { out(format!("{op} {dt} {} {ax} {kd} {}", tag(s), (rng.next() % 1000) * 3 + k)); }
            }
        } } }
        // out-of-range axes: must be an error (C09 owns the requirement; compared here as well)
        for bad in [nd, nd + 1, -nd - 1] { for op in ["sum", "max", "cumsum", "argmax", "count_nonzero", "nanmin"] {
            out(format!("{op} i64 {} {bad} none 0", tag(s)));
        } }
    }
    // random: rank 5 (and 6), lengths up to 4 (3)
    let n_rand = if thorough { 6000 } else { 1500 };
    for _ in 0..n_rand {
        let nd = 5 + rng.below(2);
        let s: Vec<usize> = (0..nd).map(|_| 1 + rng.below(if nd == 6 { 2 } else { 3 })).collect();
        let op = *rng.pick(&ops);
        let ax = rng.below(nd) as isize; let ax = if rng.below(2) == 0 { ax } else { ax - nd as isize };
        let kd = if COUNT.contains(&op) { *rng.pick(&["none", "true", "false"]) } else { "none" };
        out(format!("{op} {} {} {ax} {kd} {}", *rng.pick(&["i64", "f64"]), tag(&s), rng.next() % 3000));
    }

    // ---------------- robustness streams (FRAMEWORK.md) ----------------
    let dts = all_dtypes();
    let new_dts: Vec<&str> = dts.iter().copied().filter(|d| *d != "i64" && *d != "f64").collect();
    let kd_all = ["none", "true", "false"];
    // (3) element types / value classes: every operation x every axis spelling x every further element type, on every shape of
    //     rank <= 3 (len <= 3) plus rank-4 shapes whose middle axes matter; the value class rotates with the seed
    let mut tshapes = shapes(1, 3, 1, 3);
    tshapes.extend([vec![2, 3, 2, 2], vec![2, 1, 2, 3], vec![1, 2, 3, 2], vec![6], vec![2, 6], vec![7, 2]]);
    if thorough { tshapes.extend(shapes(4, 4, 1, 2)); tshapes.extend([vec![3, 3, 3, 3], vec![2, 2, 3, 2, 2]]); }
    let mut k = 0u64;
    for s in &tshapes { for op in &ops { for ax in &axes_of(s.len() as isize) { for dt in &new_dts {
        if !applicable(op, dt) { continue; }
        let kds: Vec<&str> = if COUNT.contains(op) { if thorough { kd_all.to_vec() } else { vec![kd_all[(k % 3) as usize]] } } else { vec!["none"] };
        for kd in kds { let reps = if thorough { 3 } else { 1 }; for _ in 0..reps { k += 1; out(format!("{op} {dt} {} {ax} {kd} {}", tag(s), (rng.next() % 997) * 30 + k % 30)); } }
    } } } }
    // (2) zero-length axes: every operation, every axis (both spellings, none, out of range), keepdims, three element types
    for s in &zero_shapes() {
        let nd = s.len() as isize;
        let mut axes = axes_of(nd); axes.push(nd.to_string()); axes.push((-nd - 1).to_string());
        for op in &ops { for ax in &axes { for dt in ["i64", "f64", "u8", "i8", "str"] {
            if !applicable(op, dt) { continue; }
            let kds: Vec<&str> = if COUNT.contains(op) { kd_all.to_vec() } else { vec!["none"] };
            for kd in kds { out(format!("{op} {dt} {} {ax} {kd} {}", tag(s), rng.next() % 60)); }
        } } }
    }
    // (1) sizes: axis lengths 7..17 in every position, element counts > 256 / 1024 / 4096; the element type rotates.
    //     The model driver is quadratic in the element count, so shapes above 2000 elements get fewer axis/keepdims combinations.
    let mut j = 0usize;
    for s in &big_shapes() {
        let n: usize = s.iter().product();
        let nd = s.len() as isize;
        let axes: Vec<String> = if n > 2000 { let mut a = vec!["none".to_string(), (nd - 1).to_string()]; if nd > 1 { a.push((-nd).to_string()); } else { a.push("-1".into()); } a } else { axes_of(nd) };
        for ax in &axes { for op in &ops {
            let kds: Vec<&str> = if !COUNT.contains(op) { vec!["none"] } else if n > 2000 { vec![if ax == "none" { "true" } else { "none" }] } else { kd_all.to_vec() };
            for kd in kds {
                // two element types per combination, walking through all applicable ones
                let cands: Vec<&str> = dts.iter().copied().filter(|d| applicable(op, d)).collect();
                for t in 0..2 { j += 1; let dt = cands[(j * 7 + t * 3) % cands.len()]; out(format!("{op} {dt} {} {ax} {kd} {}", tag(s), rng.next() % 30000)); }
            }
        } }
    }
    //     lanes longer than 4096 with repeated extreme values (small value ranges / clusters => many ties): the position and
    //     extreme queries on every applicable element type, the other operations on one
    let mut long: Vec<(Vec<usize>, Vec<&str>)> = vec![(vec![4100], vec!["none", "0", "-1"]), (vec![2, 4100], vec!["1"])];
    if thorough { long.extend([(vec![4100, 2], vec!["0", "-2"]), (vec![1, 4200, 1], vec!["1", "-2", "none"]), (vec![3, 1400], vec!["none"]), (vec![2, 4100], vec!["-1", "none"])]); }
    for (s, axes) in &long { for ax in axes {
        for op in &ops {
            let kd = if COUNT.contains(op) && ax != &"none" { "true" } else { "none" };
            for dt in &dts {
                if !applicable(op, dt) { continue; }
                let query = COUNT.contains(op) || EXTREME.contains(op);
                if !query && !["i64", "f64s", "i32"].contains(dt) { continue; }
                let reps = if query && ["i64", "u8", "f64", "i64b"].contains(dt) { 3 } else { 1 };
                for _ in 0..reps { out(format!("{op} {dt} {} {ax} {kd} {}", tag(s), rng.next() % 30000)); }
            }
        }
    } }
    // (5)+random: further element types on random shapes of rank 1..5 with one long axis (7..17) in a random position
    let n_rand2 = if thorough { 12000 } else { 3000 };
    for _ in 0..n_rand2 {
        let nd = 1 + rng.below(5);
        let mut s: Vec<usize> = (0..nd).map(|_| 1 + rng.below(3)).collect();
        if rng.below(3) != 0 { let p = rng.below(nd); s[p] = 7 + rng.below(11); }
        let op = *rng.pick(&ops);
        let cands: Vec<&str> = dts.iter().copied().filter(|d| applicable(op, d)).collect();
        let dt = *rng.pick(&cands);
        let ax = if rng.below(8) == 0 { "none".to_string() } else { let a = rng.below(nd) as isize; (if rng.below(2) == 0 { a } else { a - nd as isize }).to_string() };
        let kd = if COUNT.contains(&op) { *rng.pick(&kd_all) } else { "none" };
        out(format!("{op} {dt} {} {ax} {kd} {}", tag(&s), rng.next() % 30000));
    }
    gen_part2(thorough, &mut rng, out);
}

// ---------------------------------------------------------------- gen, part 2

/// groups of same-rank shapes that collide under a key a per-shape cache could plausibly use
fn c08_collision_groups(thorough: bool) -> Vec<Vec<Vec<usize>>> {
    let mut g: Vec<Vec<Vec<usize>>> = vec![];
    // equal rank, equal ELEMENT COUNT and equal polynomial hash `h = h*m + d` (any start value): [c+k, c*m] and [c, (c+k)*m]
    // (a cached index plan that is only checked for its length is reused for the sibling)
    for &m in &[31usize, 33, 37, 131, 257, 256] {
        for (c, k) in [(1usize, 1usize), (2, 1), (1, 2)] {
            let (a, b) = (vec![c + k, c * m], vec![c, (c + k) * m]);
            g.push(vec![a.clone(), b.clone()]);
            if m <= 37 && (k == 1 || thorough) {
                g.push(vec![[vec![3], a.clone()].concat(), [vec![3], b.clone()].concat()]);
                g.push(vec![[a.clone(), vec![2]].concat(), [b.clone(), vec![2]].concat()]);
            }
        }
    }
    // the pairs of lib.rs (equal hash, different element counts)
    for (a, b) in collision_shape_pairs() { g.push(vec![a, b]); }
    // order-blind keys (element count + rank, sum / product / xor of the axis lengths, sorted axis lengths)
    g.push(vec![vec![2, 3, 4], vec![4, 3, 2], vec![3, 4, 2], vec![2, 4, 3], vec![4, 2, 3], vec![2, 2, 6]]);
    g.push(vec![vec![2, 6], vec![6, 2], vec![3, 4], vec![4, 3], vec![1, 12], vec![12, 1]]);
    g.push(vec![vec![16, 17], vec![17, 16], vec![8, 34], vec![34, 8]]);
    g.push(vec![vec![1, 5, 7], vec![7, 5, 1], vec![5, 1, 7], vec![5, 7, 1]]);
    // packed keys: the axis lengths agree modulo 2^8
    g.push(vec![vec![2, 3], vec![2, 259], vec![258, 3]]);
    g.push(vec![vec![3, 2, 4], vec![3, 258, 4], vec![3, 2, 260]]);
    g
}

/// the operations of the three families, rotating; element type rotating among those every operation of the pick accepts
fn pick_ops(k: usize) -> [(&'static str, &'static str); 3] {
    let r = REDUCE[k % REDUCE.len()];
    let c = COUNT[k % COUNT.len()];
    let sc = SCAN[k % SCAN.len()];
    let dr = if EXTREME.contains(&r) { ["i64", "f64", "u8", "i64b", "f32", "u64"][k % 6] } else { ["i64", "f64", "i32", "f64s"][k % 4] };
    let dc = ["i64", "u8", "f64", "str", "bool", "i8"][k % 6];
    let ds = ["i64", "f64", "i16", "f64s"][k % 4];
    [(r, dr), (c, dc), (sc, ds)]
}

/// keep a pick affordable: String arrays are slow in the crate (beyond 64 elements: i64 instead), and the 1-D argmax / argmin sort
/// the lane with a quicksort that is quadratic on repeated values (lanes beyond 5000: count_nonzero instead)
fn fit(op: &'static str, dt: &'static str, shape: &[usize], ax: &str) -> (&'static str, &'static str) {
    let n: usize = shape.iter().product();
    let lane = match ax.parse::<isize>() { Ok(a) => { let k = if a < 0 { a + shape.len() as isize } else { a }; if k >= 0 && (k as usize) < shape.len() { shape[k as usize] } else { 1 } } Err(_) => n };
    let dt = if dt == "str" && n > 64 { "i64" } else { dt };
    if (op == "argmax" || op == "argmin") && lane > 5000 { ("count_nonzero", dt) } else { (op, dt) }
}

fn gen_part2(thorough: bool, rng: &mut Rng, out: &mut dyn FnMut(String)) {
    let kd_all = ["none", "true", "false"];
    let mut k = 0usize;
    // ---- (6a) hidden state: colliding shapes back to back, in both orders, the same axis, every family
    for (gi, g) in c08_collision_groups(thorough).into_iter().enumerate() {
        let nd = g[0].len() as isize;
        // the model is quadratic: groups with a member above 600 elements take one axis and one family (rotating) in the quick tier
        let heavy = !thorough && g.iter().any(|s| s.iter().product::<usize>() > 600);
        for a in 0..nd {
            k += 1;
            if heavy && a != gi as isize % nd { continue; }
            let ax = if k % 2 == 0 { a } else { a - nd };
            for (fi, (op, dt)) in pick_ops(k).into_iter().enumerate() {
                if heavy && fi != (gi / 2) % 3 { continue; }
                let kd = if COUNT.contains(&op) { kd_all[k % 3] } else { "none" };
                let vs = rng.next() % 30000;
                // g0 g1 .. gn g0 | gn .. g1 g0 g1  (every member directly after every neighbour, both orders)
                let mut seq: Vec<&Vec<usize>> = g.iter().collect();
                seq.push(&g[0]);
                seq.extend(g.iter().rev().skip(1));
                seq.push(&g[1]);
                for (i, s) in seq.iter().enumerate() { let (op, dt) = fit(op, dt, s, &ax.to_string()); out(format!("{op} {dt} {} {ax} {kd} {}", tag(s), vs + (i as u64 % 2))); }
            }
        }
    }
    // 16-bit packed keys: [2,3] and [2,65539] (131 078 elements, reference cases; only the axis with two lanes — the crate's
    // lane splitting is quadratic in the number of lanes)
    for (small, huge, ax) in [(vec![2usize, 3], vec![2usize, 65539], "1"), (vec![3, 2], vec![65539, 2], "-2")] {
        for (op, dt) in [("sum", "i64"), ("count_nonzero", "u8"), ("max", "f64")] {
            if !thorough && op == "max" { continue; }
            for s in [&small, &huge, &small] {
                let big = s.iter().product::<usize>() > 5000;
                out(format!("{op} {dt} {} {ax} none {}{}", tag(s), rng.next() % 30000, if big { " ref" } else { "" }));
            }
        }
    }
    // ---- (6b) hidden state keyed by the VALUES: the same shape with the values reversed (same multiset / sum / xor), and with one
    //      element moved by one / one ulp, between two runs of the original
    let ops: Vec<&str> = REDUCE.iter().chain(COUNT.iter()).chain(SCAN.iter()).copied().collect();
    let mut vshapes = vec![vec![6usize], vec![2, 3], vec![3, 4], vec![2, 3, 4]];
    if thorough { vshapes.extend([vec![4, 1, 5], vec![31], vec![2, 2, 2, 2]]); }
    for s in &vshapes {
        let nd = s.len() as isize;
        let mut axes = vec!["none".to_string(), (nd - 1).to_string(), (-nd).to_string()];
        if thorough { axes = axes_of(nd); }
        for op in &ops { for ax in &axes {
            let vs = (rng.next() % 1000) * 3 + 1;      // f64: with NaN
            let kd = if COUNT.contains(op) { kd_all[(vs % 3) as usize] } else { "none" };
            for dt in ["i64", "i64r", "i64", "i64n", "i64", "f64", "f64r", "f64", "f64n", "f64"] { out(format!("{op} {dt} {} {ax} {kd} {vs}", tag(s))); }
        } }
    }
    // ---- (6c) a failing call (axis outside the rank) directly followed by a valid call on the same shape, alternating
    for s in [vec![5usize], vec![2, 3], vec![3, 4, 2], vec![2, 31], vec![1, 62], vec![2, 1, 2, 3]] {
        let nd = s.len() as isize;
        for (i, op) in ops.iter().enumerate() {
            let dt = ["i64", "f64"][i % 2];
            let kd = if COUNT.contains(op) { kd_all[i % 3] } else { "none" };
            let good = [(i as isize) % nd, (i as isize) % nd - nd];
            for (j, bad) in [nd, -nd - 1, nd + 1 + i as isize].iter().enumerate() {
                let vs = rng.next() % 3000;
                out(format!("{op} {dt} {} {bad} {kd} {vs}", tag(&s)));
                out(format!("{op} {dt} {} {} {kd} {vs}", tag(&s), good[j % 2]));
            }
        }
    }
    // ---- (8) exact lengths: EVERY lane length 1..300 in the trailing position ([2,d]) and in an inner position ([3,d,2]).
    //      [2,d]: both axes; one family per (d, axis) is tied to the model (rotating, so three consecutive lengths cover all), the
    //      other two go to the native reference.  [3,d,2] axis 1: model up to d = 120 (the model needs ~d^2), reference above.
    for d in 1..=300usize {
        for (ai, ax) in ["1", "0", "-1", "-2"].iter().enumerate() {
            if ai >= 2 && !thorough && d % 4 != 0 { continue; }
            k += 1;
            for (fi, (op, dt)) in pick_ops(k).iter().enumerate() {
                let (op, dt) = &fit(op, dt, &[2, d], ax);
                let kd = if COUNT.contains(op) { kd_all[(d + ai) % 3] } else { "none" };
                let model = fi == (d + ai) % 3;
                out(format!("{op} {dt} {} {ax} {kd} {}{}", tag(&[2, d]), rng.next() % 30000, if model { "" } else { " ref" }));
            }
        }
        k += 1;
        let inner_model = d <= if thorough { 200 } else { 120 };
        for (fi, (op, dt)) in pick_ops(k).iter().enumerate() {
            let (op, dt) = &fit(op, dt, &[3, d, 2], "1");
            let kd = if COUNT.contains(op) { kd_all[d % 3] } else { "none" };
            let model = inner_model && fi == d % 3;
            out(format!("{op} {dt} {} {} {kd} {}{}", tag(&[3, d, 2]), if d % 2 == 0 { "1" } else { "-2" }, rng.next() % 30000, if model { "" } else { " ref" }));
        }
    }
    // ---- (10) ranks 7 and 8 (the enumeration stops at rank 4/5, the random stream at 6)
    let mut high = vec![vec![2usize; 7], vec![2; 8], vec![1, 2, 1, 2, 1, 2, 1, 2], vec![2, 1, 1, 3, 1, 1, 2], vec![3, 1, 2, 1, 2, 1, 1, 2]];
    if thorough { high.extend([vec![2, 3, 2, 1, 2, 3, 2], vec![2, 2, 3, 2, 2, 1, 2, 2]]); }
    for s in &high {
        let nd = s.len() as isize;
        for a in 0..nd { for ax in [a, a - nd] {
            k += 1;
            for (op, dt) in pick_ops(k) {
                let (op, dt) = fit(op, dt, s, &ax.to_string());
                let kds: Vec<&str> = if COUNT.contains(&op) { kd_all.to_vec() } else { vec!["none"] };
                for kd in kds { out(format!("{op} {dt} {} {ax} {kd} {}", tag(s), rng.next() % 30000)); }
            }
        } }
        for (op, dt) in pick_ops(k + 1) { let (op, dt) = fit(op, dt, s, "none"); out(format!("{op} {dt} {} none {} {}", tag(s), if COUNT.contains(&op) { "true" } else { "none" }, rng.next() % 30000)); }
        for bad in [nd, -nd - 1] { out(format!("sum i64 {} {bad} none 0", tag(s))); out(format!("argmin i64 {} {bad} true 0", tag(s))); }
    }
    // ---- (7) huge sizes: native reference cases (seventh token `ref`).  (a) more than 8192 lanes of length >= 2 (a batched walk
    //      over the lanes), the boundary 8192 / 8193; the crate needs ~0.1 s per call at 9000 lanes (quadratic in the number of
    //      lanes), so axes that give more than ~20 000 lanes are left out;  (b) `huge_shapes()` of lib.rs on the axes with at most
    //      ~300 lanes and with `none`
    let many: Vec<(Vec<usize>, Vec<&str>)> = vec![
        (vec![9000, 3], vec!["1", "-1"]), (vec![100, 2, 90], vec!["-2", "1"]), (vec![3, 9000], vec!["0", "-2"]), (vec![8193, 2], vec!["1"]),
        (vec![2, 8193], vec!["0"]), (vec![8192, 2], vec!["-1"]), (vec![91, 2, 91], vec!["1"])];
    for (s, axes) in &many { for ax in axes {
        let reps = if thorough { 4 } else { 1 };
        for _ in 0..reps {
            k += 1;
            for (op, dt) in pick_ops(k) {
                let (op, dt) = fit(op, dt, s, ax);
                let kd = if COUNT.contains(&op) { kd_all[k % 3] } else { "none" };
                out(format!("{op} {dt} {} {ax} {kd} {} ref", tag(s), rng.next() % 30000));
            }
        }
    } }
    let mut few: Vec<(Vec<usize>, Vec<&str>)> = vec![
        (vec![9000, 3], vec!["0", "none"]), (vec![100, 2, 90], vec!["0"]), (vec![16385], vec!["0", "none"]), (vec![130, 130], vec!["0", "1"]), (vec![129, 131], vec!["-1", "-2"]),
        (vec![100, 200], vec!["0", "-1"]), (vec![33000], vec!["-1"]), (vec![70000], vec!["0", "none"]), (vec![2, 70000], vec!["1", "none"]), (vec![70000, 2], vec!["0"]),
        (vec![40, 30, 30], vec!["0", "1", "2"]), (vec![10, 11, 12, 13], vec!["0", "-3", "2", "-1"]), (vec![5, 4, 10, 10, 10], vec!["0", "1", "-3", "3", "4"]), (vec![300, 300], vec!["0", "1"])];
    if thorough { few.extend([(vec![140001], vec!["0"]), (vec![7, 131, 151], vec!["0", "1", "2"]), (vec![1, 66000, 2, 1], vec!["1", "-3"]), (vec![20000, 2], vec!["1"]), (vec![3, 5, 7, 11, 13, 2], vec!["0", "2", "4", "-1"])]); }
    for (s, axes) in &few { for ax in axes {
        let reps = if thorough { 3 } else { 1 };
        for _ in 0..reps {
            k += 1;
            for (op, dt) in pick_ops(k) {
                let (op, dt) = fit(op, dt, s, ax);
                let kd = if COUNT.contains(&op) { kd_all[k % 3] } else { "none" };
                out(format!("{op} {dt} {} {ax} {kd} {} ref", tag(s), rng.next() % 30000));
            }
        }
    } }
    // the last line of a run: how many times the native reference was compared with the model / used in its place
    out("refstats".to_string());
}

// ---------------------------------------------------------------- exec

/// lane map of an answer: result shape, per output position (position inside the lane, lane id), and the lanes (input
/// positions), numbered in the order of their first occurrence in the output
#[derive(PartialEq)]
struct LaneMap { shape: Vec<usize>, outs: Vec<(usize, usize)>, lanes: Vec<Vec<usize>> }

/// model answer -> lane map
fn parse_lanes(s: &str, scan: bool) -> Option<LaneMap> {
    let (sh, body) = s.split_once(':')?;
    let shape = parse_usize_list(sh);
    let mut lanes: Vec<Vec<usize>> = vec![];
    let mut outs: Vec<(usize, usize)> = vec![];
    if body != "-" {
        for el in body.split('|') {
            if let Some((j, k)) = el.split_once('=') {
                let id = outs.get(k.parse::<usize>().ok()?)?.1;
                outs.push((j.parse().ok()?, id));
            } else {
                let l = if el == "e" { vec![] } else { parse_usize_list(el) };
                if scan { let (j, lane) = l.split_first()?; lanes.push(lane.to_vec()); outs.push((*j, lanes.len() - 1)); }
                else { lanes.push(l); outs.push((0, lanes.len() - 1)); }
            }
        }
    }
    Some(LaneMap { shape, outs, lanes })
}

/// NATIVE LANE-MEMBERSHIP REFERENCE: which input positions (row-major) form the lane behind every output position, and the result
/// shape, by plain coordinate arithmetic.  `fam`: 'R' reduction, 'C' count / position query (keepdims), 'S' scan.
/// `None`: no reference (zero-size arrays are left to the model);  `Some(Err(()))`: an error value (the axis is outside the rank; `keepdims` on the flattened form of an array of rank > 3).
fn native_map(shape: &[usize], axis: Option<isize>, kd: Option<bool>, fam: char) -> Option<Result<LaneMap, ()>> {
    let n: usize = shape.iter().product();
    let nd = shape.len();
    if n == 0 || nd == 0 { return None; }
    let Some(ax) = axis else {
        // the flattened form: one lane = the whole array
        let all: Vec<usize> = (0..n).collect();
        return Some(Ok(match fam {
            'S' => LaneMap { shape: vec![n], outs: (0..n).map(|j| (j, 0)).collect(), lanes: vec![all] },
            // `atleast(ndim)` refuses more than three dimensions
            'C' if kd == Some(true) && nd > 3 => return Some(Err(())),
            'C' if kd == Some(true) => LaneMap { shape: vec![1; nd], outs: vec![(0, 0)], lanes: vec![all] },
            _ => LaneMap { shape: vec![1], outs: vec![(0, 0)], lanes: vec![all] },
        }));
    };
    let k = if ax < 0 { ax + nd as isize } else { ax };
    if k < 0 || k >= nd as isize { return Some(Err(())); }
    let k = k as usize;
    let len = shape[k];
    let inner: usize = shape[k + 1..].iter().product();          // distance between two neighbours of a lane
    let outer: usize = shape[..k].iter().product();
    // lane (o, i): positions o*len*inner + j*inner + i, j = 0..len
    let lane = |o: usize, i: usize| -> Vec<usize> { (0..len).map(|j| o * len * inner + j * inner + i).collect() };
    Some(Ok(if fam == 'S' {
        // shape kept; position p = (o, j, i)
        let mut lanes = Vec::with_capacity(outer * inner);
        let mut id_of = vec![usize::MAX; outer * inner];
        let mut outs = Vec::with_capacity(n);
        for p in 0..n {
            let (o, j, i) = (p / (len * inner), p / inner % len, p % inner);
            let key = o * inner + i;
            if id_of[key] == usize::MAX { id_of[key] = lanes.len(); lanes.push(lane(o, i)); }
            outs.push((j, id_of[key]));
        }
        LaneMap { shape: shape.to_vec(), outs, lanes }
    } else {
        let mut sh = shape.to_vec();
        if fam == 'C' { if kd == Some(true) { sh[k] = 1; } else { sh.remove(k); } }
        else if nd > 1 { sh.remove(k); } else { sh = vec![1]; }
        let mut lanes = Vec::with_capacity(outer * inner);
        for o in 0..outer { for i in 0..inner { lanes.push(lane(o, i)); } }
        LaneMap { shape: sh, outs: (0..outer * inner).map(|q| (0, q)).collect(), lanes }
    }))
}

thread_local! {
    /// how often the native reference was compared with the model's answer in this run / used in place of the model
    static REF_VALIDATED: Cell<usize> = Cell::new(0);
    static REF_USED: Cell<usize> = Cell::new(0);
    static REF_BROKEN: Cell<usize> = Cell::new(0);
    /// A-B-A: the previous case (op, arguments, answer of its plain call)
    static PREV: RefCell<Option<(String, Vec<String>, String)>> = RefCell::new(None);
    static ABA_RUNS: Cell<usize> = Cell::new(0);
}
fn family(op: &str) -> char { if SCAN.contains(&op) { 'S' } else if COUNT.contains(&op) { 'C' } else { 'R' } }

fn show_out<R: Val>(r: &Result<Array<R>, ArrayError>) -> String {
    show_res(r, |a| format!("{}:{}", show_list(&a.get_shape().unwrap()), show_list(&a.get_elements().unwrap())))
}

/// what the native oracle expects at one output position
enum Want<R> { Int(i128), Is(R), Nan }
impl<R: Val> Want<R> {
    fn agrees(&self, got: &R) -> bool {
        match self { Want::Int(i) => got.int() == Some(*i), Want::Is(v) => got.partial_cmp(v) == Some(Ordering::Equal), Want::Nan => got.nan() }
    }
    fn show(&self) -> String { match self { Want::Int(i) => i.to_string(), Want::Is(v) => v.to_string(), Want::Nan => "NaN".into() } }
}

/// compare one real result against the lane map (of the model, or of the native reference on `ref` cases): shape, consistency,
/// then per output position the lane oracle (`lane_op`, the same real 1-D operation, bit-exact) and the native oracle (`native`: per
/// lane the expected values, one for a reduction, one per lane position for a scan; `None` = no native reference for this
/// operation / element type)
fn judge<T: Val, R: Val>(vals: &[T], observed: &Result<Array<R>, ArrayError>, expected: &str, map: Option<&LaneMap>, source: &str,
    lane_op: &dyn Fn(&Array<T>) -> Result<Array<R>, ArrayError>, native: &dyn Fn(&[T]) -> Option<Vec<Want<R>>>) -> Verdict {
    let obs_text = show_out(observed);
    let Some(map) = map else { return compare_default(obs_text, expected) };
    let (shape, outs, lanes) = (&map.shape, &map.outs, &map.lanes);
    // lane values and the 1-D operation on each distinct lane, once
    let mut lane_vals: Vec<Vec<T>> = Vec::with_capacity(lanes.len());
    let mut lane_res: Vec<Result<Vec<R>, String>> = Vec::with_capacity(lanes.len());
    for l in lanes {
        if l.iter().any(|&t| t >= vals.len()) { return Verdict::Mismatch { observed: obs_text, detail: format!("{source} names an input position outside the array") } }
        let lv: Vec<T> = l.iter().map(|&t| vals[t].clone()).collect();
        let lane_arr = Array::new(lv.clone(), vec![lv.len()]).unwrap();
        lane_res.push(match catch_unwind(AssertUnwindSafe(|| lane_op(&lane_arr))) {
            Ok(Ok(r)) => Ok(r.get_elements().unwrap()),
            Ok(Err(e)) => Err(format!("fails: {}", err_name(&e))),
            Err(_) => Err("panics".to_string()),
        });
        lane_vals.push(lv);
    }
    let idx_text = |id: usize| truncate(&show_list(&lanes[id]), 300);
    let arr = match observed {
        Ok(a) => a,
        // the model runs a lane-collecting body that always succeeds; the real 1-D body may refuse a lane (max / argmax of an
        // empty lane): then, and only then, the refusal of the array operation is the lane-wise answer
        Err(_) => return match lane_res.iter().position(|r| matches!(r, Err(m) if m.starts_with("fails"))) {
            Some(_) => Verdict::Match(obs_text),
            None => Verdict::Mismatch { observed: obs_text, detail: format!("{source} says `{}` and the 1-D operation succeeds on every lane", truncate(expected, 200)) },
        },
    };
    if let Some(id) = lane_res.iter().position(|r| r.is_err()) {
        return Verdict::Mismatch { detail: format!("1-D operation on lane {} {}, array operation returned a value", idx_text(id), lane_res[id].as_ref().err().unwrap()), observed: obs_text };
    }
    if !consistent(arr) { return Verdict::Mismatch { observed: obs_text, detail: "result violates shape/length consistency".into() } }
    if &arr.get_shape().unwrap() != shape { return Verdict::Mismatch { observed: obs_text, detail: format!("shape differs: theorem says {:?}", shape) } }
    let got = arr.get_elements().unwrap();
    if got.len() != outs.len() { return Verdict::Mismatch { observed: obs_text, detail: "element count differs".into() } }
    let lane_nat: Vec<Option<Vec<Want<R>>>> = lane_vals.iter().map(|lv| native(lv)).collect();
    for (p, &(j, id)) in outs.iter().enumerate() {
        let want = lane_res[id].as_ref().ok().unwrap();
        if j >= want.len() || !want[j].same(&got[p]) {
            return Verdict::Mismatch { detail: format!("output position {p}: lane = input positions {}; 1-D operation on that lane gives {} there, array operation returned {}", idx_text(id),
                want.get(j).map_or("<nothing>".to_string(), |x| x.to_string()), got[p]), observed: obs_text };
        }
        if let Some(w) = lane_nat[id].as_ref().and_then(|n| n.get(j)) {
            if !w.agrees(&got[p]) {
                return Verdict::Mismatch { detail: format!("output position {p}: lane = input positions {}, values {}; the operation returned {}, but the independent reference (plain Rust over the lane values: exact integer arithmetic / comparison of the elements, NaN rules, FIRST position) gives {}",
                    idx_text(id), truncate(&show_list(&lane_vals[id]), 300), got[p], w.show()), observed: obs_text };
            }
        }
    }
    Verdict::Match(obs_text)
}

/// native oracle, value-valued operations: plain Rust over the lane values, nothing of the crate
fn native_val<T: Val>(op: &str, lane: &[T]) -> Option<Vec<Want<T>>> {
    if lane.is_empty() { return None; }
    if FOLD.contains(&op) || SCAN.contains(&op) {
        let ints: Vec<i128> = lane.iter().map(|x| x.int()).collect::<Option<Vec<i128>>>()?;     // floats: evaluation order matters, lane oracle only
        let prod = op.contains("prod");
        let mut acc: i128 = if prod { 1 } else { 0 };
        let run: Vec<i128> = ints.iter().map(|&x| { acc = if prod { acc.checked_mul(x).unwrap_or(i128::MAX) } else { acc + x }; acc }).collect();
        return Some(if SCAN.contains(&op) { run.into_iter().map(Want::Int).collect() } else { vec![Want::Int(*run.last().unwrap())] });
    }
    let nan_forms = op.starts_with("nan");
    let is_max = op.contains("max");
    if !nan_forms && lane.iter().any(|x| x.nan()) { return Some(vec![Want::Nan]); }
    let kept: Vec<&T> = lane.iter().filter(|x| !x.nan()).collect();
    if kept.is_empty() { return Some(vec![Want::Nan]); }
    let mut best = kept[0];
    for x in &kept[1..] { let o = x.partial_cmp(&best); if (is_max && o == Some(Ordering::Greater)) || (!is_max && o == Some(Ordering::Less)) { best = x; } }
    Some(vec![Want::Is(best.clone())])
}
/// native oracle, position / count queries
fn native_cnt<T: Val>(op: &str, lane: &[T]) -> Option<Vec<Want<usize>>> {
    if op == "count_nonzero" {
        let z: Vec<bool> = lane.iter().map(|x| x.zero_like()).collect::<Option<Vec<bool>>>()?;
        return Some(vec![Want::Int(z.iter().filter(|b| !**b).count() as i128)]);
    }
    if lane.is_empty() { return None; }
    let is_max = op == "argmax";
    let want = match lane.iter().position(|x| x.nan()) {
        Some(i) => i,
        None => { let mut b = 0; for i in 1..lane.len() { let o = lane[i].partial_cmp(&lane[b]); if (is_max && o == Some(Ordering::Greater)) || (!is_max && o == Some(Ordering::Less)) { b = i; } } b }
    };
    Some(vec![Want::Int(want as i128)])
}

type Caught<R> = std::thread::Result<Result<Array<R>, ArrayError>>;
fn text_of<R: Val>(r: &Caught<R>) -> String { match r { Ok(r) => show_out(r), Err(_) => "panic".into() } }
/// judge the plain call, then require the repeated plain call and the chained call to answer alike
fn finish<R: Val>(p1: Caught<R>, p2: Option<Caught<R>>, ch: Caught<R>, expected: &str, judge1: &dyn Fn(&Result<Array<R>, ArrayError>) -> Verdict) -> Verdict {
    let v = match &p1 { Ok(r) => judge1(r), Err(_) => compare_default("panic".into(), expected) };
    if let Verdict::Match(t) = &v {
        let alike = |x: &str| x == t || (class_of(x) == "err" && class_of(t) == "err");
        let (t2, tc) = (p2.as_ref().map_or_else(|| t.clone(), text_of), text_of(&ch));
        if !alike(&t2) { return Verdict::Mismatch { observed: truncate(t, 2000), detail: format!("the same call a second time answers `{}`", truncate(&t2, 300)) }; }
        if !alike(&tc) {
            // is the chained answer at least what the model + lane oracle accept?  (only for the report)
            return Verdict::Mismatch { observed: format!("chained: {}", truncate(&tc, 2000)), detail: format!("RECEIVER-DIVERGENCE: the chained call on Ok(array) (impl … for Result<Array<T>, ArrayError>) answers `{}`, the plain call `{}`", truncate(&tc, 300), truncate(t, 300)) };
        }
        // remember the full answer of the plain call for the A-B-A re-run
        LAST_PLAIN.with(|l| *l.borrow_mut() = Some(t.clone()));
        return Verdict::Match(truncate(t, 3000));
    }
    v
}
thread_local! { static LAST_PLAIN: RefCell<Option<String>> = RefCell::new(None); }

macro_rules! three { ($a:ident, $T:ty, |$x:ident| $e:expr) => {{
    let p1 = catch_unwind(AssertUnwindSafe(|| { let $x = &$a; $e }));
    // (arrays beyond 16 000 elements: the repeated plain call is left to the A-B-A discipline of the smaller cases)
    let p2 = if $a.len().unwrap_or(0) > 16000 { None } else { Some(catch_unwind(AssertUnwindSafe(|| { let $x = &$a; $e }))) };
    let ch = catch_unwind(AssertUnwindSafe(|| { let r: Result<Array<$T>, ArrayError> = Ok($a.clone()); let $x = &r; $e }));
    (p1, p2, ch)
}} }
/// probe mode (A-B-A): only the plain call, its answer text
macro_rules! probe { ($a:ident, |$x:ident| $e:expr) => {{
    let p1 = catch_unwind(AssertUnwindSafe(|| { let $x = &$a; $e }));
    return Some(Verdict::Match(text_of(&p1)));
}} }

/// `map`: the lane map the result is judged by (`None`: the expected outcome is an error / not a lane answer: outcome classes are
/// compared); `source`: who says so (the model, or the native reference on `ref` cases); `probe`: only run the plain call
struct Case<'a> { op: &'a str, dt: &'a str, shape: Vec<usize>, axis: Option<isize>, kd: Option<bool>, vseed: u64, expected: &'a str, map: Option<LaneMap>, source: &'a str, probe: bool }

fn run_any<T: Val>(c: &Case) -> Option<Verdict> {
    let n: usize = c.shape.iter().product();
    let vals: Vec<T> = gen_vals::<T>(c.dt, n, c.vseed, c.op);
    let a = Array::new(vals.clone(), c.shape.clone()).unwrap();
    let (axis, kd, op, expected) = (c.axis, c.kd, c.op, c.expected);
    macro_rules! cnt { ($m:ident, $tr:ident) => {{
        if c.probe { probe!(a, |x| $tr::$m(x, axis, kd)) }
        let (p1, p2, ch) = three!(a, T, |x| $tr::$m(x, axis, kd));
        finish(p1, p2, ch, expected, &|r| judge(&vals, r, expected, c.map.as_ref(), c.source, &|l: &Array<T>| $tr::$m(l, None, None), &|lane| native_cnt(op, lane)))
    }} }
    Some(match op { "count_nonzero" => cnt!(count_nonzero, ArrayCount), "argmax" => cnt!(argmax, ArraySearch), "argmin" => cnt!(argmin, ArraySearch), _ => return None })
}
fn run_num<T: Val + Numeric>(c: &Case) -> Option<Verdict> {
    if !EXTREME.contains(&c.op) { return run_any::<T>(c); }
    let n: usize = c.shape.iter().product();
    let vals: Vec<T> = gen_vals::<T>(c.dt, n, c.vseed, c.op);
    let a = Array::new(vals.clone(), c.shape.clone()).unwrap();
    let (axis, op, expected) = (c.axis, c.op, c.expected);
    macro_rules! red { ($m:ident) => {{
        if c.probe { probe!(a, |x| ArrayExtrema::$m(x, axis)) }
        let (p1, p2, ch) = three!(a, T, |x| ArrayExtrema::$m(x, axis));
        finish(p1, p2, ch, expected, &|r| judge(&vals, r, expected, c.map.as_ref(), c.source, &|l: &Array<T>| ArrayExtrema::$m(l, None), &|lane| native_val(op, lane)))
    }} }
    Some(match op { "max" => red!(max), "min" => red!(min), "nanmax" => red!(nanmax), "nanmin" => red!(nanmin), "amax" => red!(amax), "amin" => red!(amin), _ => return None })
}
fn run_ops<T: Val + NumericOps>(c: &Case) -> Option<Verdict> {
    if !(FOLD.contains(&c.op) || SCAN.contains(&c.op)) { return run_num::<T>(c); }
    let n: usize = c.shape.iter().product();
    let vals: Vec<T> = gen_vals::<T>(c.dt, n, c.vseed, c.op);
    let a = Array::new(vals.clone(), c.shape.clone()).unwrap();
    let (axis, op, expected) = (c.axis, c.op, c.expected);
    macro_rules! red { ($m:ident) => {{
        if c.probe { probe!(a, |x| ArraySumProdDiff::$m(x, axis)) }
        let (p1, p2, ch) = three!(a, T, |x| ArraySumProdDiff::$m(x, axis));
        finish(p1, p2, ch, expected, &|r| judge(&vals, r, expected, c.map.as_ref(), c.source, &|l: &Array<T>| ArraySumProdDiff::$m(l, None), &|lane| native_val(op, lane)))
    }} }
    Some(match op {
        "sum" => red!(sum), "prod" => red!(prod), "nansum" => red!(nansum), "nanprod" => red!(nanprod),
        "cumsum" => red!(cumsum), "cumprod" => red!(cumprod), "nancumsum" => red!(nancumsum), "nancumprod" => red!(nancumprod),
        _ => return None,
    })
}
fn dispatch(c: &Case) -> Option<Verdict> {
    match c.dt {
        "i64" | "i64b" | "i64r" | "i64n" => run_ops::<i64>(c), "f64" | "f64s" | "f64r" | "f64n" => run_ops::<f64>(c), "f32" => run_ops::<f32>(c),
        "i8" => run_ops::<i8>(c), "i16" => run_ops::<i16>(c), "i32" => run_ops::<i32>(c),
        "u64" => run_num::<u64>(c), "usize" => run_num::<usize>(c), "isize" => run_num::<isize>(c),
        "u8" => run_num::<u8>(c), "u16" => run_num::<u16>(c), "u32" => run_num::<u32>(c),
        "bool" => run_any::<bool>(c), "str" => run_any::<String>(c),
        _ => None,
    }
}
struct Parsed<'a> { dt: &'a str, shape: Vec<usize>, axis: Option<isize>, kd: Option<bool>, vseed: u64, by_ref: bool }
fn parse_case<'a>(op: &str, args: &[&'a str]) -> Option<Parsed<'a>> {
    if args.len() != 5 && !(args.len() == 6 && args[5] == "ref") { return None; }
    let (shape, _) = parse_arr_raw(args[1]);
    let axis: Option<isize> = parse_opt(args[2]);
    let kd: Option<bool> = match args[3] { "none" => None, "true" => Some(true), _ => Some(false) };
    let vseed: u64 = args[4].parse().ok()?;
    if !applicable(op, args[0]) { return None; }
    Some(Parsed { dt: args[0], shape, axis, kd, vseed, by_ref: args.len() == 6 })
}
fn mism(observed: &str, detail: String) -> Option<Verdict> { Some(Verdict::Mismatch { observed: observed.to_string(), detail }) }

fn exec(op: &str, args: &[&str], expected: &str) -> Option<Verdict> {
    if op == "refstats" {
        let (v, u, b, aba) = (REF_VALIDATED.with(Cell::get), REF_USED.with(Cell::get), REF_BROKEN.with(Cell::get), ABA_RUNS.with(Cell::get));
        let text = format!("ok native lane reference: compared with the model on {v} cases of this run ({b} disagreements), used in place of the model on {u} cases; A-B-A re-runs {aba}");
        eprintln!("C08 {}", &text[3..]);
        if expected != "ref" { return None; }
        return if b > 0 || (u > 0 && v < 1000) { mism(&text, "the native reference was used without (enough) validation against the model in the same run".into()) } else { Some(Verdict::Match(text)) };
    }
    let pc = parse_case(op, args)?;
    let fam = family(op);
    let scan = fam == 'S';
    let native = native_map(&pc.shape, pc.axis, pc.kd, fam);
    // which lane map judges the result
    let (map, source, exp_text): (Option<LaneMap>, &str, String) = if pc.by_ref {
        if expected != "ref" { return None; }
        REF_USED.with(|c| c.set(c.get() + 1));
        match native {
            Some(Ok(m)) => (Some(m), "the native lane reference", "ok <native lane reference>".to_string()),
            Some(Err(())) => (None, "the native lane reference", "err AxisOutOfBounds".to_string()),
            None => return None,
        }
    } else {
        let model = if let Some(body) = expected.strip_prefix("ok ") { match parse_lanes(body, scan) { Some(m) => Some(m), None => return mism("n/a", "unparsable model answer".into()) } } else { None };
        // the chain model -> native reference: the reference must reproduce the model's answer on every case it has an opinion on
        if let Some(nat) = &native {
            let agrees = match (nat, &model) { (Ok(n), Some(m)) => n == m, (Err(()), None) => class_of(expected) == "err", _ => false };
            REF_VALIDATED.with(|c| c.set(c.get() + 1));
            if !agrees {
                REF_BROKEN.with(|c| c.set(c.get() + 1));
                return mism("n/a", format!("HARNESS: the native lane reference disagrees with the model on this case (model: `{}`)", truncate(expected, 300)));
            }
        }
        (model, "the model", expected.to_string())
    };
    let c = Case { op, dt: pc.dt, shape: pc.shape, axis: pc.axis, kd: pc.kd, vseed: pc.vseed, expected: &exp_text, map, source, probe: false };
    LAST_PLAIN.with(|l| *l.borrow_mut() = None);
    let v = dispatch(&c)?;
    // A-B-A: run the previous case again; it must answer exactly as it did before this case ran
    let n: usize = c.shape.iter().product();
    let prev = PREV.with(|p| p.borrow_mut().take());
    let mine = LAST_PLAIN.with(|l| l.borrow_mut().take());
    let mut verdict = v;
    if let (Verdict::Match(_), Some((pop, pargs, ptext))) = (&verdict, &prev) {
        let pa: Vec<&str> = pargs.iter().map(String::as_str).collect();
        if let Some(pp) = parse_case(pop, &pa) {
            let pcase = Case { op: pop, dt: pp.dt, shape: pp.shape, axis: pp.axis, kd: pp.kd, vseed: pp.vseed, expected: "", map: None, source: "", probe: true };
            ABA_RUNS.with(|c| c.set(c.get() + 1));
            if let Some(Verdict::Match(again)) = dispatch(&pcase) {
                if &again != ptext {
                    verdict = Verdict::Mismatch { observed: truncate(&again, 2000), detail: format!("A-B-A: after this case the PREVIOUS case `{pop} {}` answers differently; before: `{}`", pargs.join(" "), truncate(ptext, 600)) };
                }
            }
        }
    }
    // remember this case for the next one (cheap cases only: the re-run costs one call)
    if let (Some(t), true) = (mine, n <= 2000) { PREV.with(|p| *p.borrow_mut() = Some((op.to_string(), args.iter().map(|x| x.to_string()).collect(), t))); }
    Some(verdict)
}

/// non-trivial: an axis is given, the array has rank >= 2 and the lane is longer than one
fn nontrivial(_op: &str, args: &[&str]) -> bool {
    if args.len() < 5 { return false; }
    let s = parse_arr_raw(args[1]).0;
    if args[2] == "none" || s.len() < 2 { return false; }
    let ax: isize = args[2].parse().unwrap_or(0);
    let k = if ax < 0 { ax + s.len() as isize } else { ax };
    k >= 0 && (k as usize) < s.len() && s[k as usize] > 1
}

fn main() {
    harness_main(Spec { prop: "C08", gen, exec, nontrivial, hang_secs: 60,
        rule: RULE });
}

const RULE: &str = "17 operations (10 reductions, count_nonzero/argmax/argmin x keepdims none/true/false, 4 scans) x every shape rank<=4 len<=3 (thorough: + rank 5 len<=2) x every axis in both spellings and `none` x i64 / f64 values (f64 with NaN, +-inf, +-0, subnormal, huge), out-of-range axes, seeded random rank 5-6; robustness streams: 14 further element types / value classes (i64 and u64/usize/isize beyond 2^53 and next to the ends of the type, i8/i16/i32/u8/u16/u32 next to their ends, f64 subnormals and NaN first/last/random, f32, bool, String) on every shape rank<=3 and every axis; every zero-length shape x every axis incl. out-of-range; big_shapes (axis lengths 7-17 in every position, > 256 / 1024 / 4096 elements); lanes of 4100 elements with repeated extremes; random shapes with one axis of 7-17. Oracles: per output position the model names the lane; (a) the same real operation with axis=None on that lane must give the bit-identical value, (b) a plain-Rust reference over the lane values (exact integer sum/product/running totals, max/min with NaN rules, count of non-zeros, FIRST position of the extreme) must agree; every case is run twice on the plain receiver and once on Ok(array) through the Result-receiver impl, all three must answer alike. PART 2: hidden state - same-rank shapes that collide under weak keys (polynomial hashes with multipliers 31/33/37/131/257/256 AND equal element count: [c+k,c*m] vs [c,(c+k)*m], also with a leading 3 / trailing 2; collision_shape_pairs(); permuted axis lengths; axis lengths equal modulo 2^8 and 2^16) executed back to back in both orders with the same axis through all three families; the same shape with the values reversed / one element moved by one or one ulp between two runs of the original; a refused axis directly followed by a valid call; A-B-A: after every case the previous case is run again and must answer exactly as before. Exact lengths: every lane length 1..300 in trailing ([2,d], both axes) and inner ([3,d,2]) position. Ranks 7 and 8. NATIVE LANE REFERENCE (plain coordinate arithmetic for result shape and lane membership) - compared with the model's answer on EVERY case the model answers (non-empty arrays; the closing refstats line reports the count and fails when the reference is used without >= 1000 validations in the same run) and used in place of the quadratic model on the cases marked `ref`: more than 8192 lanes ([9000,3], [3,9000], [100,2,90], [8193,2], [2,8193], [91,2,91]; boundary [8192,2]), huge_shapes() (16385..90000 elements, [70000], [2,70000], [70000,2], [2,65539]; thorough [140001], [7,131,151], [20000,2], rank 6) on every axis with at most ~20000 lanes, and the lengths 121..300 of [3,d,2] - value oracles (a) and (b) unchanged. non-trivial = rank>=2, axis given, lane longer than 1";
