//! C06 — axis permutations: transpose / moveaxis / rollaxis / swapaxes. Value protocol with tags.
//!
//! Every case is executed on the i64 tag array (the answer compared with the model) AND on nine images of the tag array in
//! other element types (u8, i8, u64 beyond 2^53, f64 with tag 0 = -0.0, f32 likewise, an f64 table of special values
//! (-0.0, +0.0, NaN, subnormal, inf) compared bit-wise, bool, String, char), each through BOTH receivers: the plain
//! `Array<T>` call and the same call on `Ok(array)` through `impl ArrayAxis<T> for Result<Array<T>, ArrayError>`.
//! Part 3: also on element types of 2 .. 48 bytes with sizes that are not powers of two (`on_layouts_arr!`, `layout_images`), and
//! `giant` cases above 2^20 elements judged in place by the native gather formula (`Gather::at`).
use arrharness::*;
use std::panic::{catch_unwind, AssertUnwindSafe};

fn spell(ax: usize, nd: usize, neg: bool) -> isize { if neg { ax as isize - nd as isize } else { ax as isize } }

// ------------------------------------------------------------------------------------------------ generator

/// the six spellings of "flip a matrix" (all must be the reversed-axes transpose)
fn flips(a: &str, out: &mut dyn FnMut(String)) {
    out(format!("transpose {a} none")); out(format!("transpose {a} 1,0")); out(format!("transpose {a} -1,-2"));
    out(format!("swapaxes {a} 0 1")); out(format!("swapaxes {a} -1 0"));
    out(format!("moveaxis {a} 0 -1")); out(format!("moveaxis {a} 1 0")); out(format!("rollaxis {a} 1 none")); out(format!("rollaxis {a} -1 0"));
    out(format!("transpose {a} 0,1")); out(format!("transpose {a} -2,1"));
}

/// tag array whose tag 0 (= -0.0 / the zero element in every image) sits in the middle instead of at flat position 0
fn centred(s: &[usize]) -> String { let n: usize = s.iter().product(); if n < 2 { tag(s) } else { tag_off(s, -((n / 2) as i64)) } }

fn inverse(p: &[usize]) -> Vec<usize> { let mut q = vec![0; p.len()]; for (k, &x) in p.iter().enumerate() { q[x] = k; } q }

/// every operation on one (possibly big) shape: all permutations for rank <= 3 (sampled above), every swap / single move / roll
fn all_ops_on(s: &[usize], a: &str, rng: &mut Rng, light: bool, out: &mut dyn FnMut(String)) {
    let nd = s.len();
    out(format!("transpose {a} none"));
    let perms: Vec<Vec<usize>> = if nd <= 3 { permutations(nd) } else {
        let mut v = vec![(0..nd).collect::<Vec<_>>(), (0..nd).rev().collect(), (0..nd).map(|k| (k + 1) % nd).collect()];
        for _ in 0..(if light { 1 } else { 4 }) { v.push(rng.perm(nd)); } v };
    for p in &perms {
        let m = rng.below(1 << nd);
        for mask in [0usize, (1 << nd) - 1, m] {
            if light && mask != m { continue; }
            let ax: Vec<isize> = p.iter().enumerate().map(|(k, &x)| spell(x, nd, (mask >> k) & 1 == 1)).collect();
            out(format!("transpose {a} {}", show_list(&ax)));
        }
    }
    for i in 0..nd { for j in 0..nd {
        if light && i >= j { continue; }
        let (ni, nj) = (rng.below(2) == 0, rng.below(2) == 0);
        out(format!("swapaxes {a} {} {}", spell(i, nd, ni), spell(j, nd, nj)));
        out(format!("moveaxis {a} {} {}", spell(i, nd, nj), spell(j, nd, ni)));
        out(format!("rollaxis {a} {} {}", spell(i, nd, ni), spell(j, nd, !nj)));
    } out(format!("rollaxis {a} {} none", spell(i, nd, rng.below(2) == 0))); }
    if nd >= 2 && !light {
        let (ps, pd) = (rng.perm(nd), rng.perm(nd)); let k = 2 + rng.below(nd - 1);
        out(format!("moveaxis {a} {} {}", show_list(&ps[..k]), show_list(&pd[..k])));
    }
}

fn step_text(rng: &mut Rng, nd: usize) -> String {
    let sp = |rng: &mut Rng, x: usize| spell(x, nd, rng.below(2) == 0);
    match rng.below(5) {
        0 => "transpose=none".to_string(),
        1 => { let p = rng.perm(nd); let ax: Vec<isize> = p.iter().map(|&x| sp(rng, x)).collect(); format!("transpose={}", show_list(&ax)) }
        2 => { let k = 1 + rng.below(nd); let (ps, pd) = (rng.perm(nd), rng.perm(nd));
               let sv: Vec<isize> = ps[..k].iter().map(|&x| sp(rng, x)).collect(); let dv: Vec<isize> = pd[..k].iter().map(|&x| sp(rng, x)).collect();
               format!("moveaxis={}={}", show_list(&sv), show_list(&dv)) }
        3 => { let (i, j) = (rng.below(nd), rng.below(nd)); if rng.below(4) == 0 { format!("rollaxis={}=none", sp(rng, i)) } else { format!("rollaxis={}={}", sp(rng, i), sp(rng, j)) } }
        _ => { let (i, j) = (rng.below(nd), rng.below(nd)); format!("swapaxes={}={}", sp(rng, i), sp(rng, j)) }
    }
}

fn gen(tier: &str, seed: u64, out: &mut dyn FnMut(String)) {
    let thorough = tier == "thorough";
    let mut rng = Rng::new(seed);
    // corpus of past misses (seeded changes C06-r2-m1, -m2, -m3): one literal witness each; the classes follow in the streams below
    out("transpose 2,3:1,0,2,0,3,0 none".into());
    out("transpose i9,9+1 none".into());
    out("transpose i0,3 none".into());

    let mut all = shapes(1, 4, 1, 3);
    all.extend(vec![vec![2, 0], vec![0], vec![3, 0, 2]]);
    // stream 2 — zero-length axes: every zero shape goes through the whole exhaustive enumeration (+ malformed stream) below
    for z in zero_shapes().into_iter().chain(vec![vec![0, 3], vec![3, 0], vec![0, 3, 0], vec![0, 0, 0], vec![1, 0, 1], vec![2, 1, 0, 3]]) { if !all.contains(&z) { all.push(z); } }
    for s in &all {
        let nd = s.len(); let a = tag(s);
        out(format!("transpose {a} none"));
        for p in permutations(nd) {
            // every sign spelling of every axis (quick: all-positive, all-negative and one seeded mixed pattern)
            let masks: Vec<usize> = if thorough || nd <= 3 { (0..(1usize << nd)).collect() } else { vec![0, (1 << nd) - 1, rng.below(1 << nd)] };
            for m in masks {
                let ax: Vec<isize> = p.iter().enumerate().map(|(k, &x)| spell(x, nd, (m >> k) & 1 == 1)).collect();
                out(format!("transpose {a} {}", show_list(&ax)));
            }
        }
        for i in 0..nd { for j in 0..nd { for m in 0..4 {
            out(format!("swapaxes {a} {} {}", spell(i, nd, m & 1 == 1), spell(j, nd, m & 2 == 2)));
            out(format!("moveaxis {a} {} {}", spell(i, nd, m & 1 == 1), spell(j, nd, m & 2 == 2)));
            out(format!("rollaxis {a} {} {}", spell(i, nd, m & 1 == 1), spell(j, nd, m & 2 == 2)));
        } } out(format!("rollaxis {a} {} none", i)); out(format!("rollaxis {a} {} none", spell(i, nd, true))); }
        // multi-axis moveaxis: all ordered pairs of distinct sources x ordered pairs of distinct destinations; triples sampled
        for s0 in 0..nd { for s1 in 0..nd { if s0 == s1 { continue; } for d0 in 0..nd { for d1 in 0..nd { if d0 == d1 { continue; }
            let neg = rng.below(3) == 0;
            out(format!("moveaxis {a} {},{} {},{}", spell(s0, nd, neg), s1, d0, spell(d1, nd, neg)));
        } } } }
        if nd >= 3 { for _ in 0..(if thorough { 24 } else { 4 }) {
            let (ps, pd) = (rng.perm(nd), rng.perm(nd)); let k = 3 + rng.below(nd - 2);
            out(format!("moveaxis {a} {} {}", show_list(&ps[..k]), show_list(&pd[..k])));
        } }
        // malformed stream (C09 owns the requirement "error, not panic"; compared here too)
        let nd_i = nd as isize;
        for bad in [nd_i, nd_i + 1, -nd_i - 1, 1000, -1000] {
            out(format!("swapaxes {a} {bad} 0")); out(format!("swapaxes {a} 0 {bad}"));
            out(format!("rollaxis {a} {bad} none")); out(format!("rollaxis {a} 0 {bad}"));
            out(format!("moveaxis {a} {bad} 0"));
            let mut ax: Vec<isize> = (0..nd_i).collect(); ax[nd - 1] = bad;
            out(format!("transpose {a} {}", show_list(&ax)));
        }
        out(format!("moveaxis {a} 0 {}", nd)); // destination = ndim: tolerated by the code (clamped): used internally by apply_along_axis
        if nd >= 2 {
            out(format!("transpose {a} {}", show_list(&vec![0isize; nd])));           // repeated axis
            out(format!("transpose {a} {}", show_list(&(0..nd_i - 1).collect::<Vec<_>>()))); // too short
            out(format!("transpose {a} {}", show_list(&(0..nd_i + 1).collect::<Vec<_>>()))); // too long
            out(format!("moveaxis {a} 0,0 0,1")); out(format!("moveaxis {a} 0,1 1,1")); out(format!("moveaxis {a} 0,-{nd} 0,1")); out(format!("moveaxis {a} 0,1 0"));
        }
        // stream 5 — a permutation followed by its inverse, and the same call twice, threaded through one chain (rank <= 3: every
        // permutation; rank 4: sampled); the tag with value 0 sits in the middle of the array
        let c = centred(s);
        let perms = if nd <= 3 || thorough { permutations(nd) } else { (0..3).map(|_| rng.perm(nd)).collect() };
        for p in perms {
            let q = inverse(&p);
            let neg = rng.below(2) == 0;
            let (ps, qs): (Vec<isize>, Vec<isize>) = (p.iter().map(|&x| spell(x, nd, neg)).collect(), q.iter().map(|&x| spell(x, nd, !neg)).collect());
            out(format!("chain {c} transpose={}|transpose={}", show_list(&ps), show_list(&qs)));
            out(format!("chain {c} transpose={}|transpose={}", show_list(&ps), show_list(&ps)));
            // moving the axes p -> 0..nd is the transpose with order inverse... stated by the model; compared here
            out(format!("chain {c} moveaxis={}={}|moveaxis={}={}", show_list(&ps), show_list(&(0..nd).collect::<Vec<_>>()), show_list(&(0..nd).collect::<Vec<_>>()), show_list(&ps)));
        }
        out(format!("chain {c} transpose=none|transpose=none")); out(format!("chain {c} -"));
        for i in 0..nd { for j in 0..nd {
            out(format!("chain {c} swapaxes={i}={}|swapaxes={}={i}", spell(j, nd, true), spell(j, nd, true)));
            out(format!("chain {c} rollaxis={i}={j}|moveaxis={j}={i}"));
            out(format!("chain {c} moveaxis={i}={j}|moveaxis={}={}", spell(j, nd, true), spell(i, nd, true)));
        } }
        out(format!("chain {c} transpose={}|transpose=none", show_list(&vec![0isize; nd + 1])));   // an error in the middle of a chain is passed on
    }
    // random beyond the exhaustive scope: rank 5 (and 6 in thorough), lengths up to 4
    let n_rand = if thorough { 3000 } else { 300 };
    for _ in 0..n_rand {
        let nd = if thorough { 5 + rng.below(2) } else { 5 };
        let s: Vec<usize> = (0..nd).map(|_| 1 + rng.below(if nd == 6 { 3 } else { 4 })).collect();
        let a = tag(&s);
        match rng.below(4) {
            0 => { let p = rng.perm(nd); let ax: Vec<isize> = p.iter().map(|&x| spell(x, nd, rng.below(2) == 0)).collect(); out(format!("transpose {a} {}", show_list(&ax))); }
            1 => { let k = 1 + rng.below(nd); let (ps, pd) = (rng.perm(nd), rng.perm(nd));
                   let sv: Vec<isize> = ps[..k].iter().map(|&x| spell(x, nd, rng.below(2) == 0)).collect();
                   let dv: Vec<isize> = pd[..k].iter().map(|&x| spell(x, nd, rng.below(2) == 0)).collect();
                   out(format!("moveaxis {a} {} {}", show_list(&sv), show_list(&dv))); }
            2 => out(format!("rollaxis {a} {} {}", spell(rng.below(nd), nd, rng.below(2) == 0), spell(rng.below(nd), nd, rng.below(2) == 0))),
            _ => out(format!("swapaxes {a} {} {}", spell(rng.below(nd), nd, rng.below(2) == 0), spell(rng.below(nd), nd, rng.below(2) == 0))),
        }
    }

    // ------------------------------------------------------------------ stream 1 — sizes beyond the small scope
    // (the model's transpose is a quadratic scatter: ~0.3 s for 70x70, so shapes above 2500 elements get the light op set in quick)
    for s in big_shapes() {
        let n: usize = s.iter().product();
        all_ops_on(&s, &centred(&s), &mut rng, !thorough && n > 2500, out);
    }
    // every matrix with both axis lengths in 7..=17 (tile / unroll boundaries 8 and 16 from both sides), all spellings of the flip
    for r in 7..=17usize { for c in 7..=17usize { flips(&centred(&[r, c]), out); } }
    // boundaries 32 and 64 (quick: 15..17 x 31..33 both ways; thorough adds 63..65 and long thin matrices)
    let mut edge: Vec<Vec<usize>> = vec![];
    for &r in &[15usize, 16, 17, 31, 32, 33] { for &c in &[31usize, 32, 33] { edge.push(vec![r, c]); edge.push(vec![c, r]); } }
    edge.extend(vec![vec![1, 300], vec![300, 1], vec![2, 1030], vec![129, 9], vec![9, 129], vec![3, 257], vec![255, 3]]);
    if thorough { for &r in &[9usize, 63, 64, 65] { for &c in &[63usize, 64, 65] { edge.push(vec![r, c]); edge.push(vec![c, r]); } }
                  edge.extend(vec![vec![1, 4100], vec![4100, 1], vec![2, 2050], vec![513, 8], vec![9, 500]]); }
    edge.sort(); edge.dedup();
    for s in &edge { let a = centred(s); if thorough { flips(&a, out); } else { out(format!("transpose {a} none")); out(format!("swapaxes {a} -1 0")); out(format!("moveaxis {a} 0 -1")); } }
    // rank 3 with every axis from {1,2,8,9,17}: every permutation, every swap / move / roll
    let lens = [1usize, 2, 8, 9, 17];
    for &x in &lens { for &y in &lens { for &z in &lens {
        let s = vec![x, y, z]; let n = x * y * z;
        if n > (if thorough { 2500 } else { 1400 }) || [x, y, z].iter().filter(|&&d| d >= 8).count() == 0 { continue; }
        all_ops_on(&s, &centred(&s), &mut rng, !thorough && n > 300, out);
    } } }
    // random rank 2..5 with one or two long axes (7..17) among short ones
    for _ in 0..(if thorough { 1500 } else { 250 }) {
        let nd = 2 + rng.below(4);
        let mut s: Vec<usize> = (0..nd).map(|_| 1 + rng.below(3)).collect();
        for _ in 0..(1 + rng.below(2)) { let k = rng.below(nd); s[k] = 7 + rng.below(11); }
        if s.iter().product::<usize>() > 2000 { continue; }
        let a = centred(&s);
        if rng.below(3) == 0 {
            let steps: Vec<String> = (0..(2 + rng.below(3))).map(|_| step_text(&mut rng, nd)).collect();
            out(format!("chain {a} {}", steps.join("|")));
        } else {
            let st = step_text(&mut rng, nd); let parts: Vec<&str> = st.split('=').collect();
            out(format!("{} {a} {}", parts[0], parts[1..].join(" ")));
        }
    }
    // chains on big shapes: flip and flip back, three-cycle thrice
    for s in big_shapes().into_iter().chain(vec![vec![9, 10], vec![13, 10], vec![17, 9], vec![12, 20], vec![33, 9]]) {
        let n: usize = s.iter().product(); if n > (if thorough { 5000 } else { 1500 }) { continue; }
        let (a, nd) = (centred(&s), s.len());
        out(format!("chain {a} transpose=none|transpose=none"));
        if nd >= 2 { out(format!("chain {a} swapaxes=0=-1|swapaxes=-1=0")); out(format!("chain {a} rollaxis=-1=0|moveaxis=0=-1")); }
        if nd >= 3 { let rot: Vec<usize> = (0..nd).map(|k| (k + 1) % nd).collect(); let t = format!("transpose={}", show_list(&rot)); out(format!("chain {a} {}", vec![t; nd].join("|"))); }
    }

    // ================================================================== robustness streams, part 2
    // ---- (6) hidden state: pairs of shapes that a weak cache key confuses, executed back to back on a FRESH thread in both orders
    //      (`pair`: A B A, then on another fresh thread B A B).  Keys covered: polynomial hashes of shape ++ axes with multipliers
    //      31, 33, 37, 131, 257 (collision_shape_pairs), the element count, the multiset / sum of the lengths, lengths packed into
    //      8 or 16 bits.  Besides, EVERY ordinary case up to 700 elements runs A-B-A against one such partner shape inside `exec`.
    let steps2 = ["transpose=none", "swapaxes=0=1", "moveaxis=0=-1", "rollaxis=1=none", "transpose=0,1", "transpose=-1,0"];
    let steps3 = ["transpose=none", "transpose=0,2,1", "transpose=1,2,0", "swapaxes=0=2", "moveaxis=0,1=2,0", "rollaxis=2=0", "transpose=2,0,1", "swapaxes=-1=1", "moveaxis=-1=0"];
    let mut pairs = collision_shape_pairs();
    for (a, b) in [(vec![2usize, 6], vec![3usize, 4]), (vec![4, 3], vec![3, 4]), (vec![1, 12], vec![12, 1]), (vec![2, 3, 4], vec![4, 3, 2]), (vec![2, 3, 4], vec![3, 4, 2]), (vec![6, 2, 2], vec![2, 2, 6]),
                   (vec![2, 3], vec![2, 259]), (vec![3, 2], vec![259, 2]), (vec![2, 3, 2], vec![2, 259, 2]), (vec![1, 3], vec![1, 65539]), (vec![3, 1], vec![65539, 1]), (vec![2, 3], vec![2, 65539]), (vec![5, 7], vec![7, 5]), (vec![2, 2, 2, 3], vec![2, 2, 3, 2])] {
        pairs.push((a, b));
    }
    for (pi, (sa, sb)) in pairs.iter().enumerate() {
        let nd = sa.len();
        let st: &[&str] = if nd == 2 { &steps2 } else { &steps3 };
        let rot: Vec<usize> = (0..nd).map(|k| (k + 1) % nd).collect();
        let extra = format!("transpose={}", show_list(&rot));
        let mut chosen: Vec<String> = if thorough { st.iter().map(|x| x.to_string()).collect() } else { vec![st[pi % st.len()].to_string(), st[(pi / 2 + 3) % st.len()].to_string()] };
        if nd > 3 || thorough { chosen.push(extra); }
        chosen.dedup();
        for c in chosen { if nd < 3 && c.contains('2') && !c.contains("-") { continue; } out(format!("pair {} {} {c}", centred(sa), centred(sb))); }
    }
    // ---- (8) exact lengths: every axis length 1..=300 in a non-leading and in a leading position; axis arguments that survive a
    //      narrowing cast to u8 / u16 / u32 as a legal axis (c + 2^8, c + 2^16, c + 2^32, ...) must be refused
    for l in 1..=300usize {
        out(format!("transpose {} none", centred(&[2, l])));
        out(format!("moveaxis {} 0 -1", centred(&[l, 3])));
        if thorough || l % 3 == 0 { out(format!("transpose {} 1,2,0", centred(&[2, l, 2]))); out(format!("rollaxis {} 1 none", centred(&[3, l]))); }
    }
    for s in [vec![3usize], vec![2, 3], vec![2, 1, 3], vec![2, 3, 2, 2]] {
        let (a, nd) = (tag(&s), s.len());
        for c in 0..nd { for big in narrowing_images(c) { for neg in [false, true] {
            let bad = if neg { -(big as isize) - 1 } else { big as isize };
            out(format!("swapaxes {a} {bad} 0")); out(format!("swapaxes {a} 0 {bad}")); out(format!("rollaxis {a} {bad} none")); out(format!("rollaxis {a} 0 {bad}"));
            out(format!("moveaxis {a} {bad} 0")); out(format!("moveaxis {a} 0 {bad}"));
            let mut ax: Vec<isize> = (0..nd as isize).collect(); ax[c] = bad; out(format!("transpose {a} {}", show_list(&ax)));
            // a refused call is directly followed by a valid one on the same thread
            out(format!("transpose {a} none"));
        } } }
    }
    // ---- (10) ranks 5..8 and axis lists with 3..6 entries in unsorted order and mixed spellings
    let dims8 = [2usize, 1, 3, 2, 1, 2, 2, 1];
    for nd in 4..=8usize {
        let s: Vec<usize> = (0..nd).map(|k| dims8[(k + nd) % 8]).collect();
        let a = centred(&s);
        let sp = |rng: &mut Rng, x: usize| spell(x, nd, rng.below(2) == 0);
        // three moved axes: every choice of three sources (ascending) against every ordering of three destinations
        let trip: Vec<Vec<usize>> = boxes(&[nd, nd, nd]).into_iter().filter(|c| c[0] < c[1] && c[1] < c[2]).collect();
        for (ti, src) in trip.iter().enumerate() {
            if !thorough && nd > 5 && ti % 3 != 0 { continue; }
            let dst = &trip[(ti * 7 + 3) % trip.len()];
            for p in permutations(3) {
                let (sv, dv): (Vec<isize>, Vec<isize>) = (src.iter().map(|&x| sp(&mut rng, x)).collect(), p.iter().map(|&k| sp(&mut rng, dst[k])).collect());
                out(format!("moveaxis {a} {} {}", show_list(&sv), show_list(&dv)));
            }
        }
        for _ in 0..(if thorough { 120 } else { 30 }) {
            let k = 3 + rng.below((nd - 2).min(4));
            let (ps, pd) = (rng.perm(nd), rng.perm(nd));
            let (sv, dv): (Vec<isize>, Vec<isize>) = (ps[..k].iter().map(|&x| sp(&mut rng, x)).collect(), pd[..k].iter().map(|&x| sp(&mut rng, x)).collect());
            out(format!("moveaxis {a} {} {}", show_list(&sv), show_list(&dv)));
            let p = rng.perm(nd); let ax: Vec<isize> = p.iter().map(|&x| sp(&mut rng, x)).collect();
            out(format!("transpose {a} {}", show_list(&ax)));
            out(format!("chain {a} transpose={}|transpose={}", show_list(&ax), show_list(&inverse(&p))));
            let (i, j) = (rng.below(nd), rng.below(nd));
            out(format!("swapaxes {a} {} {}", sp(&mut rng, i), sp(&mut rng, j))); out(format!("rollaxis {a} {} {}", sp(&mut rng, i), sp(&mut rng, j)));
        }
        out(format!("transpose {a} none")); out(format!("chain {a} transpose=none|transpose=none"));
    }
    // ---- (7) huge shapes: 16 384 .. 140 000 elements (tile / block paths, an axis above 65 536, extents that are not multiples of
    //      32).  The model answers the axis order (its transpose is a quadratic scatter), the elements come from the native gather,
    //      which is validated against the model's full answer on every other case of this run (`audit`).
    let mut huge = huge_shapes();
    huge.extend(vec![vec![128, 129], vec![161, 103], vec![257, 256], vec![181, 182], vec![3, 5461], vec![33, 31, 17], vec![3, 4, 3, 4, 3, 4, 3, 5]]);
    for (hi, s) in huge.iter().enumerate() {
        let (a, nd) = (centred(s), s.len());
        let mut calls: Vec<String> = vec!["transpose=none".into()];
        if nd >= 2 {
            // every rotation [k..nd, 0..k] in one of its spellings, the last axis first, the first axis last, a swap, a non-rotation
            for k in 1..nd { if nd > 6 && k % 4 != 1 { continue; }
                let rot: Vec<isize> = (0..nd).map(|i| spell((k + i) % nd, nd, (i + hi) % 3 == 0)).collect(); calls.push(format!("transpose={}", show_list(&rot))); }
            calls.push("swapaxes=0=-1".into()); calls.push("moveaxis=0=-1".into()); calls.push("moveaxis=-1=0".into()); calls.push(format!("rollaxis={}=none", nd - 1));
            calls.push("rollaxis=-1=1".into());
            if nd >= 3 { calls.push("swapaxes=1=2".into()); calls.push(format!("moveaxis=0,1={},{}", nd - 1, nd - 2)); let p = rng.perm(nd); calls.push(format!("transpose={}", show_list(&p))); }
        }
        for (ci, c) in calls.iter().enumerate() {
            if !thorough && hi >= 12 && ci % 2 == 1 { continue; }
            out(format!("huge {a} {c}"));
        }
    }
    // the model itself at the 2^14 threshold (2.2 s per case)
    out(format!("transpose {} none", centred(&[130, 130])));
    if thorough { out(format!("moveaxis {} 0 -1", centred(&[10, 11, 12, 13]))); out(format!("transpose {} none", centred(&[128, 129]))); out(format!("swapaxes {} 0 1", centred(&[129, 131]))); }

    // ================================================================== robustness streams, part 3
    // ---- (12) element layout: EVERY case above and below also runs on element types of 2, 3, 5, 6, 9, 12, 16, 20, 32, 36, 40, 48
    //      bytes (`on_layouts_arr!` + `layout_images` in exec).  Added here: matrices around the tile edges that `64 / size_of::<T>()`
    //      gives for those sizes (5, 7, 10, 12, 21, 32) — every r, c in 1..=6 with all spellings of the flip, and lengths around 10,
    //      12, 21, 42, 63 in both positions; rank 3 with such lengths in every position
    for r in 1..=6usize { for c in 1..=6usize { flips(&centred(&[r, c]), out); } }
    let tl = [5usize, 10, 11, 12, 13, 20, 21, 22, 42, 43, 63];
    for (ri, &r) in tl.iter().enumerate() { for (ci, &c) in tl.iter().enumerate() {
        if r * c > 1000 || (!thorough && (ri + 2 * ci) % 3 != 0) { continue; }
        let a = centred(&[r, c]);
        out(format!("transpose {a} none")); out(format!("swapaxes {a} 0 -1")); out(format!("rollaxis {a} 1 none")); out(format!("moveaxis {a} -2 1")); out(format!("transpose {a} 0,1"));
    } }
    for s in [vec![5usize, 21, 2], vec![2, 5, 21], vec![21, 2, 5], vec![10, 10, 3], vec![3, 22, 11], vec![6, 5, 4, 3]] { all_ops_on(&s, &centred(&s), &mut rng, !thorough, out); }

    // ---- (13) values related in a way random data never is: all elements equal (a constant source — only the shape can go wrong,
    //      and a "nothing to do" shortcut forgets exactly that), all zero, and mixtures of tags that are `==` in some image but not
    //      identical (tags 0 / 5 are -0.0 / +0.0 in the bit-wise compared f64 image, 0 / 8 the same -0.0, 2 / 10 two NaNs), in the
    //      Thue–Morse arrangement (no period for a stride to fall into)
    let tm = |k: usize| (k.count_ones() % 2) as usize;
    let mut vshapes: Vec<Vec<usize>> = vec![vec![1], vec![4], vec![2, 3], vec![3, 2], vec![1, 5], vec![2, 2], vec![3, 3], vec![2, 3, 4], vec![4, 1, 3], vec![2, 2, 2, 2], vec![8, 9], vec![17, 16], vec![33, 31], vec![3, 8, 5], vec![2, 0, 3]];
    if thorough { vshapes.extend(vec![vec![64, 65], vec![5, 5, 5, 5], vec![1, 300], vec![130, 9]]); }
    for s in &vshapes {
        let (nd, n) = (s.len(), s.iter().product::<usize>());
        let spell_arr = |vals: Vec<i64>| format!("{}:{}", show_list(s), show_list(&vals));
        let mut arrs = vec![spell_arr(vec![7; n]), spell_arr(vec![0; n])];
        for (x, y) in [(0i64, 5i64), (0, 8), (2, 10), (5, 13)] { arrs.push(spell_arr((0..n).map(|k| if tm(k) == 0 { x } else { y }).collect())); }
        for (ai, a) in arrs.iter().enumerate() {
            out(format!("transpose {a} none"));
            let rot: Vec<usize> = (0..nd).map(|k| (k + 1) % nd).collect();
            out(format!("transpose {a} {}", show_list(&rot)));
            out(format!("transpose {a} {}", show_list(&(0..nd).collect::<Vec<_>>())));
            if nd >= 2 {
                out(format!("swapaxes {a} 0 -1")); out(format!("moveaxis {a} 0 -1")); out(format!("rollaxis {a} {} none", nd - 1));
                out(format!("chain {a} transpose=none|swapaxes=0=1|moveaxis=-1=0"));
                if ai >= 2 && nd >= 3 { out(format!("swapaxes {a} 1 2")); out(format!("moveaxis {a} 0,1 {},{}", nd - 1, nd - 2)); }
            }
        }
    }

    // ---- (15) axis arguments at the ends of the isize range and k * 2^64 / small + c (a product or sum with them wraps modulo 2^64
    //      into the legal range); every one must be refused, and is directly followed by a valid call
    for s in [vec![3usize], vec![2, 3], vec![2, 1, 3], vec![2, 3, 2, 2]] {
        let (a, nd) = (tag(&s), s.len());
        let mut bads: Vec<isize> = vec![isize::MAX, isize::MAX - 1, isize::MIN, isize::MIN + 1, isize::MIN + nd as isize, isize::MIN + nd as isize - 1, -(nd as isize) - 1, 1 << 62, -(1 << 62)];
        for c in 0..nd as isize { for d in [3isize, 4, 5, 6, 8, 12] { bads.push(((1i128 << 64) / d as i128) as isize + c); } bads.push(isize::MAX - c); bads.push(isize::MIN + (1 << 32) + c); }
        for bad in bads {
            out(format!("swapaxes {a} {bad} 0")); out(format!("swapaxes {a} 0 {bad}")); out(format!("rollaxis {a} {bad} none")); out(format!("rollaxis {a} 0 {bad}"));
            out(format!("moveaxis {a} {bad} 0")); out(format!("moveaxis {a} 0 {bad}"));
            let mut ax: Vec<isize> = (0..nd as isize).collect(); ax[nd - 1] = bad; out(format!("transpose {a} {}", show_list(&ax)));
            out(format!("transpose {a} none"));
        }
    }

    // ---- (11) giant shapes: more than 2^20 elements (a blocked / tiled / strided path that only starts there and has a wrong tail,
    //      corner, lane offset or block-start coordinate).  `giant iota:SHAPE step`: the driver answers the model's axis order, the
    //      harness compares every element in place with the validated native gather.  Ranks 1..4 (5 in thorough); the moved axis
    //      first / in the middle / last; the identity order; extents that are / are not multiples of 64; exactly 2^20 elements and
    //      2^20 + a little; every operation.  Quick: one to three calls per shape; thorough: every rotation, swaps, moves, rolls.
    let mut giants = giant_shapes();
    giants.extend(vec![vec![1024, 1024], vec![1024, 1025], vec![1088, 1024], vec![128, 128, 64], vec![128, 65, 128], vec![33, 32, 31, 33], vec![2, 2, 2, 131_073], vec![16, 65, 16, 64], vec![1, 1_048_577], vec![1_048_583, 1],
                       vec![1449, 1451], vec![2, 1025, 1025], vec![2, 1_048_579]]);   // above 2^21 with rank >= 2; one lane above 2^20
    if thorough { giants.extend(vec![vec![16, 16, 16, 16, 17], vec![3, 5, 7, 11, 13, 73], vec![2048, 1023], vec![2, 1_048_575]]); }
    let quick_calls: &[(&[usize], &[&str])] = &[
        (&[1 << 20 | 5], &["transpose=none"]),
        (&[3, 400_001], &["transpose=none", "transpose=0,1"]),
        (&[400_001, 3], &["swapaxes=0=-1"]),
        (&[1031, 1033], &["moveaxis=0=-1", "transpose=-2,-1"]),
        (&[2, 131_073, 4], &["transpose=1,2,0", "swapaxes=1=2"]),
        (&[5, 70_000, 4], &["moveaxis=1=0", "transpose=0,1,2"]),
        (&[600, 2, 1000], &["rollaxis=2=0", "transpose=none"]),
        (&[2, 3, 174_763], &["moveaxis=-1=0"]),
        (&[65, 129, 127], &["transpose=1,0,2", "rollaxis=1=none"]),
        (&[1024, 1024], &["transpose=none"]),
        (&[1024, 1025], &["rollaxis=1=none"]),
        (&[1088, 1024], &["transpose=1,0"]),
        (&[128, 65, 128], &["transpose=2,0,1", "swapaxes=0=1"]),
        (&[33, 32, 31, 33], &["transpose=none", "moveaxis=0,1=3,2"]),
        (&[2, 2, 2, 131_073], &["rollaxis=3=1", "transpose=0,1,2,3"]),
        (&[16, 65, 16, 64], &["transpose=3,1,0,2", "swapaxes=1=2"]),
        (&[1, 1_048_577], &["transpose=none"]),
        (&[1449, 1451], &["transpose=none"]),
        (&[2, 1025, 1025], &["transpose=1,2,0"]),
        (&[2, 1_048_579], &["swapaxes=0=1"]),
    ];
    for (gi, s) in giants.iter().enumerate() {
        let (a, nd) = (format!("iota:{}", show_list(s)), s.len());
        if !thorough {
            for (qs, calls) in quick_calls { if *qs == &s[..] { for c in *calls { out(format!("giant {a} {c}")); } } }
            continue;
        }
        let mut calls: Vec<String> = vec!["transpose=none".into(), format!("transpose={}", show_list(&(0..nd).collect::<Vec<_>>()))];
        if nd >= 2 {
            for k in 1..nd { let rot: Vec<isize> = (0..nd).map(|i| spell((k + i) % nd, nd, (i + gi) % 3 == 0)).collect(); calls.push(format!("transpose={}", show_list(&rot))); }
            calls.push("swapaxes=0=-1".into()); calls.push("moveaxis=0=-1".into()); calls.push("moveaxis=-1=0".into()); calls.push(format!("rollaxis={}=none", nd - 1));
            if nd >= 3 { calls.push("swapaxes=1=2".into()); calls.push("rollaxis=-1=1".into()); calls.push("moveaxis=1=0".into()); calls.push(format!("moveaxis=0,1={},{}", nd - 1, nd - 2)); let p = rng.perm(nd); calls.push(format!("transpose={}", show_list(&p))); }
        }
        calls.dedup();
        for c in calls { out(format!("giant {a} {c}")); }
    }
    // a refused call on a giant array, directly followed by a valid one
    out("giant iota:3,400001 swapaxes=0=2".into()); out("giant iota:3,400001 transpose=1,1".into()); out("giant iota:3,400001 swapaxes=0=1".into());
    // above 2^24 elements (lengths that `as f32` arithmetic no longer represents exactly): the u8 image only, thorough only
    if thorough { out("giant8 iota:16777219 transpose=none".into()); out("giant8 iota:4097,4099 transpose=none".into()); out("giant8 iota:3,5592407 moveaxis=0=1".into()); out("giant8 iota:257,255,257 transpose=2,0,1".into()); }
    out("audit".into());
}

// ------------------------------------------------------------------------------------------------ executor

#[derive(Clone)]
enum Call { Transpose(Option<Vec<isize>>), Moveaxis(Vec<isize>, Vec<isize>), Rollaxis(isize, Option<isize>), Swapaxes(isize, isize) }

impl Call {
    fn parse(name: &str, args: &[&str]) -> Option<Call> {
        Some(match (name, args.len()) {
            ("transpose", 1) => Call::Transpose(if args[0] == "none" { None } else { Some(parse_isize_list(args[0])) }),
            ("moveaxis", 2) => Call::Moveaxis(parse_isize_list(args[0]), parse_isize_list(args[1])),
            ("rollaxis", 2) => Call::Rollaxis(args[0].parse().ok()?, parse_opt(args[1])),
            ("swapaxes", 2) => Call::Swapaxes(args[0].parse().ok()?, args[1].parse().ok()?),
            _ => return None,
        })
    }
    /// the plain receiver
    fn on_array<T: ArrayElement>(&self, a: &Array<T>) -> Result<Array<T>, ArrayError> {
        match self {
            Call::Transpose(ax) => a.transpose(ax.clone()),
            Call::Moveaxis(s, d) => a.moveaxis(s.clone(), d.clone()),
            Call::Rollaxis(ax, st) => a.rollaxis(*ax, *st),
            Call::Swapaxes(i, j) => a.swapaxes(*i, *j),
        }
    }
    /// the chained receiver: `impl ArrayAxis<T> for Result<Array<T>, ArrayError>`
    fn on_result<T: ArrayElement>(&self, r: &Result<Array<T>, ArrayError>) -> Result<Array<T>, ArrayError> {
        match self {
            Call::Transpose(ax) => r.transpose(ax.clone()),
            Call::Moveaxis(s, d) => r.moveaxis(s.clone(), d.clone()),
            Call::Rollaxis(ax, st) => r.rollaxis(*ax, *st),
            Call::Swapaxes(i, j) => r.swapaxes(*i, *j),
        }
    }
}

/// `Err(())` = the call panicked
type Out<T> = Result<Result<Array<T>, ArrayError>, ()>;

fn run<T: ArrayElement>(a: &Array<T>, steps: &[Call], chained: bool) -> Out<T> {
    catch_unwind(AssertUnwindSafe(|| {
        if chained { let mut r: Result<Array<T>, ArrayError> = Ok(a.clone()); for c in steps { r = c.on_result(&r); } r }
        else { let mut cur = a.clone(); for c in steps { match c.on_array(&cur) { Ok(x) => cur = x, Err(e) => return Err(e) } } Ok(cur) }
    })).map_err(|_| ())
}

fn class<T: ArrayElement>(o: &Out<T>) -> &'static str { match o { Err(()) => "panic", Ok(Err(_)) => "err", Ok(Ok(_)) => "ok" } }

/// the same steps on the image of the tag array in element type `T`, both receivers; the result must be the image of the i64 result
fn image<T: ArrayElement>(label: &str, shape: &[usize], tags: &[i64], steps: &[Call], canon: &Out<i64>, from: impl Fn(i64) -> T, same: impl Fn(&T, &T) -> bool) -> Option<String> {
    image_on(&[false, true], label, shape, tags, steps, canon, from, same)
}
fn image_on<T: ArrayElement>(receivers: &[bool], label: &str, shape: &[usize], tags: &[i64], steps: &[Call], canon: &Out<i64>, from: impl Fn(i64) -> T, same: impl Fn(&T, &T) -> bool) -> Option<String> {
    let a: Array<T> = Array::new(tags.iter().map(|&t| from(t)).collect(), shape.to_vec()).expect("harness: array literal");
    for &chained in receivers {
        let recv = if chained { "Ok(array) receiver" } else { "plain receiver" };
        let got = run(&a, steps, chained);
        if class(&got) != class(canon) { return Some(format!("TYPE-DIVERGENCE {label}, {recv}: outcome class {} instead of {}", class(&got), class(canon))); }
        if let (Ok(Ok(g)), Ok(Ok(c))) = (&got, canon) {
            if !consistent(g) { return Some(format!("TYPE-DIVERGENCE {label}, {recv}: inconsistent array")); }
            let (gs, cs, ge, ce) = (g.get_shape().unwrap(), c.get_shape().unwrap(), g.get_elements().unwrap(), c.get_elements().unwrap());
            if gs != cs || ge.len() != ce.len() { return Some(format!("TYPE-DIVERGENCE {label}, {recv}: shape {} instead of {}", show_list(&gs), show_list(&cs))); }
            for p in 0..ge.len() { let want = from(ce[p]); if !same(&ge[p], &want) {
                return Some(format!("TYPE-DIVERGENCE {label}, {recv}: flat position {p} holds {:?} instead of {:?} (compared bit-wise for floats)", ge[p], want)); } }
        }
    }
    None
}

/// f64 value classes by tag: -0.0, +0.0, NaN, the smallest subnormal, infinities, ordinary values
fn special_f64(t: i64) -> f64 {
    match t.rem_euclid(8) { 0 => -0.0, 1 => t as f64, 2 => f64::NAN, 3 => -(t as f64) - 0.5, 4 => f64::from_bits(1), 5 => 0.0, 6 => f64::NEG_INFINITY, _ => f64::from_bits(0xFFF8_0000_0000_0001) }
}

// ------------------------------------------------------------------------------------------------ element layouts (part 3, class 12)

/// Element types by SIZE: lib.rs gives 12 bytes (`T3`), 3 bytes (`T3b`) and 32 bytes / not `Copy` (`TW`); the other images of this
/// bin cover 1, 2?, 4, 8 and 24 (String) bytes.  These add 2, 5, 6, 9, 16, 20, 36, 40 and 48 bytes, so that a tile / block / path
/// chosen from `size_of::<T>()` (64 / size, size > 24, size.is_power_of_two(), …) meets a size on every side of its decision.
type L2 = i16;
type L5 = Tuple2<T3b, Tuple2<u8, u8>>;
type L6 = Tuple3<i16, i16, i16>;
type L9 = Tuple3<T3b, T3b, T3b>;
type L16 = Tuple2<i64, u64>;
type L20 = Tuple2<T3, Tuple2<i32, i32>>;
type L36 = Tuple3<T3, T3, T3>;
type L40 = Tuple2<String, Tuple2<i64, i64>>;
type L48 = Tuple2<String, String>;
const _: () = assert!(std::mem::size_of::<T3>() == 12 && std::mem::size_of::<T3b>() == 3 && std::mem::size_of::<TW>() == 32);
const _: () = assert!(std::mem::size_of::<L5>() == 5 && std::mem::size_of::<L6>() == 6 && std::mem::size_of::<L9>() == 9 && std::mem::size_of::<L16>() == 16);
const _: () = assert!(std::mem::size_of::<L20>() == 20 && std::mem::size_of::<L36>() == 36 && std::mem::size_of::<L40>() == 40 && std::mem::size_of::<L48>() == 48);
fn tag_l2(t: i64) -> L2 { (t as i16) ^ 0x2AAA }
fn tag_l5(t: i64) -> L5 { Tuple2(tag_t3b(t), Tuple2(tag_u8(t + 7), tag_u8(3 * t))) }
fn tag_l6(t: i64) -> L6 { Tuple3(t as i16, (t as i16).wrapping_neg(), (t as i16) ^ 0x155) }
fn tag_l9(t: i64) -> L9 { Tuple3(tag_t3b(t), tag_t3b(t + 1), tag_t3b(2 * t)) }
fn tag_l16(t: i64) -> L16 { Tuple2(t, u64::MAX - (t.rem_euclid(1 << 40) as u64)) }
fn tag_l20(t: i64) -> L20 { Tuple2(tag_t3(t), Tuple2(t as i32, !(t as i32))) }
fn tag_l36(t: i64) -> L36 { Tuple3(tag_t3(t), tag_t3(t + 1), tag_t3(-t)) }
fn tag_l40(t: i64) -> L40 { Tuple2(format!("w{t}"), Tuple2(t, -t)) }
fn tag_l48(t: i64) -> L48 { Tuple2(format!("a{t}"), format!("{t}b")) }

/// the odd-layout images of one case.  `lib3` = the three types of lib.rs on these receivers; `extra` = which of the further sizes
/// (a rotating choice of `how_many` of the nine, both receivers alternating) — every case gets some, every size gets thousands of cases
fn layout_images(shape: &[usize], tags: &[i64], steps: &[Call], canon: &Out<i64>, lib3: &[bool], pick: u64, how_many: usize) -> Option<String> {
    let mut div = None
        .or_else(|| image_on(lib3, "Tuple3<i32,i32,i32> (12 bytes)", shape, tags, steps, canon, tag_t3, |x, y| x == y))
        .or_else(|| image_on(lib3, "Tuple3<u8,u8,u8> (3 bytes)", shape, tags, steps, canon, tag_t3b, |x, y| x == y))
        .or_else(|| image_on(lib3, "Tuple2<String,i32> (32 bytes, not Copy)", shape, tags, steps, canon, tag_tw, |x, y| x == y));
    for k in 0..how_many {
        if div.is_some() { break; }
        let which = (pick as usize + k * 4) % 9;
        let rec: &[bool] = if (pick >> 8).wrapping_add(k as u64) % 2 == 0 { &[false] } else { &[true] };
        div = match which {
            0 => image_on(rec, "i16 (2 bytes)", shape, tags, steps, canon, tag_l2, |x, y| x == y),
            1 => image_on(rec, "Tuple2<Tuple3<u8,u8,u8>,Tuple2<u8,u8>> (5 bytes)", shape, tags, steps, canon, tag_l5, |x, y| x == y),
            2 => image_on(rec, "Tuple3<i16,i16,i16> (6 bytes)", shape, tags, steps, canon, tag_l6, |x, y| x == y),
            3 => image_on(rec, "Tuple3 of three Tuple3<u8,u8,u8> (9 bytes)", shape, tags, steps, canon, tag_l9, |x, y| x == y),
            4 => image_on(rec, "Tuple2<i64,u64> (16 bytes)", shape, tags, steps, canon, tag_l16, |x, y| x == y),
            5 => image_on(rec, "Tuple2<Tuple3<i32,i32,i32>,Tuple2<i32,i32>> (20 bytes)", shape, tags, steps, canon, tag_l20, |x, y| x == y),
            6 => image_on(rec, "Tuple3 of three Tuple3<i32,i32,i32> (36 bytes)", shape, tags, steps, canon, tag_l36, |x, y| x == y),
            7 => image_on(rec, "Tuple2<String,Tuple2<i64,i64>> (40 bytes, not Copy)", shape, tags, steps, canon, tag_l40, |x, y| x == y),
            _ => image_on(rec, "Tuple2<String,String> (48 bytes, not Copy)", shape, tags, steps, canon, tag_l48, |x, y| x == y),
        };
    }
    div.map(|d: String| d.replacen("TYPE-DIVERGENCE", "LAYOUT-DIVERGENCE", 1))
}

// ------------------------------------------------------------------------------------------------ native reference

/// `normalize_axis` as the crate's `usize` arithmetic does it (a still-negative sum wraps to a huge value, which is out of range)
fn norm(ax: isize, nd: usize) -> usize { if ax < 0 { (ax + nd as isize) as usize } else { ax as usize } }
fn is_perm(o: &[usize], nd: usize) -> bool { o.len() == nd && { let mut seen = vec![false; nd]; o.iter().all(|&x| x < nd && !std::mem::replace(&mut seen[x], true)) } }
fn distinct<T: PartialEq>(v: &[T]) -> bool { (0..v.len()).all(|i| (0..i).all(|j| v[i] != v[j])) }

/// harness-native reference: the axis order a call asks for, written from the operation's DOCUMENTED meaning (output axis k is input
/// axis order[k]); `Err(())` = the call is refused
fn native_order(nd: usize, call: &Call) -> Result<Vec<usize>, ()> {
    let o: Vec<usize> = match call {
        Call::Transpose(None) => (0..nd).rev().collect(),
        Call::Transpose(Some(ax)) => ax.iter().map(|&a| norm(a, nd)).collect(),
        Call::Swapaxes(i, j) => { let (i, j) = (norm(*i, nd), norm(*j, nd)); if i >= nd || j >= nd { return Err(()); } let mut o: Vec<usize> = (0..nd).collect(); o.swap(i, j); o }
        // the moved axis ends up at position `start`, the others keep their relative order
        Call::Rollaxis(ax, st) => { let (ax, st) = (norm(*ax, nd), st.map_or(0, |s| norm(s, nd))); if ax >= nd || st >= nd { return Err(()); }
            let mut o: Vec<usize> = (0..nd).filter(|&k| k != ax).collect(); o.insert(st, ax); o }
        Call::Moveaxis(src, dst) => {
            if !distinct(src) || src.len() != dst.len() { return Err(()); }
            let (s, d): (Vec<usize>, Vec<usize>) = (src.iter().map(|&a| norm(a, nd)).collect(), dst.iter().map(|&a| norm(a, nd)).collect());
            if !distinct(&s) || !distinct(&d) { return Err(()); }
            if s.iter().all(|&x| x < nd) && d.iter().all(|&x| x < nd) {
                // source axis s[i] lands at position d[i]; the axes that are not moved fill the free positions in their original order
                let mut o: Vec<Option<usize>> = vec![None; nd];
                for (x, y) in s.iter().zip(&d) { o[*y] = Some(*x); }
                let mut rest = (0..nd).filter(|k| !s.contains(k));
                o.into_iter().map(|e| e.or_else(|| rest.next()).unwrap()).collect()
            } else {
                // a destination beyond the rank is tolerated by the code (insert position clamped; used internally with destination = ndim)
                let mut o: Vec<usize> = (0..nd).filter(|k| !s.contains(k)).collect();
                let mut pairs: Vec<(usize, usize)> = d.into_iter().zip(s).collect(); pairs.sort();
                for (y, x) in pairs { let at = y.min(o.len()); o.insert(at, x); }
                o
            }
        }
    };
    if is_perm(&o, nd) { Ok(o) } else { Err(()) }
}

/// out[coordinates c] = in[coordinates c', c'[order[k]] = c[k]] — one division chain per output element, nothing clever.
/// `at(o)` = the flat INPUT position whose element belongs at flat OUTPUT position `o`.
struct Gather { out_shape: Vec<usize>, stride_by_out: Vec<usize> }
impl Gather {
    fn new(shape: &[usize], order: &[usize]) -> Gather {
        let nd = shape.len();
        let mut stride = vec![1usize; nd];
        for k in (0..nd.saturating_sub(1)).rev() { stride[k] = stride[k + 1] * shape[k + 1]; }
        Gather { out_shape: order.iter().map(|&o| shape[o]).collect(), stride_by_out: order.iter().map(|&o| stride[o]).collect() }
    }
    #[inline]
    fn at(&self, o: usize) -> usize {
        let (mut rem, mut pos) = (o, 0usize);
        for k in (0..self.out_shape.len()).rev() { let c = rem % self.out_shape[k]; rem /= self.out_shape[k]; pos += c * self.stride_by_out[k]; }
        pos
    }
    fn coords(&self, o: usize) -> Vec<usize> {
        let mut rem = o; let mut c = vec![0; self.out_shape.len()];
        for k in (0..self.out_shape.len()).rev() { c[k] = rem % self.out_shape[k]; rem /= self.out_shape[k]; }
        c
    }
}
fn native_gather(shape: &[usize], tags: &[i64], order: &[usize]) -> (Vec<usize>, Vec<i64>) {
    let g = Gather::new(shape, order);
    let out = (0..tags.len()).map(|o| tags[g.at(o)]).collect();
    (g.out_shape, out)
}

fn native_steps(shape: &[usize], tags: &[i64], steps: &[Call]) -> Result<(Vec<usize>, Vec<i64>), ()> {
    let mut cur = (shape.to_vec(), tags.to_vec());
    for c in steps { let o = native_order(cur.0.len(), c)?; cur = native_gather(&cur.0, &cur.1, &o); }
    Ok(cur)
}
fn native_text(r: &Result<(Vec<usize>, Vec<i64>), ()>) -> String { match r { Ok((s, e)) => format!("ok {}:{}", show_list(s), show_list(e)), Err(()) => "err".to_string() } }

static ORACLE_VALIDATIONS: std::sync::atomic::AtomicUsize = std::sync::atomic::AtomicUsize::new(0);
static NATIVE_ONLY: std::sync::atomic::AtomicUsize = std::sync::atomic::AtomicUsize::new(0);

// ------------------------------------------------------------------------------------------------ executor

/// a giant array whose flat element k is `from(k)` (never written into a case line, never formatted)
fn giant_image<T: ArrayElement>(shape: &[usize], from: impl Fn(usize) -> T) -> Array<T> {
    let n: usize = shape.iter().product();
    Array::new((0..n).map(from).collect(), shape.to_vec()).expect("harness: giant array")
}
/// compare a giant result in place: shape, element count, then every element against `image(Gather::at(o))`; the report names
/// the first differing position only (and how many positions differ)
fn giant_judge<T: ArrayElement>(label: &str, r: std::thread::Result<Result<Array<T>, ArrayError>>, g: &Gather, n: usize, image: impl Fn(usize) -> T) -> Option<Option<Verdict>> {
    let arr = match r {
        Err(_) => return Some(mismatch("panic".into(), format!("{label}: the call panics; the model accepts it"))),
        Ok(Err(e)) => return Some(mismatch(res_arr::<i64>(&Err(e)), format!("{label}: the call is refused; the model accepts it"))),
        Ok(Ok(a)) => a,
    };
    let (gs, ge) = (arr.get_shape().unwrap(), arr.get_elements().unwrap());
    drop(arr);
    if gs != g.out_shape || ge.len() != n { return Some(mismatch(format!("ok {}:… ({} elements)", show_list(&gs), ge.len()), format!("{label}: result shape {:?} with {} elements, expected shape {:?} with {n}", gs, ge.len(), g.out_shape))); }
    let mut first: Option<usize> = None; let mut bad = 0usize;
    for o in 0..n { if ge[o] != image(g.at(o)) { bad += 1; if first.is_none() { first = Some(o); } } }
    first.map(|o| mismatch(format!("ok {}:… ({n} elements), flat position {o} (coordinates {:?}) holds {:?}", show_list(&gs), g.coords(o), ge[o]),
        format!("{label}: {bad} of {n} positions differ from the native gather (validated against the model on every ordinary case of this run); first at flat position {o} = coordinates {:?}: {:?} instead of {:?} (the element of input flat position {})", g.coords(o), ge[o], image(g.at(o)), g.at(o))))
}

fn parse_steps(text: &str) -> Option<Vec<Call>> {
    if text == "-" { return Some(vec![]); }
    let mut v = vec![];
    for s in text.split('|') { let parts: Vec<&str> = s.split('=').collect(); v.push(Call::parse(parts[0], &parts[1..])?); }
    Some(v)
}

/// what the real crate does: the i64 plain run as text; a difference on the Ok(array) receiver or on another element type is put
/// in front (and then fails the comparison).  `all_types` = all nine images, otherwise u8 / f64(-0.0) / String.
fn observe(shape: &[usize], tags: &[i64], steps: &[Call], all_types: bool) -> String { observe_l(shape, tags, steps, all_types, &[false], shape.iter().sum::<usize>() as u64 * 7 + steps.len() as u64, 1) }
/// `lib3` / `pick` / `extra`: the odd-layout images (see `layout_images`)
fn observe_l(shape: &[usize], tags: &[i64], steps: &[Call], all_types: bool, lib3: &[bool], pick: u64, extra: usize) -> String {
    let a: Array<i64> = Array::new(tags.to_vec(), shape.to_vec()).expect("harness: array literal");
    let canon = run(&a, steps, false);
    let obs = match &canon { Err(()) => "panic".to_string(), Ok(r) => { if let Ok(x) = r { if !consistent(x) { return "ok INCONSISTENT".into(); } } res_arr(r) } };
    let ch = run(&a, steps, true);
    let ch_text = match &ch { Err(()) => "panic".to_string(), Ok(r) => res_arr(r) };
    let mut div = if ch_text != obs { Some(format!("RECEIVER-DIVERGENCE the call on Ok(array) gives `{}`", truncate(&ch_text, 300))) } else { None }
        .or_else(|| image("u8", shape, tags, steps, &canon, tag_u8, |x, y| x == y))
        .or_else(|| image("f64 (tag 0 = -0.0)", shape, tags, steps, &canon, tag_f64z, |x, y| x.to_bits() == y.to_bits()))
        .or_else(|| image("String", shape, tags, steps, &canon, |t| t.to_string(), |x, y| x == y));
    if all_types {
        div = div.or_else(|| image("f64 special values", shape, tags, steps, &canon, special_f64, |x, y| x.to_bits() == y.to_bits()))
        .or_else(|| image("f32 (tag 0 = -0.0)", shape, tags, steps, &canon, |t| if t == 0 { -0.0f32 } else { t as f32 }, |x, y| x.to_bits() == y.to_bits()))
        .or_else(|| image("i8", shape, tags, steps, &canon, tag_i8, |x, y| x == y))
        .or_else(|| image("u64 above 2^53", shape, tags, steps, &canon, |t| u64::MAX - (t.rem_euclid(1 << 40) as u64), |x, y| x == y))
        .or_else(|| image("bool", shape, tags, steps, &canon, |t| t.rem_euclid(2) == 1, |x, y| x == y))
        .or_else(|| image("char", shape, tags, steps, &canon, |t| char::from_u32(0x30 + t.rem_euclid(0x700) as u32).unwrap_or('?'), |x, y| x == y));
    }
    div = div.or_else(|| layout_images(shape, tags, steps, &canon, lib3, pick, extra));
    match div { Some(d) => format!("{d}; i64 plain run: {}", truncate(&obs, 300)), None => obs }
}
/// the i64 plain run only
fn observe_plain(shape: &[usize], tags: &[i64], steps: &[Call]) -> String {
    let a: Array<i64> = Array::new(tags.to_vec(), shape.to_vec()).expect("harness: array literal");
    match run(&a, steps, false) { Err(()) => "panic".to_string(), Ok(r) => res_arr(&r) }
}

/// the answer one member must give: the model's full answer, or — `plan SHAPE|ORDER` — the native gather by the MODEL's axis
/// order (which must be the native reference's order as well)
fn wanted(shape: &[usize], tags: &[i64], steps: &[Call], member: &str) -> Result<String, String> {
    let native = native_steps(shape, tags, steps);
    if let Some(plan) = member.strip_prefix("plan ") {
        let (psh, pord) = plan.split_once('|').ok_or("harness: malformed plan")?;
        let (psh, pord) = (parse_usize_list(psh), parse_usize_list(pord));
        if steps.len() != 1 { return Err("harness: a plan answers one call".into()); }
        let nord = native_order(shape.len(), &steps[0]).map_err(|_| format!("ORACLE-DIVERGENCE the native reference refuses the call, the model's plan is {plan}"))?;
        if nord != pord { return Err(format!("ORACLE-DIVERGENCE native axis order {:?}, the model's {:?}", nord, pord)); }
        let (gs, ge) = native_gather(shape, tags, &pord);
        if gs != psh { return Err(format!("ORACLE-DIVERGENCE native result shape {:?}, the model's {:?}", gs, psh)); }
        NATIVE_ONLY.fetch_add(1, std::sync::atomic::Ordering::Relaxed);
        Ok(format!("ok {}:{}", show_list(&gs), show_list(&ge)))
    } else {
        // every case the model answers in full validates the native reference
        match class_of(member) {
            "ok" => { if native_text(&native) != member { return Err(format!("ORACLE-DIVERGENCE native reference `{}`, model `{}`", truncate(&native_text(&native), 300), truncate(member, 300))); } }
            "err" => { if native.is_ok() { return Err(format!("ORACLE-DIVERGENCE native reference accepts (`{}`), the model refuses", truncate(&native_text(&native), 300))); } }
            _ => {}
        }
        ORACLE_VALIDATIONS.fetch_add(1, std::sync::atomic::Ordering::Relaxed);
        Ok(member.to_string())
    }
}

fn fnv(s: &str) -> u64 { s.bytes().fold(0xcbf29ce484222325u64, |h, b| (h ^ b as u64).wrapping_mul(0x100000001b3)) }

/// a DIFFERENT shape of the same rank that a weak cache key could confuse with `s`: the (-1, +m) neighbour under the polynomial
/// hashes with multiplier m, the reversed shape, two neighbouring lengths exchanged, a length plus 256
fn partner_shape(s: &[usize], kind: u64) -> Option<Vec<usize>> {
    let nd = s.len();
    if nd < 2 { return None; }
    let mut b = s.to_vec();
    match kind % 8 {
        k @ 0..=4 => { let m = [31usize, 33, 37, 131, 257][k as usize]; let p = (0..nd - 1).find(|&p| s[p] >= 2)?; b[p] -= 1; b[p + 1] += m; }
        5 => b.reverse(),
        6 => { let p = (0..nd - 1).find(|&p| s[p] != s[p + 1])?; b.swap(p, p + 1); }
        _ => b[nd - 1] += 256,
    }
    if b == s || b.iter().product::<usize>() > 6000 { None } else { Some(b) }
}

thread_local! {
    /// A-B-A across case lines: the previous case and its plain answer
    static PREV: std::cell::RefCell<Option<(String, Vec<usize>, Vec<i64>, Vec<Call>, String)>> = const { std::cell::RefCell::new(None) };
    static LINE_NO: std::cell::Cell<usize> = const { std::cell::Cell::new(0) };
}

fn mismatch(observed: String, detail: String) -> Option<Verdict> { Some(Verdict::Mismatch { observed, detail }) }

/// `VERIF_SLOW=<seconds>`: case lines that take longer are listed on stderr (used to keep every giant case far below `hang_secs`)
fn exec(op: &str, args: &[&str], expected: &str) -> Option<Verdict> {
    let t0 = std::time::Instant::now();
    let v = exec_case(op, args, expected);
    if let Some(limit) = std::env::var("VERIF_SLOW").ok().and_then(|s| s.parse::<f64>().ok()) {
        let dt = t0.elapsed().as_secs_f64();
        if dt > limit { eprintln!("SLOW {dt:.2}s {op} {}", truncate(&args.join(" "), 120)); }
    }
    v
}

fn exec_case(op: &str, args: &[&str], expected: &str) -> Option<Verdict> {
    match op {
        // last line: how often the native reference was validated against the model in this run
        "audit" => {
            let (v, h) = (ORACLE_VALIDATIONS.load(std::sync::atomic::Ordering::Relaxed), NATIVE_ONLY.load(std::sync::atomic::Ordering::Relaxed));
            let text = format!("ok audit: native gather reference validated against the model's full answer on {v} cases of this run; {h} huge answers built by it from the model's axis order");
            if expected != "ok audit" { return Some(compare_default(text, expected)); }
            return if h > 0 && v < 1000 { mismatch(text, "the native reference was used without having been validated against the model on at least 1000 smaller cases".into()) } else { Some(Verdict::Match(text)) };
        }
        // huge ARR step: the model answers the axis order; elements by the native gather
        "huge" => {
            if args.len() != 2 { return None; }
            let (shape, tags) = parse_arr_raw(args[0]);
            let steps = parse_steps(args[1])?;
            let want = match wanted(&shape, &tags, &steps, expected) { Ok(w) => w, Err(d) => return mismatch(observe_plain(&shape, &tags, &steps), d) };
            let obs = observe(&shape, &tags, &steps, false);
            if obs == want { return Some(Verdict::Match(format!("ok {}:… ({} elements, equal to the native gather by the model's axis order)", obs.split(':').next().unwrap_or("").trim_start_matches("ok "), tags.len()))); }
            if class_of(&obs) == "err" && class_of(&want) == "err" { return Some(Verdict::Match(obs)); }
            let at = obs.bytes().zip(want.bytes()).position(|(x, y)| x != y).unwrap_or(obs.len().min(want.len()));
            let lo = at.saturating_sub(40);
            return mismatch(truncate(&obs, 400), format!("differs from the expected answer at byte {at}: real `…{}`, expected `…{}`", truncate(obs.get(lo..).unwrap_or(""), 120), truncate(want.get(lo..).unwrap_or(""), 120)));
        }
        // giant iota:SHAPE step (part 3, class 11): more than 2^20 elements.  The model answers the axis order and the result shape;
        // the elements are compared IN PLACE with the native gather formula (`Gather::at`, the very function behind `native_gather`,
        // which is validated against the model's full answer on every ordinary case of this run).  Runs: i64 tags on the plain
        // receiver, the u8 image on Ok(array), and — for a third of the lines — the 12-byte tuple image.  `giant8`: the u8 image only.
        "giant" | "giant8" => {
            if args.len() != 2 { return None; }
            let shape = parse_usize_list(args[0].strip_prefix("iota:")?);
            let steps = parse_steps(args[1])?;
            if steps.len() != 1 { return None; }
            let (nd, n) = (shape.len(), shape.iter().product::<usize>());
            let nord = native_order(nd, &steps[0]);
            let call = &steps[0];
            let Some(plan) = expected.strip_prefix("plan ") else {
                // a refused call on a giant array: outcome class only (and the native reference must refuse as well)
                let a = giant_image(&shape, |k| k as u8);
                let obs = match catch_unwind(AssertUnwindSafe(|| call.on_array(&a))) { Err(_) => "panic".to_string(), Ok(Ok(r)) => format!("ok {}:… ({} elements)", show_list(&r.get_shape().unwrap()), r.len().unwrap()), Ok(Err(e)) => res_arr::<i64>(&Err(e)) };
                if class_of(expected) == "err" && nord.is_ok() { return mismatch(obs, "ORACLE-DIVERGENCE the native reference accepts the call, the model refuses".into()); }
                return Some(compare_default(obs, expected));
            };
            let (psh, pord) = plan.split_once('|')?;
            let (psh, pord) = (parse_usize_list(psh), parse_usize_list(pord));
            match &nord { Ok(o) if *o == pord => {}, other => return mismatch("-".into(), format!("ORACLE-DIVERGENCE native axis order {:?}, the model's {:?}", other, pord)) }
            let g = Gather::new(&shape, &pord);
            if g.out_shape != psh { return mismatch("-".into(), format!("ORACLE-DIVERGENCE native result shape {:?}, the model's {:?}", g.out_shape, psh)); }
            NATIVE_ONLY.fetch_add(1, std::sync::atomic::Ordering::Relaxed);
            let mut ran: Vec<&str> = vec![];
            if op == "giant" {
                let a = iota_tags(&shape);
                let r = catch_unwind(AssertUnwindSafe(|| call.on_array(&a))); drop(a);
                if let Some(m) = giant_judge("i64 tags, plain receiver", r, &g, n, |p| p as i64) { return m; }
                ran.push("i64 plain");
            }
            {
                let a = Ok(giant_image(&shape, |k| tag_u8(k as i64)));
                let r = catch_unwind(AssertUnwindSafe(|| call.on_result(&a))); drop(a);
                if let Some(m) = giant_judge("u8 image, Ok(array) receiver", r, &g, n, |p| tag_u8(p as i64)) { return m; }
                ran.push("u8 on Ok(array)");
            }
            if op == "giant" && fnv(&format!("{} {}", args[0], args[1])) % 3 == 0 {
                let a = giant_image(&shape, |k| tag_t3(k as i64));
                let r = catch_unwind(AssertUnwindSafe(|| call.on_array(&a))); drop(a);
                if let Some(m) = giant_judge("Tuple3<i32,i32,i32> (12 bytes) image, plain receiver", r, &g, n, |p| tag_t3(p as i64)) { return m; }
                ran.push("12-byte tuple");
            }
            return Some(Verdict::Match(format!("ok {}:… ({n} elements; {}: all equal to the native gather, model order {})", show_list(&psh), ran.join(", "), show_list(&pord))));
        }
        // pair ARRA ARRB step: on a FRESH thread A, B, A; on another fresh thread B, A, B — every run judged
        "pair" => {
            if args.len() != 3 { return None; }
            let (ea, eb) = expected.split_once(" ; ")?;
            let steps = parse_steps(args[2])?;
            let ma = parse_arr_raw(args[0]); let mb = parse_arr_raw(args[1]);
            let wa = match wanted(&ma.0, &ma.1, &steps, ea) { Ok(w) => w, Err(d) => return mismatch("-".into(), d) };
            let wb = match wanted(&mb.0, &mb.1, &steps, eb) { Ok(w) => w, Err(d) => return mismatch("-".into(), d) };
            for first_a in [true, false] {
                let seq: Vec<(&'static str, (Vec<usize>, Vec<i64>), String)> = if first_a { vec![("first", ma.clone(), wa.clone()), ("second", mb.clone(), wb.clone()), ("first", ma.clone(), wa.clone())] }
                    else { vec![("second", mb.clone(), wb.clone()), ("first", ma.clone(), wa.clone()), ("second", mb.clone(), wb.clone())] };
                let st = steps.clone();
                let res = std::thread::Builder::new().stack_size(64 << 20).spawn(move || {
                    for (pos, (which, m, w)) in seq.iter().enumerate() {
                        let obs = observe(&m.0, &m.1, &st, false);
                        let same = obs == *w || (class_of(&obs) == "err" && class_of(w) == "err");
                        if !same { return Some((format!("run {} of the thread ({which} array, shape {}): {}", pos + 1, show_list(&m.0), truncate(&obs, 500)), format!("expected `{}`", truncate(w, 500)))); }
                    }
                    None
                }).ok()?.join();
                match res {
                    Ok(None) => {}
                    Ok(Some((o, d))) => return mismatch(o, format!("back-to-back on a fresh thread in the order {}: {d}", if first_a { "first, second, first" } else { "second, first, second" })),
                    Err(_) => return None,
                }
            }
            return Some(Verdict::Match(format!("{wa} ; {}", truncate(&wb, 200))));
        }
        _ => {}
    }
    let (shape, tags) = parse_arr_raw(args[0]);
    let steps: Vec<Call> = match op {
        "chain" => { if args.len() != 2 { return None; } parse_steps(args[1])? }
        _ => vec![Call::parse(op, &args[1..])?],
    };
    // the i64 plain run first: a disagreement with the model is reported as such (most readable)
    let plain = observe_plain(&shape, &tags, &steps);
    if let Verdict::Mismatch { observed, detail } = compare_default(plain.clone(), expected) { PREV.with(|p| *p.borrow_mut() = None); return Some(Verdict::Mismatch { observed, detail }); }
    // the native reference is validated against the model's answer on this case
    if let Err(d) = wanted(&shape, &tags, &steps, expected) { return mismatch(plain, d); }
    let line = format!("{op} {}", args.join(" "));
    let n = tags.len();
    // part 3 (12) element layouts: the single call on the plain receiver through `on_layouts_arr!` (i64 tags against their 12-byte,
    // 3-byte and 32-byte non-Copy images); the Ok(array) receiver, chains and nine further sizes inside `observe_l`
    let single = op != "chain";
    if single {
        let lay = on_layouts_arr!(args[0], |a| steps[0].on_array(&a));
        if let Verdict::Mismatch { observed, detail } = compare_default(lay, expected) { return Some(Verdict::Mismatch { observed: truncate(&observed, 600), detail }); }
    }
    // both receivers and every other element type
    let obs = observe_l(&shape, &tags, &steps, true, if single { &[true] } else { &[false, true] }, fnv(&line), if n <= 1500 { 2 } else { 1 });
    let v = compare_default(obs, expected);
    if let Verdict::Mismatch { .. } = v { return Some(v); }
    // A-B-A inside the case: the same call on a partner shape a weak cache key could confuse with this one (judged by the native
    // reference), then this case again
    if n >= 2 && n <= 700 {
        // the same shape with the values reversed (same multiset / checksum): a cache keyed by a fingerprint of the values
        let rt: Vec<i64> = tags.iter().rev().copied().collect();
        let (got, want) = (observe_plain(&shape, &rt, &steps), native_text(&native_steps(&shape, &rt, &steps)));
        if !(got == want || (class_of(&got) == "err" && want == "err")) {
            return mismatch(format!("A-B-A, the same call on the same shape with the values reversed: {}", truncate(&got, 400)), format!("native reference: `{}`", truncate(&want, 400)));
        }
    }
    if n <= 700 {
        if let Some(bs) = partner_shape(&shape, fnv(&line)) {
            let bn: usize = bs.iter().product();
            let bt: Vec<i64> = (0..bn as i64).map(|t| t - (bn / 2) as i64).collect();
            let got = observe_plain(&bs, &bt, &steps);
            let want = native_text(&native_steps(&bs, &bt, &steps));
            if !(got == want || (class_of(&got) == "err" && want == "err")) {
                return mismatch(format!("A-B-A, the same call on the partner shape {} directly after this case: {}", show_list(&bs), truncate(&got, 400)), format!("native reference (validated against the model on every case of this run): `{}`", truncate(&want, 400)));
            }
            let again = observe_plain(&shape, &tags, &steps);
            if again != plain { return mismatch(format!("STATE-DIVERGENCE this case again, after the same call on shape {}: {}", show_list(&bs), truncate(&again, 400)), format!("first answer `{}`", truncate(&plain, 400))); }
        }
    }
    // A-B-A across case lines: for a third of the lines the previous case is executed again and must repeat its answer
    let no = LINE_NO.with(|c| { c.set(c.get() + 1); c.get() });
    let prev = PREV.with(|p| p.borrow_mut().take());
    if n <= 3000 && no % 3 != 0 { PREV.with(|p| *p.borrow_mut() = Some((line, shape.clone(), tags.clone(), steps.clone(), plain.clone()))); }
    if let Some((pl, ps, pt, pst, pans)) = prev {
        if no % 3 == 0 {
            let again = observe_plain(&ps, &pt, &pst);
            if again != pans { return mismatch(format!("STATE-DIVERGENCE re-run of the previous case: {}", truncate(&again, 400)), format!("A-B-A: the previous case `{}` executed again after this case answers differently; first `{}`", truncate(&pl, 200), truncate(&pans, 400))); }
        }
    }
    Some(v)
}

/// non-trivial: at least two axes longer than one (a permutation can then really reorder elements)
fn nontrivial(op: &str, args: &[&str]) -> bool {
    if op == "audit" { return false; }
    let shape = match args[0].strip_prefix("iota:") { Some(sh) => parse_usize_list(sh), None => parse_arr_raw(args[0]).0 };
    shape.iter().filter(|&&d| d > 1).count() >= 2
}

fn main() {
    // hang watchdog: the slowest case lines (timed with VERIF_SLOW under a load average of 22: `giant8` 0.8 s, `giant` 0.5 s, `pair` with a
    // 65 539-long axis 0.8 s) keep a margin of more than 50x
    harness_main(Spec { prop: "C06", gen, exec, nontrivial, hang_secs: 45,
        rule: "exhaustive: every shape rank<=4 len<=3 (+ 15 shapes with zero-length axes incl. [0,0],[0,3],[2,0,3]) x every permutation of its axes x sign spellings (all 2^rank for rank<=3 / thorough; 3 patterns for rank 4 quick); every (i,j) x 4 spellings for swapaxes / single-axis moveaxis / rollaxis(+None); every ordered pair of sources x destinations for 2-axis moveaxis, sampled 3+-axis lists; malformed stream (axis = ndim, ndim+1, -ndim-1, +-1000, repeated axes, wrong lengths); chains (permutation then inverse, same call twice, roll/move back, error passed on); seeded random rank 5 (6 in thorough) len<=4. Sizes: big_shapes() (axis lengths 7-17 in every position, counts >256/>1024/>4096 up to 70x70), every matrix r,c in 7..=17 x 11 spellings of the flip, matrices around 32 (thorough: 64) and long thin ones, rank 3 over {1,2,8,9,17}^3, random rank 2-5 with long axes, round-trip chains on big shapes. EVERY case runs on i64 tags (compared with the model) and on the u8, i8, u64>2^53, f64(-0.0), f32(-0.0), f64 special values (NaN, subnormal, +-0, inf; bit-wise), bool, String, char images, each on the plain AND the Ok(array) receiver. Tag arrays: shape AND every element compared. PART 2: a harness-native reference (axis order from the documented meaning + gather by coordinates) is validated against the model's full answer on EVERY case; huge shapes (`huge`: huge_shapes() + 7 more, 16 384..140 000 elements, every rotation order, swaps, moves, rolls, non-rotations): the model answers the axis order (read off its own transpose on the all-2 stand-in of the same rank), elements by the validated native gather (`audit` demands >= 1000 validations); hidden state: `pair` = two shapes colliding under weak keys (polynomial hashes with multipliers 31,33,37,131,257; equal count; permuted lengths; lengths + 256 / + 65536) on a fresh thread A B A, then on another fresh thread B A B; every case <= 700 elements also runs A-B-A inside exec against a partner shape of that kind (partner judged by the native reference), and for a third of the lines the previous line is re-executed; every axis length 1..300 leading and non-leading; axis arguments c+2^8, c+2^16, c+2^32, 3*2^32 (must be refused), each refusal followed by a valid call; ranks 4..8 with 3..6-entry moveaxis lists (every ordering of three destinations), mixed spellings. PART 3: (12) element layout - every case also runs on element types of 2, 3, 5, 6, 9, 12, 16, 20, 32 (not Copy), 36, 40, 48 bytes (single calls: on_layouts_arr! on the plain receiver + the Ok(array) receiver; chains: both; a rotating pair of the further sizes per case), plus every matrix r,c in 1..=6 x 11 spellings of the flip, matrices with lengths around the tile edges 5/10/12/21/42/63 and rank 3/4 shapes with them; (11) `giant iota:SHAPE step`: 23 (thorough 27) shapes with 2^20 .. 2.2*10^6 elements (three above 2^21 with rank >= 2), ranks 1-4 (thorough 6), exactly 2^20 and just above, extents multiples / non-multiples of 64, moved axis first / middle / last, identity order, all four operations (quick 30 calls + 3 refusal lines; thorough every rotation, swaps, moves, rolls, a random order: ~250 calls) - the model answers the axis order, every element compared in place with the validated native gather formula on i64 (plain), u8 (Ok(array)) and for a third of the lines the 12-byte tuple; thorough: four `giant8` cases above 2^24 elements (u8 only); (13) constant / all-zero arrays and Thue-Morse mixtures of tags that are == but not identical in the bit-wise compared f64 image (-0.0/+0.0, two NaNs) on 15 (19) shapes; (15) axis arguments isize::MAX, isize::MIN (+ndim, +2^32), +-2^62, 2^64/d + c for d in 3,4,5,6,8,12 in every argument position, each refusal followed by a valid call. non-trivial = >=2 axes longer than 1" });
}
