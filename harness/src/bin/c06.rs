//! C06 — axis permutations: transpose / moveaxis / rollaxis / swapaxes. Value protocol with tags.
//!
//! Every case is executed on the i64 tag array (the answer compared with the model) AND on nine images of the tag array in
//! other element types (u8, i8, u64 beyond 2^53, f64 with tag 0 = -0.0, f32 likewise, an f64 table of special values
//! (-0.0, +0.0, NaN, subnormal, inf) compared bit-wise, bool, String, char), each through BOTH receivers: the plain
//! `Array<T>` call and the same call on `Ok(array)` through `impl ArrayAxis<T> for Result<Array<T>, ArrayError>`.
use arrharness::*;
use std::panic::{catch_unwind, AssertUnwindSafe};

fn spell(ax: usize, nd: usize, neg: bool) -> isize { if neg { ax as isize - nd as isize } else { ax as isize } }

// ------------------------------------------------------------------------------------------------ generator

/// the six spellings of "flip a matrix" (all must be the reversed-axes transpose)
fn flips(a: &str, out: &mut dyn FnMut(String)) {
    out(format!("transpose {a} none")); out(format!("transpose {a} 1,0")); out(format!("transpose {a} -1,-2"));
    out(format!("swapaxes {a} 0 1")); out(format!("swapaxes {a} -1 0"));
    out(format!("moveaxis {a} 0 -1")); out(format!("moveaxis {a} 1 0")); out(format!("rollaxis {a} 1 none")); out(format!("rollaxis {a} -1 0"));
    out(format!("transpose {a} 0,1")); out(format!("transpose {a} -2,1"));
}

/// tag array whose tag 0 (= -0.0 / the zero element in every image) sits in the middle instead of at flat position 0
fn centred(s: &[usize]) -> String { let n: usize = s.iter().product(); if n < 2 { tag(s) } else { tag_off(s, -((n / 2) as i64)) } }

fn inverse(p: &[usize]) -> Vec<usize> { let mut q = vec![0; p.len()]; for (k, &x) in p.iter().enumerate() { q[x] = k; } q }

/// every operation on one (possibly big) shape: all permutations for rank <= 3 (sampled above), every swap / single move / roll
fn all_ops_on(s: &[usize], a: &str, rng: &mut Rng, light: bool, out: &mut dyn FnMut(String)) {
    let nd = s.len();
    out(format!("transpose {a} none"));
    let perms: Vec<Vec<usize>> = if nd <= 3 { permutations(nd) } else {
        let mut v = vec![(0..nd).collect::<Vec<_>>(), (0..nd).rev().collect(), (0..nd).map(|k| (k + 1) % nd).collect()];
        for _ in 0..(if light { 1 } else { 4 }) { v.push(rng.perm(nd)); } v };
    for p in &perms {
        let m = rng.below(1 << nd);
        for mask in [0usize, (1 << nd) - 1, m] {
            if light && mask != m { continue; }
            let ax: Vec<isize> = p.iter().enumerate().map(|(k, &x)| spell(x, nd, (mask >> k) & 1 == 1)).collect();
            out(format!("transpose {a} {}", show_list(&ax)));
        }
    }
    for i in 0..nd { for j in 0..nd {
        if light && i >= j { continue; }
        let (ni, nj) = (rng.below(2) == 0, rng.below(2) == 0);
        out(format!("swapaxes {a} {} {}", spell(i, nd, ni), spell(j, nd, nj)));
        out(format!("moveaxis {a} {} {}", spell(i, nd, nj), spell(j, nd, ni)));
        out(format!("rollaxis {a} {} {}", spell(i, nd, ni), spell(j, nd, !nj)));
    } out(format!("rollaxis {a} {} none", spell(i, nd, rng.below(2) == 0))); }
    if nd >= 2 && !light {
        let (ps, pd) = (rng.perm(nd), rng.perm(nd)); let k = 2 + rng.below(nd - 1);
        out(format!("moveaxis {a} {} {}", show_list(&ps[..k]), show_list(&pd[..k])));
    }
}

fn step_text(rng: &mut Rng, nd: usize) -> String {
    let sp = |rng: &mut Rng, x: usize| spell(x, nd, rng.below(2) == 0);
    match rng.below(5) {
        0 => "transpose=none".to_string(),
        1 => { let p = rng.perm(nd); let ax: Vec<isize> = p.iter().map(|&x| sp(rng, x)).collect(); format!("transpose={}", show_list(&ax)) }
        2 => { let k = 1 + rng.below(nd); let (ps, pd) = (rng.perm(nd), rng.perm(nd));
               let sv: Vec<isize> = ps[..k].iter().map(|&x| sp(rng, x)).collect(); let dv: Vec<isize> = pd[..k].iter().map(|&x| sp(rng, x)).collect();
               format!("moveaxis={}={}", show_list(&sv), show_list(&dv)) }
        3 => { let (i, j) = (rng.below(nd), rng.below(nd)); if rng.below(4) == 0 { format!("rollaxis={}=none", sp(rng, i)) } else { format!("rollaxis={}={}", sp(rng, i), sp(rng, j)) } }
        _ => { let (i, j) = (rng.below(nd), rng.below(nd)); format!("swapaxes={}={}", sp(rng, i), sp(rng, j)) }
    }
}

fn gen(tier: &str, seed: u64, out: &mut dyn FnMut(String)) {
    let thorough = tier == "thorough";
    let mut rng = Rng::new(seed);
    // corpus of past misses (seeded changes C06-r2-m1, -m2, -m3): one literal witness each; the classes follow in the streams below
    out("transpose 2,3:1,0,2,0,3,0 none".into());
    out("transpose i9,9+1 none".into());
    out("transpose i0,3 none".into());

    let mut all = shapes(1, 4, 1, 3);
    all.extend(vec![vec![2, 0], vec![0], vec![3, 0, 2]]);
    // stream 2 — zero-length axes: every zero shape goes through the whole exhaustive enumeration (+ malformed stream) below
    for z in zero_shapes().into_iter().chain(vec![vec![0, 3], vec![3, 0], vec![0, 3, 0], vec![0, 0, 0], vec![1, 0, 1], vec![2, 1, 0, 3]]) { if !all.contains(&z) { all.push(z); } }
    for s in &all {
        let nd = s.len(); let a = tag(s);
        out(format!("transpose {a} none"));
        for p in permutations(nd) {
            // every sign spelling of every axis (quick: all-positive, all-negative and one seeded mixed pattern)
            let masks: Vec<usize> = if thorough || nd <= 3 { (0..(1usize << nd)).collect() } else { vec![0, (1 << nd) - 1, rng.below(1 << nd)] };
            for m in masks {
                let ax: Vec<isize> = p.iter().enumerate().map(|(k, &x)| spell(x, nd, (m >> k) & 1 == 1)).collect();
                out(format!("transpose {a} {}", show_list(&ax)));
            }
        }
        for i in 0..nd { for j in 0..nd { for m in 0..4 {
            out(format!("swapaxes {a} {} {}", spell(i, nd, m & 1 == 1), spell(j, nd, m & 2 == 2)));
            out(format!("moveaxis {a} {} {}", spell(i, nd, m & 1 == 1), spell(j, nd, m & 2 == 2)));
            out(format!("rollaxis {a} {} {}", spell(i, nd, m & 1 == 1), spell(j, nd, m & 2 == 2)));
        } } out(format!("rollaxis {a} {} none", i)); out(format!("rollaxis {a} {} none", spell(i, nd, true))); }
        // multi-axis moveaxis: all ordered pairs of distinct sources x ordered pairs of distinct destinations; triples sampled
        for s0 in 0..nd { for s1 in 0..nd { if s0 == s1 { continue; } for d0 in 0..nd { for d1 in 0..nd { if d0 == d1 { continue; }
            let neg = rng.below(3) == 0;
            out(format!("moveaxis {a} {},{} {},{}", spell(s0, nd, neg), s1, d0, spell(d1, nd, neg)));
        } } } }
        if nd >= 3 { for _ in 0..(if thorough { 24 } else { 4 }) {
            let (ps, pd) = (rng.perm(nd), rng.perm(nd)); let k = 3 + rng.below(nd - 2);
            out(format!("moveaxis {a} {} {}", show_list(&ps[..k]), show_list(&pd[..k])));
        } }
        // malformed stream (C09 owns the requirement "error, not panic"; compared here too)
        let nd_i = nd as isize;
        for bad in [nd_i, nd_i + 1, -nd_i - 1, 1000, -1000] {
            out(format!("swapaxes {a} {bad} 0")); out(format!("swapaxes {a} 0 {bad}"));
            out(format!("rollaxis {a} {bad} none")); out(format!("rollaxis {a} 0 {bad}"));
            out(format!("moveaxis {a} {bad} 0"));
            let mut ax: Vec<isize> = (0..nd_i).collect(); ax[nd - 1] = bad;
            out(format!("transpose {a} {}", show_list(&ax)));
        }
        out(format!("moveaxis {a} 0 {}", nd)); // destination = ndim: tolerated by the code (clamped): used internally by apply_along_axis
        if nd >= 2 {
            out(format!("transpose {a} {}", show_list(&vec![0isize; nd])));           // repeated axis
            out(format!("transpose {a} {}", show_list(&(0..nd_i - 1).collect::<Vec<_>>()))); // too short
            out(format!("transpose {a} {}", show_list(&(0..nd_i + 1).collect::<Vec<_>>()))); // too long
            out(format!("moveaxis {a} 0,0 0,1")); out(format!("moveaxis {a} 0,1 1,1")); out(format!("moveaxis {a} 0,-{nd} 0,1")); out(format!("moveaxis {a} 0,1 0"));
        }
        // stream 5 — a permutation followed by its inverse, and the same call twice, threaded through one chain (rank <= 3: every
        // permutation; rank 4: sampled); the tag with value 0 sits in the middle of the array
        let c = centred(s);
        let perms = if nd <= 3 || thorough { permutations(nd) } else { (0..3).map(|_| rng.perm(nd)).collect() };
        for p in perms {
            let q = inverse(&p);
            let neg = rng.below(2) == 0;
            let (ps, qs): (Vec<isize>, Vec<isize>) = (p.iter().map(|&x| spell(x, nd, neg)).collect(), q.iter().map(|&x| spell(x, nd, !neg)).collect());
            out(format!("chain {c} transpose={}|transpose={}", show_list(&ps), show_list(&qs)));
            out(format!("chain {c} transpose={}|transpose={}", show_list(&ps), show_list(&ps)));
            // moving the axes p -> 0..nd is the transpose with order inverse... stated by the model; compared here
            out(format!("chain {c} moveaxis={}={}|moveaxis={}={}", show_list(&ps), show_list(&(0..nd).collect::<Vec<_>>()), show_list(&(0..nd).collect::<Vec<_>>()), show_list(&ps)));
        }
        out(format!("chain {c} transpose=none|transpose=none")); out(format!("chain {c} -"));
        for i in 0..nd { for j in 0..nd {
            out(format!("chain {c} swapaxes={i}={}|swapaxes={}={i}", spell(j, nd, true), spell(j, nd, true)));
            out(format!("chain {c} rollaxis={i}={j}|moveaxis={j}={i}"));
            out(format!("chain {c} moveaxis={i}={j}|moveaxis={}={}", spell(j, nd, true), spell(i, nd, true)));
        } }
        out(format!("chain {c} transpose={}|transpose=none", show_list(&vec![0isize; nd + 1])));   // an error in the middle of a chain is passed on
    }
    // random beyond the exhaustive scope: rank 5 (and 6 in thorough), lengths up to 4
    let n_rand = if thorough { 3000 } else { 300 };
    for _ in 0..n_rand {
        let nd = if thorough { 5 + rng.below(2) } else { 5 };
        let s: Vec<usize> = (0..nd).map(|_| 1 + rng.below(if nd == 6 { 3 } else { 4 })).collect();
        let a = tag(&s);
        match rng.below(4) {
            0 => { let p = rng.perm(nd); let ax: Vec<isize> = p.iter().map(|&x| spell(x, nd, rng.below(2) == 0)).collect(); out(format!("transpose {a} {}", show_list(&ax))); }
            1 => { let k = 1 + rng.below(nd); let (ps, pd) = (rng.perm(nd), rng.perm(nd));
                   let sv: Vec<isize> = ps[..k].iter().map(|&x| spell(x, nd, rng.below(2) == 0)).collect();
                   let dv: Vec<isize> = pd[..k].iter().map(|&x| spell(x, nd, rng.below(2) == 0)).collect();
                   out(format!("moveaxis {a} {} {}", show_list(&sv), show_list(&dv))); }
            2 => out(format!("rollaxis {a} {} {}", spell(rng.below(nd), nd, rng.below(2) == 0), spell(rng.below(nd), nd, rng.below(2) == 0))),
            _ => out(format!("swapaxes {a} {} {}", spell(rng.below(nd), nd, rng.below(2) == 0), spell(rng.below(nd), nd, rng.below(2) == 0))),
        }
    }

    // ------------------------------------------------------------------ stream 1 — sizes beyond the small scope
    // (the model's transpose is a quadratic scatter: ~0.3 s for 70x70, so shapes above 2500 elements get the light op set in quick)
    for s in big_shapes() {
        let n: usize = s.iter().product();
        all_ops_on(&s, &centred(&s), &mut rng, !thorough && n > 2500, out);
    }
    // every matrix with both axis lengths in 7..=17 (tile / unroll boundaries 8 and 16 from both sides), all spellings of the flip
    for r in 7..=17usize { for c in 7..=17usize { flips(&centred(&[r, c]), out); } }
    // boundaries 32 and 64 (quick: 15..17 x 31..33 both ways; thorough adds 63..65 and long thin matrices)
    let mut edge: Vec<Vec<usize>> = vec![];
    for &r in &[15usize, 16, 17, 31, 32, 33] { for &c in &[31usize, 32, 33] { edge.push(vec![r, c]); edge.push(vec![c, r]); } }
    edge.extend(vec![vec![1, 300], vec![300, 1], vec![2, 1030], vec![129, 9], vec![9, 129], vec![3, 257], vec![255, 3]]);
    if thorough { for &r in &[9usize, 63, 64, 65] { for &c in &[63usize, 64, 65] { edge.push(vec![r, c]); edge.push(vec![c, r]); } }
                  edge.extend(vec![vec![1, 4100], vec![4100, 1], vec![2, 2050], vec![513, 8], vec![9, 500]]); }
    edge.sort(); edge.dedup();
    for s in &edge { let a = centred(s); if thorough { flips(&a, out); } else { out(format!("transpose {a} none")); out(format!("swapaxes {a} -1 0")); out(format!("moveaxis {a} 0 -1")); } }
    // rank 3 with every axis from {1,2,8,9,17}: every permutation, every swap / move / roll
    let lens = [1usize, 2, 8, 9, 17];
    for &x in &lens { for &y in &lens { for &z in &lens {
        let s = vec![x, y, z]; let n = x * y * z;
        if n > (if thorough { 2500 } else { 1400 }) || [x, y, z].iter().filter(|&&d| d >= 8).count() == 0 { continue; }
        all_ops_on(&s, &centred(&s), &mut rng, !thorough && n > 300, out);
    } } }
    // random rank 2..5 with one or two long axes (7..17) among short ones
    for _ in 0..(if thorough { 1500 } else { 250 }) {
        let nd = 2 + rng.below(4);
        let mut s: Vec<usize> = (0..nd).map(|_| 1 + rng.below(3)).collect();
        for _ in 0..(1 + rng.below(2)) { let k = rng.below(nd); s[k] = 7 + rng.below(11); }
        if s.iter().product::<usize>() > 2000 { continue; }
        let a = centred(&s);
        if rng.below(3) == 0 {
            let steps: Vec<String> = (0..(2 + rng.below(3))).map(|_| step_text(&mut rng, nd)).collect();
            out(format!("chain {a} {}", steps.join("|")));
        } else {
            let st = step_text(&mut rng, nd); let parts: Vec<&str> = st.split('=').collect();
            out(format!("{} {a} {}", parts[0], parts[1..].join(" ")));
        }
    }
    // chains on big shapes: flip and flip back, three-cycle thrice
    for s in big_shapes().into_iter().chain(vec![vec![9, 10], vec![13, 10], vec![17, 9], vec![12, 20], vec![33, 9]]) {
        let n: usize = s.iter().product(); if n > (if thorough { 5000 } else { 1500 }) { continue; }
        let (a, nd) = (centred(&s), s.len());
        out(format!("chain {a} transpose=none|transpose=none"));
        if nd >= 2 { out(format!("chain {a} swapaxes=0=-1|swapaxes=-1=0")); out(format!("chain {a} rollaxis=-1=0|moveaxis=0=-1")); }
        if nd >= 3 { let rot: Vec<usize> = (0..nd).map(|k| (k + 1) % nd).collect(); let t = format!("transpose={}", show_list(&rot)); out(format!("chain {a} {}", vec![t; nd].join("|"))); }
    }
}

// ------------------------------------------------------------------------------------------------ executor

#[derive(Clone)]
enum Call { Transpose(Option<Vec<isize>>), Moveaxis(Vec<isize>, Vec<isize>), Rollaxis(isize, Option<isize>), Swapaxes(isize, isize) }

impl Call {
    fn parse(name: &str, args: &[&str]) -> Option<Call> {
        Some(match (name, args.len()) {
            ("transpose", 1) => Call::Transpose(if args[0] == "none" { None } else { Some(parse_isize_list(args[0])) }),
            ("moveaxis", 2) => Call::Moveaxis(parse_isize_list(args[0]), parse_isize_list(args[1])),
            ("rollaxis", 2) => Call::Rollaxis(args[0].parse().ok()?, parse_opt(args[1])),
            ("swapaxes", 2) => Call::Swapaxes(args[0].parse().ok()?, args[1].parse().ok()?),
            _ => return None,
        })
    }
    /// the plain receiver
    fn on_array<T: ArrayElement>(&self, a: &Array<T>) -> Result<Array<T>, ArrayError> {
        match self {
            Call::Transpose(ax) => a.transpose(ax.clone()),
            Call::Moveaxis(s, d) => a.moveaxis(s.clone(), d.clone()),
            Call::Rollaxis(ax, st) => a.rollaxis(*ax, *st),
            Call::Swapaxes(i, j) => a.swapaxes(*i, *j),
        }
    }
    /// the chained receiver: `impl ArrayAxis<T> for Result<Array<T>, ArrayError>`
    fn on_result<T: ArrayElement>(&self, r: &Result<Array<T>, ArrayError>) -> Result<Array<T>, ArrayError> {
        match self {
            Call::Transpose(ax) => r.transpose(ax.clone()),
            Call::Moveaxis(s, d) => r.moveaxis(s.clone(), d.clone()),
            Call::Rollaxis(ax, st) => r.rollaxis(*ax, *st),
            Call::Swapaxes(i, j) => r.swapaxes(*i, *j),
        }
    }
}

/// `Err(())` = the call panicked
type Out<T> = Result<Result<Array<T>, ArrayError>, ()>;

fn run<T: ArrayElement>(a: &Array<T>, steps: &[Call], chained: bool) -> Out<T> {
    catch_unwind(AssertUnwindSafe(|| {
        if chained { let mut r: Result<Array<T>, ArrayError> = Ok(a.clone()); for c in steps { r = c.on_result(&r); } r }
        else { let mut cur = a.clone(); for c in steps { match c.on_array(&cur) { Ok(x) => cur = x, Err(e) => return Err(e) } } Ok(cur) }
    })).map_err(|_| ())
}

fn class<T: ArrayElement>(o: &Out<T>) -> &'static str { match o { Err(()) => "panic", Ok(Err(_)) => "err", Ok(Ok(_)) => "ok" } }

/// the same steps on the image of the tag array in element type `T`, both receivers; the result must be the image of the i64 result
fn image<T: ArrayElement>(label: &str, shape: &[usize], tags: &[i64], steps: &[Call], canon: &Out<i64>, from: impl Fn(i64) -> T, same: impl Fn(&T, &T) -> bool) -> Option<String> {
    let a: Array<T> = Array::new(tags.iter().map(|&t| from(t)).collect(), shape.to_vec()).expect("harness: array literal");
    for chained in [false, true] {
        let recv = if chained { "Ok(array) receiver" } else { "plain receiver" };
        let got = run(&a, steps, chained);
        if class(&got) != class(canon) { return Some(format!("TYPE-DIVERGENCE {label}, {recv}: outcome class {} instead of {}", class(&got), class(canon))); }
        if let (Ok(Ok(g)), Ok(Ok(c))) = (&got, canon) {
            if !consistent(g) { return Some(format!("TYPE-DIVERGENCE {label}, {recv}: inconsistent array")); }
            let (gs, cs, ge, ce) = (g.get_shape().unwrap(), c.get_shape().unwrap(), g.get_elements().unwrap(), c.get_elements().unwrap());
            if gs != cs || ge.len() != ce.len() { return Some(format!("TYPE-DIVERGENCE {label}, {recv}: shape {} instead of {}", show_list(&gs), show_list(&cs))); }
            for p in 0..ge.len() { let want = from(ce[p]); if !same(&ge[p], &want) {
                return Some(format!("TYPE-DIVERGENCE {label}, {recv}: flat position {p} holds {:?} instead of {:?} (compared bit-wise for floats)", ge[p], want)); } }
        }
    }
    None
}

/// f64 value classes by tag: -0.0, +0.0, NaN, the smallest subnormal, infinities, ordinary values
fn special_f64(t: i64) -> f64 {
    match t.rem_euclid(8) { 0 => -0.0, 1 => t as f64, 2 => f64::NAN, 3 => -(t as f64) - 0.5, 4 => f64::from_bits(1), 5 => 0.0, 6 => f64::NEG_INFINITY, _ => f64::from_bits(0xFFF8_0000_0000_0001) }
}

fn exec(op: &str, args: &[&str], expected: &str) -> Option<Verdict> {
    let (shape, tags) = parse_arr_raw(args[0]);
    let steps: Vec<Call> = match op {
        "chain" => { if args.len() != 2 { return None; }
            if args[1] == "-" { vec![] } else { let mut v = vec![]; for s in args[1].split('|') { let parts: Vec<&str> = s.split('=').collect(); v.push(Call::parse(parts[0], &parts[1..])?); } v } }
        _ => vec![Call::parse(op, &args[1..])?],
    };
    let a = parse_arr_i64(args[0]);
    let canon = run(&a, &steps, false);
    let mut obs = match &canon { Err(()) => "panic".to_string(), Ok(r) => { if let Ok(x) = r { if !consistent(x) { return Some(compare_default("ok INCONSISTENT".into(), expected)); } } res_arr(r) } };
    // a disagreement of the i64 plain run with the model is reported as such (most readable); otherwise:
    if let Verdict::Mismatch { observed, detail } = compare_default(obs.clone(), expected) { return Some(Verdict::Mismatch { observed, detail }); }
    // both receivers on i64 (full text), then every other element type on both receivers
    let ch = run(&a, &steps, true);
    let ch_text = match &ch { Err(()) => "panic".to_string(), Ok(r) => res_arr(r) };
    let div = if ch_text != obs { Some(format!("RECEIVER-DIVERGENCE the call on Ok(array) gives `{}`", truncate(&ch_text, 300))) } else { None }
        .or_else(|| image("u8", &shape, &tags, &steps, &canon, tag_u8, |x, y| x == y))
        .or_else(|| image("f64 (tag 0 = -0.0)", &shape, &tags, &steps, &canon, tag_f64z, |x, y| x.to_bits() == y.to_bits()))
        .or_else(|| image("f64 special values", &shape, &tags, &steps, &canon, special_f64, |x, y| x.to_bits() == y.to_bits()))
        .or_else(|| image("f32 (tag 0 = -0.0)", &shape, &tags, &steps, &canon, |t| if t == 0 { -0.0f32 } else { t as f32 }, |x, y| x.to_bits() == y.to_bits()))
        .or_else(|| image("i8", &shape, &tags, &steps, &canon, tag_i8, |x, y| x == y))
        .or_else(|| image("u64 above 2^53", &shape, &tags, &steps, &canon, |t| u64::MAX - (t.rem_euclid(1 << 40) as u64), |x, y| x == y))
        .or_else(|| image("bool", &shape, &tags, &steps, &canon, |t| t.rem_euclid(2) == 1, |x, y| x == y))
        .or_else(|| image("String", &shape, &tags, &steps, &canon, |t| t.to_string(), |x, y| x == y))
        .or_else(|| image("char", &shape, &tags, &steps, &canon, |t| char::from_u32(0x30 + t.rem_euclid(0x700) as u32).unwrap_or('?'), |x, y| x == y));
    if let Some(d) = div { obs = format!("{d}; i64 plain run: {}", truncate(&obs, 300)); }
    Some(compare_default(obs, expected))
}

/// non-trivial: at least two axes longer than one (a permutation can then really reorder elements)
fn nontrivial(_op: &str, args: &[&str]) -> bool { parse_arr_raw(args[0]).0.iter().filter(|&&d| d > 1).count() >= 2 }

fn main() {
    harness_main(Spec { prop: "C06", gen, exec, nontrivial, hang_secs: 20,
        rule: "exhaustive: every shape rank<=4 len<=3 (+ 15 shapes with zero-length axes incl. [0,0],[0,3],[2,0,3]) x every permutation of its axes x sign spellings (all 2^rank for rank<=3 / thorough; 3 patterns for rank 4 quick); every (i,j) x 4 spellings for swapaxes / single-axis moveaxis / rollaxis(+None); every ordered pair of sources x destinations for 2-axis moveaxis, sampled 3+-axis lists; malformed stream (axis = ndim, ndim+1, -ndim-1, +-1000, repeated axes, wrong lengths); chains (permutation then inverse, same call twice, roll/move back, error passed on); seeded random rank 5 (6 in thorough) len<=4. Sizes: big_shapes() (axis lengths 7-17 in every position, counts >256/>1024/>4096 up to 70x70), every matrix r,c in 7..=17 x 11 spellings of the flip, matrices around 32 (thorough: 64) and long thin ones, rank 3 over {1,2,8,9,17}^3, random rank 2-5 with long axes, round-trip chains on big shapes. EVERY case runs on i64 tags (compared with the model) and on the u8, i8, u64>2^53, f64(-0.0), f32(-0.0), f64 special values (NaN, subnormal, +-0, inf; bit-wise), bool, String, char images, each on the plain AND the Ok(array) receiver. Tag arrays: shape AND every element compared. non-trivial = >=2 axes longer than 1" });
}
