//! C06 — axis permutations: transpose / moveaxis / rollaxis / swapaxes. Value protocol with tags.
use arrharness::*;

fn spell(ax: usize, nd: usize, neg: bool) -> isize { if neg { ax as isize - nd as isize } else { ax as isize } }

fn gen(tier: &str, seed: u64, out: &mut dyn FnMut(String)) {
    let thorough = tier == "thorough";
    let mut rng = Rng::new(seed);
    let mut all = shapes(1, 4, 1, 3);
    all.extend(vec![vec![2, 0], vec![0], vec![3, 0, 2]]);
    for s in &all {
        let nd = s.len(); let a = tag(s);
        out(format!("transpose {a} none"));
        for p in permutations(nd) {
            // every sign spelling of every axis (quick: all-positive, all-negative and one seeded mixed pattern)
            let masks: Vec<usize> = if thorough || nd <= 3 { (0..(1usize << nd)).collect() } else { vec![0, (1 << nd) - 1, rng.below(1 << nd)] };
            for m in masks {
                let ax: Vec<isize> = p.iter().enumerate().map(|(k, &x)| spell(x, nd, (m >> k) & 1 == 1)).collect();
                out(format!("transpose {a} {}", show_list(&ax)));
            }
        }
        for i in 0..nd { for j in 0..nd { for m in 0..4 {
            out(format!("swapaxes {a} {} {}", spell(i, nd, m & 1 == 1), spell(j, nd, m & 2 == 2)));
            out(format!("moveaxis {a} {} {}", spell(i, nd, m & 1 == 1), spell(j, nd, m & 2 == 2)));
            out(format!("rollaxis {a} {} {}", spell(i, nd, m & 1 == 1), spell(j, nd, m & 2 == 2)));
        } } out(format!("rollaxis {a} {} none", i)); out(format!("rollaxis {a} {} none", spell(i, nd, true))); }
        // multi-axis moveaxis: all ordered pairs of distinct sources x ordered pairs of distinct destinations; triples sampled
        for s0 in 0..nd { for s1 in 0..nd { if s0 == s1 { continue; } for d0 in 0..nd { for d1 in 0..nd { if d0 == d1 { continue; }
            let neg = rng.below(3) == 0;
            out(format!("moveaxis {a} {},{} {},{}", spell(s0, nd, neg), s1, d0, spell(d1, nd, neg)));
        } } } }
        if nd >= 3 { for _ in 0..(if thorough { 24 } else { 4 }) {
            let (ps, pd) = (rng.perm(nd), rng.perm(nd)); let k = 3 + rng.below(nd - 2);
            out(format!("moveaxis {a} {} {}", show_list(&ps[..k]), show_list(&pd[..k])));
        } }
        // malformed stream (C09 owns the requirement "error, not panic"; compared here too)
        let nd_i = nd as isize;
        for bad in [nd_i, nd_i + 1, -nd_i - 1, 1000, -1000] {
            out(format!("swapaxes {a} {bad} 0")); out(format!("swapaxes {a} 0 {bad}"));
            out(format!("rollaxis {a} {bad} none")); out(format!("rollaxis {a} 0 {bad}"));
            out(format!("moveaxis {a} {bad} 0"));
            let mut ax: Vec<isize> = (0..nd_i).collect(); ax[nd - 1] = bad;
            out(format!("transpose {a} {}", show_list(&ax)));
        }
        out(format!("moveaxis {a} 0 {}", nd)); // destination = ndim: tolerated by the code (clamped): used internally by apply_along_axis
        if nd >= 2 {
            out(format!("transpose {a} {}", show_list(&vec![0isize; nd])));           // repeated axis
            out(format!("transpose {a} {}", show_list(&(0..nd_i - 1).collect::<Vec<_>>()))); // too short
            out(format!("transpose {a} {}", show_list(&(0..nd_i + 1).collect::<Vec<_>>()))); // too long
            out(format!("moveaxis {a} 0,0 0,1")); out(format!("moveaxis {a} 0,1 1,1")); out(format!("moveaxis {a} 0,-{nd} 0,1")); out(format!("moveaxis {a} 0,1 0"));
        }
    }
    // random beyond the exhaustive scope: rank 5 (and 6 in thorough), lengths up to 4
    let n_rand = if thorough { 3000 } else { 300 };
    for _ in 0..n_rand {
        let nd = if thorough { 5 + rng.below(2) } else { 5 };
        let s: Vec<usize> = (0..nd).map(|_| 1 + rng.below(if nd == 6 { 3 } else { 4 })).collect();
        let a = tag(&s);
        match rng.below(4) {
            0 => { let p = rng.perm(nd); let ax: Vec<isize> = p.iter().map(|&x| spell(x, nd, rng.below(2) == 0)).collect(); out(format!("transpose {a} {}", show_list(&ax))); }
            1 => { let k = 1 + rng.below(nd); let (ps, pd) = (rng.perm(nd), rng.perm(nd));
                   let sv: Vec<isize> = ps[..k].iter().map(|&x| spell(x, nd, rng.below(2) == 0)).collect();
                   let dv: Vec<isize> = pd[..k].iter().map(|&x| spell(x, nd, rng.below(2) == 0)).collect();
                   out(format!("moveaxis {a} {} {}", show_list(&sv), show_list(&dv))); }
            2 => out(format!("rollaxis {a} {} {}", spell(rng.below(nd), nd, rng.below(2) == 0), spell(rng.below(nd), nd, rng.below(2) == 0))),
            _ => out(format!("swapaxes {a} {} {}", spell(rng.below(nd), nd, rng.below(2) == 0), spell(rng.below(nd), nd, rng.below(2) == 0))),
        }
    }
}

fn exec(op: &str, args: &[&str], expected: &str) -> Option<Verdict> {
    let a = parse_arr_i64(args[0]);
    let obs = match op {
        "transpose" => { let ax: Option<Vec<isize>> = if args[1] == "none" { None } else { Some(parse_isize_list(args[1])) }; guarded(|| res_arr(&a.transpose(ax.clone()))) }
        "moveaxis" => { let (s, d) = (parse_isize_list(args[1]), parse_isize_list(args[2])); guarded(|| res_arr(&a.moveaxis(s.clone(), d.clone()))) }
        "rollaxis" => { let ax: isize = args[1].parse().ok()?; let st: Option<isize> = parse_opt(args[2]); guarded(|| res_arr(&a.rollaxis(ax, st))) }
        "swapaxes" => { let (i, j): (isize, isize) = (args[1].parse().ok()?, args[2].parse().ok()?); guarded(|| res_arr(&a.swapaxes(i, j))) }
        _ => return None,
    };
    Some(compare_default(obs, expected))
}

/// non-trivial: at least two axes longer than one (a permutation can then really reorder elements)
fn nontrivial(_op: &str, args: &[&str]) -> bool { parse_arr_raw(args[0]).0.iter().filter(|&&d| d > 1).count() >= 2 }

fn main() {
    harness_main(Spec { prop: "C06", gen, exec, nontrivial, hang_secs: 20,
        rule: "exhaustive: every shape rank<=4 len<=3 x every permutation of its axes x sign spellings (all 2^rank for rank<=3 / thorough; 3 patterns for rank 4 quick); every (i,j) x 4 spellings for swapaxes / single-axis moveaxis / rollaxis(+None); every ordered pair of sources x destinations for 2-axis moveaxis, sampled 3+-axis lists; malformed stream (axis = ndim, ndim+1, -ndim-1, +-1000, repeated axes, wrong lengths); seeded random rank 5 (6 in thorough) len<=4. Tag arrays: shape AND every element compared. non-trivial = >=2 axes longer than 1" });
}
