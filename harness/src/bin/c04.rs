//! C04 — two-operand elementwise operations act positionwise on broadcast operands.
//!
//! Index protocol.  The model (lean/ArrModel/C04.lean, one definition per lifting pattern) is run by the driver with
//! the *pairing kernel* on tag arrays and answers the result shape and, for every output position, the flat indices
//! (i, j) of the two source elements.  This file
//!   * holds the table "public operation -> lifting pattern" (OPS) — the pattern letter travels in the case line,
//!   * calls the real operation on real values,
//!   * checks shape and, for every position p, `out[p] == kernel(a[i], b[j])` bit-exactly (NaN canonicalised), where
//!     `kernel` is evaluated natively: (1) by the formula written here (`native`, no crate code involved: own casts,
//!     own f64 methods) for every op, and (2) by the same operation applied to the two
//!     one-element arrays `[a[i]]`, `[b[j]]` (`single`) for every op,
//!   * checks commutativity directly on the code (`comm`): op(a,b) == op(b,a).
//!
//! | pattern | public operations (source)                                                                          |
//! |---------|-----------------------------------------------------------------------------------------------------|
//! | B       | add subtract multiply power float_power (arithmetic.rs) logn log_add_exp log_add_exp2 (exp_log.rs)   |
//! |         | atan2 hypot (trigonometric.rs)                                                                       |
//! | G       | divide true_divide fmod remainder mod (arithmetic.rs) — zero in the divisor array => ParameterError  |
//! | GM      | floor_divide (arithmetic.rs) = divide(..).floor()                                                    |
//! | IB      | bitwise_and bitwise_or bitwise_xor left_shift right_shift (binary.rs) — extra is_broadcastable call  |
//! | R       | maximum minimum fmax fmin (extrema.rs) heaviside (misc.rs) copysign nextafter ldexp (floating.rs)    |
//! | RA      | gcd lcm (rational.rs) — abs() of both operands first                                                 |
//! | R3      | clip(Some(lo), Some(hi)) (misc.rs)                                                                   |
use arrharness::*;

const NAN_BITS: u64 = 0x7ff8_0000_0000_0000;

// ------------------------------------------------------------------ the table

#[derive(Clone, Copy, PartialEq)]
enum Dom { General, Divisor, Shift, Small, Exp }

struct OpInfo { name: &'static str, pat: &'static str, comm: bool, float_only: bool, dom: Dom, no_u8: bool }

const fn o(name: &'static str, pat: &'static str, comm: bool, float_only: bool, dom: Dom) -> OpInfo { OpInfo { name, pat, comm, float_only, dom, no_u8: false } }

const OPS: &[OpInfo] = &[
    o("add", "B", true, false, Dom::General), o("subtract", "B", false, false, Dom::General), o("multiply", "B", true, false, Dom::General),
    o("power", "B", false, false, Dom::General), o("float_power", "B", false, false, Dom::General),
    o("logn", "B", false, false, Dom::General), o("log_add_exp", "B", true, false, Dom::General), o("log_add_exp2", "B", true, false, Dom::General),
    OpInfo { name: "atan2", pat: "B", comm: false, float_only: false, dom: Dom::General, no_u8: true }, OpInfo { name: "hypot", pat: "B", comm: true, float_only: false, dom: Dom::General, no_u8: true },
    o("divide", "G", false, false, Dom::Divisor), o("true_divide", "G", false, false, Dom::Divisor), o("fmod", "G", false, false, Dom::Divisor),
    o("remainder", "G", false, false, Dom::Divisor), o("mod", "G", false, false, Dom::Divisor),
    o("floor_divide", "GM", false, false, Dom::Divisor),
    o("bitwise_and", "IB", true, false, Dom::General), o("bitwise_or", "IB", true, false, Dom::General), o("bitwise_xor", "IB", true, false, Dom::General),
    o("left_shift", "IB", false, false, Dom::Shift), o("right_shift", "IB", false, false, Dom::Shift),
    o("maximum", "R", true, false, Dom::General), o("minimum", "R", true, false, Dom::General),
    o("fmax", "R", true, false, Dom::General), o("fmin", "R", true, false, Dom::General),
    o("heaviside", "R", false, false, Dom::General),
    o("copysign", "R", false, true, Dom::General), o("nextafter", "R", false, true, Dom::General), o("ldexp", "R", false, true, Dom::Exp),
    o("gcd", "RA", true, false, Dom::Small), o("lcm", "RA", true, false, Dom::Small),
];
const DIVISION_FAMILY: &[&str] = &["divide", "true_divide", "floor_divide", "fmod", "remainder", "mod"];

fn info(name: &str) -> Option<&'static OpInfo> { OPS.iter().find(|x| x.name == name) }
/// u8 is not `NumericOps`, so `ArrayTrigonometric` (atan2, hypot) is not defined for it; copysign/nextafter/ldexp need `Floating`
fn types_of(op: &OpInfo) -> &'static [&'static str] { if op.float_only { &["f64"] } else if op.no_u8 { &["i32", "i64", "f64"] } else { &["i32", "i64", "u8", "f64"] } }

// ------------------------------------------------------------------ element types

trait Elem: Numeric + 'static {
    fn parse_tok(s: &str) -> Self;
    fn tok(self) -> String;
    /// comparison key: the bits, every NaN identified
    fn key(self) -> u64;
    // the harness's own casts (the crate's `to_f64` / `from_f64` / `to_i32` are NOT used by the native oracle)
    fn f(self) -> f64;
    fn t(v: f64) -> Self;
    fn i(self) -> i32;
    fn band(self, o: Self) -> Self;
    fn bor(self, o: Self) -> Self;
    fn bxor(self, o: Self) -> Self;
    fn shl(self, o: Self) -> Self;
    fn shr(self, o: Self) -> Self;
    fn z() -> Self;
    fn u() -> Self;
    fn pool(d: Dom) -> Vec<Self>;
    /// operations that exist only for some element types (`NumericOps`: atan2, hypot; `Floating`: copysign, nextafter, ldexp)
    fn call_float(_op: &str, _a: &Array<Self>, _b: &Array<Self>) -> Option<Result<Array<Self>, ArrayError>> { None }
}
fn call_trig<N: NumericOps>(op: &str, a: &Array<N>, b: &Array<N>) -> Option<Result<Array<N>, ArrayError>> {
    Some(match op { "atan2" => a.atan2(b), "hypot" => a.hypot(b), _ => return None })
}

macro_rules! elem_int {
    ($t:ty, $pool:expr, $trig:expr) => {
        impl Elem for $t {
            fn call_float(op: &str, a: &Array<Self>, b: &Array<Self>) -> Option<Result<Array<Self>, ArrayError>> { $trig(op, a, b) }
            fn parse_tok(s: &str) -> Self { s.parse().unwrap() }
            fn tok(self) -> String { self.to_string() }
            fn key(self) -> u64 { self as i64 as u64 }
            fn f(self) -> f64 { self as f64 }
            fn t(v: f64) -> Self { v as $t }
            fn i(self) -> i32 { self as i32 }
            fn band(self, o: Self) -> Self { self & o }
            fn bor(self, o: Self) -> Self { self | o }
            fn bxor(self, o: Self) -> Self { self ^ o }
            fn shl(self, o: Self) -> Self { self << o }
            fn shr(self, o: Self) -> Self { self >> o }
            fn z() -> Self { 0 }
            fn u() -> Self { 1 }
            #[allow(irrefutable_let_patterns)]
            fn pool(d: Dom) -> Vec<Self> {
                let general: Vec<i64> = $pool;
                let v: Vec<i64> = match d {
                    Dom::General => general,
                    Dom::Divisor => general.into_iter().filter(|&x| x != 0).collect(),
                    Dom::Shift | Dom::Exp => (0..8).collect(),
                    Dom::Small => (-30..=60).collect(),
                };
                let mut out: Vec<$t> = vec![];
                for x in v { if let Ok(y) = <$t>::try_from(x) { if !out.contains(&y) { out.push(y); } } }
                out
            }
        }
    };
}
fn small_ints() -> Vec<i64> { (-9..=20).collect() }
elem_int!(i32, { let mut v = small_ints(); v.extend([i32::MIN as i64, i32::MIN as i64 + 1, i32::MAX as i64, i32::MAX as i64 - 1, 1 << 30, -(1 << 30), 65535, 65536, -65536, 46340, 46341, 1000, -1000, 12345, -54321, 255, 256, -128]); v }, call_trig::<i32>);
elem_int!(i64, { let mut v = small_ints(); v.extend([2147483647, -2147483647, 2147483648, -2147483648, 2147483649, -2147483649, 4294967296, -4294967296, 4294967295, 1 << 40, -(1 << 40),
    1 << 53, -(1 << 53), (1 << 53) - 1, 1000000007, -99999, 65536, 3037000499, 255, 256]); v }, call_trig::<i64>);
elem_int!(u8, (0..=255).collect(), |_: &str, _: &Array<u8>, _: &Array<u8>| None);

impl Elem for f64 {
    fn parse_tok(s: &str) -> Self { f64::from_bits(u64::from_str_radix(s.strip_prefix('x').unwrap(), 16).unwrap()) }
    fn tok(self) -> String { format!("x{:016x}", self.to_bits()) }
    fn key(self) -> u64 { if self.is_nan() { NAN_BITS } else { self.to_bits() } }
    fn f(self) -> f64 { self }
    fn t(v: f64) -> Self { v }
    fn i(self) -> i32 { self as i32 }
    fn band(self, o: Self) -> Self { (self as i128 & o as i128) as f64 }
    fn bor(self, o: Self) -> Self { (self as i128 | o as i128) as f64 }
    fn bxor(self, o: Self) -> Self { (self as i128 ^ o as i128) as f64 }
    fn shl(self, o: Self) -> Self { ((self as i128) << (o as i128)) as f64 }
    fn shr(self, o: Self) -> Self { ((self as i128) >> (o as i128)) as f64 }
    fn z() -> Self { 0.0 }
    fn u() -> Self { 1.0 }
    fn pool(d: Dom) -> Vec<Self> {
        let general = vec![0.0, -0.0, 1.0, -1.0, 0.5, -0.5, 1.5, 2.0, -2.0, 2.5, 3.0, -3.0, 3.75, 7.0, 10.0, -10.0, 0.1, -0.3, 1e-3, 1e10, -1e10,
            2147483648.0, -2147483649.0, 4294967296.5, 1e308, -1e308, 5e-324, -5e-324, 1.1125369292536007e-308, -1.1125369292536007e-308, f64::MIN_POSITIVE,
            f64::INFINITY, f64::NEG_INFINITY, f64::NAN, std::f64::consts::PI, std::f64::consts::E, 1e-300, 123456.789, -0.001, 9007199254740992.0, 6.0, 12.0, 255.0, 256.0, -7.25, 100.0];
        match d {
            Dom::General => general,
            Dom::Divisor => general.into_iter().filter(|&x| x != 0.0).collect(),
            Dom::Shift => (0..8).map(|x| x as f64).collect(),
            Dom::Exp => (-5..=10).map(|x| x as f64).collect(),
            Dom::Small => { let mut v: Vec<f64> = (-30..=60).map(|x| x as f64).collect(); v.extend([-0.0, 0.5, -0.5, 7.9, 12.25]); v }
        }
    }
    fn call_float(op: &str, a: &Array<f64>, b: &Array<f64>) -> Option<Result<Array<f64>, ArrayError>> {
        Some(match op {
            "copysign" => a.copysign(b),
            "nextafter" => a.nextafter(b),
            "ldexp" => {
                // the argument of ldexp is an Array<i32>: same shape, every value cast
                let bi: Array<i32> = Array::new(b.get_elements().unwrap().iter().map(|&x| x as i32).collect(), b.get_shape().unwrap()).unwrap();
                a.ldexp(&bi)
            }
            _ => return call_trig(op, a, b),
        })
    }
}

// ------------------------------------------------------------------ calling the real crate

fn call<N: Elem>(op: &str, a: &Array<N>, b: &Array<N>) -> Option<Result<Array<N>, ArrayError>> {
    Some(match op {
        "add" => a.add(b), "subtract" => a.subtract(b), "multiply" => a.multiply(b), "divide" => a.divide(b), "true_divide" => a.true_divide(b),
        "floor_divide" => a.floor_divide(b), "power" => a.power(b), "float_power" => a.float_power(b), "fmod" => a.fmod(b), "mod" => a.r#mod(b),
        "remainder" => a.remainder(b),
        "logn" => a.logn(b), "log_add_exp" => a.log_add_exp(b), "log_add_exp2" => a.log_add_exp2(b),
        "bitwise_and" => a.bitwise_and(b), "bitwise_or" => a.bitwise_or(b), "bitwise_xor" => a.bitwise_xor(b),
        "left_shift" => a.left_shift(b), "right_shift" => a.right_shift(b),
        "maximum" => a.maximum(b), "minimum" => a.minimum(b), "fmax" => a.fmax(b), "fmin" => a.fmin(b),
        "heaviside" => a.heaviside(b),
        "gcd" => a.gcd(b), "lcm" => a.lcm(b),
        _ => return N::call_float(op, a, b),
    })
}

/// the scalar kernel written natively (own casts, std f64 methods) — `None` for kernels that are not one-liners
fn native<N: Elem>(op: &str, x: N, y: N) -> Option<N> {
    let (fx, fy) = (x.f(), y.f());
    Some(match op {
        "add" => N::t(fx + fy),
        "subtract" => N::t(fx - fy),
        "multiply" => N::t(fx * fy),
        "divide" | "true_divide" => N::t(fx / fy),
        // divide(..) converts back to the element type, then floor() makes another round trip
        "floor_divide" => N::t(N::t(fx / fy).f().floor()),
        "power" => N::t(fx.powi(y.i())),
        "float_power" => N::t(fx.powf(fy)),
        "fmod" => N::t((fx / fy).floor().mul_add(-fy, fx)),
        "mod" | "remainder" => N::t(fx % fy),
        "logn" => N::t(fx.log(fy)),
        "log_add_exp" => N::t((fx.exp() + fy.exp()).ln()),
        "log_add_exp2" => N::t(fx.mul_add(fx, fy.powi(2)).log2()),
        "atan2" => N::t(fx.atan2(fy)),
        "hypot" => N::t(fx.hypot(fy)),
        "bitwise_and" => x.band(y), "bitwise_or" => x.bor(y), "bitwise_xor" => x.bxor(y),
        "left_shift" => x.shl(y), "right_shift" => x.shr(y),
        "maximum" => if fx.is_nan() || fy.is_nan() { N::t(f64::NAN) } else { N::t(f64::max(fx, fy)) },
        "minimum" => if fx.is_nan() || fy.is_nan() { N::t(f64::NAN) } else { N::t(f64::min(fx, fy)) },
        "fmax" => N::t(f64::max(fx, fy)),
        "fmin" => N::t(f64::min(fx, fy)),
        "heaviside" => if x < N::z() { N::z() } else if x == N::z() { y } else { N::u() },
        "copysign" => N::t(fx.copysign(fy)),
        // gcd / lcm: absolute values (through f64 and back), cast to i32, Euclid; lcm(0,0) = 0
        "gcd" | "lcm" => {
            let (ax, ay) = (N::t(fx.abs()).i(), N::t(fy.abs()).i());
            let (mut g, mut h) = (ax, ay);
            while h != 0 { let r = g % h; g = h; h = r; }
            if op == "gcd" { N::t(g as f64) } else if g == 0 { N::z() } else { N::t((ax * ay / g) as f64) }
        }
        "nextafter" => N::t(if (fx - fy).abs() < 1e-24 { fx } else if fx < fy { fx + f64::EPSILON } else { fx - f64::EPSILON }),
        // the argument of ldexp is an i32 array: the harness casts the second operand's values
        "ldexp" => N::t(if fx == 0. { fx } else { let (mut e, mut sg) = (y.i(), fx); while e > 0 { sg *= 2.; e -= 1; } while e < 0 { sg /= 2.; e += 1; } sg }),
        _ => return None,
    })
}

/// the same operation on the one-element arrays `[x]`, `[y]`
fn single<N: Elem>(op: &str, x: N, y: N) -> Result<N, String> {
    let (a, b) = (Array::new(vec![x], vec![1]).unwrap(), Array::new(vec![y], vec![1]).unwrap());
    match std::panic::catch_unwind(std::panic::AssertUnwindSafe(|| call(op, &a, &b))) {
        Err(_) => Err("panic".into()),
        Ok(None) => Err("unknown op".into()),
        Ok(Some(Err(e))) => Err(format!("err {}", err_name(&e))),
        Ok(Some(Ok(r))) => { let e = r.get_elements().unwrap(); if e.len() == 1 { Ok(e[0]) } else { Err(format!("{} elements", e.len())) } }
    }
}

// ------------------------------------------------------------------ case text

fn parse_vals<N: Elem>(s: &str) -> Option<(Vec<usize>, Vec<N>)> {
    let (sh, el) = s.split_once(':')?;
    let shape = parse_usize_list(sh);
    let vals: Vec<N> = if el == "-" { vec![] } else { el.split(',').map(N::parse_tok).collect() };
    if shape.iter().product::<usize>() != vals.len() { return None; }
    Some((shape, vals))
}
fn show_vals<N: Elem>(shape: &[usize], vals: &[N]) -> String {
    format!("{}:{}", show_list(shape), if vals.is_empty() { "-".to_string() } else { vals.iter().map(|v| v.tok()).collect::<Vec<_>>().join(",") })
}
fn mk<N: Elem>(p: &(Vec<usize>, Vec<N>)) -> Array<N> { Array::new(p.1.clone(), p.0.clone()).expect("harness: malformed array literal") }

/// `ok shape:i/j,i/j` -> (shape, index tuples)
fn parse_expected(e: &str) -> Option<(Vec<usize>, Vec<Vec<usize>>)> {
    let body = e.strip_prefix("ok ")?;
    let (sh, el) = body.split_once(':')?;
    let idx = if el == "-" { vec![] } else { el.split(',').map(|t| t.split('/').map(|x| x.parse().unwrap()).collect()).collect() };
    Some((parse_usize_list(sh), idx))
}

fn stretchable(s: &[usize], t: &[usize]) -> bool {
    if s.len() > t.len() || s.iter().chain(t.iter()).any(|&d| d == 0) { return false; }
    let off = t.len() - s.len();
    s.iter().zip(&t[off..]).all(|(&f, &to)| f == to || f == 1)
}
fn bshape(s: &[usize], t: &[usize]) -> Option<Vec<usize>> {
    let n = s.len().max(t.len());
    let mut r = vec![0; n];
    for k in 0..n {
        let d1 = if k < s.len() { s[s.len() - 1 - k] } else { 1 };
        let d2 = if k < t.len() { t[t.len() - 1 - k] } else { 1 };
        if d1 == 0 || d2 == 0 { return None; }
        r[n - 1 - k] = if d1 == 1 { d2 } else if d2 == 1 || d1 == d2 { d1 } else { return None };
    }
    Some(r)
}

// ------------------------------------------------------------------ exec

enum Obs<N> { Ok(Vec<usize>, Vec<N>, bool), Err(String), Panic }

fn observe<N: Elem>(r: impl FnOnce() -> Option<Result<Array<N>, ArrayError>>) -> Option<Obs<N>> {
    match std::panic::catch_unwind(std::panic::AssertUnwindSafe(r)) {
        Err(_) => Some(Obs::Panic),
        Ok(None) => None,
        Ok(Some(Err(e))) => Some(Obs::Err(err_name(&e).to_string())),
        Ok(Some(Ok(a))) => Some(Obs::Ok(a.get_shape().unwrap(), a.get_elements().unwrap(), consistent(&a))),
    }
}
fn obs_text<N: Elem>(o: &Obs<N>) -> String {
    match o { Obs::Ok(s, v, _) => format!("ok {} values", show_vals(s, v)), Obs::Err(e) => format!("err {e}"), Obs::Panic => "panic".into() }
}

/// compare an observed result with the model's index answer, position by position
fn check_positions<N: Elem>(obs: Obs<N>, expected: &str, kernel: &dyn Fn(&[usize]) -> Result<Vec<(&'static str, N)>, String>) -> Verdict {
    match (&obs, class_of(expected)) {
        (Obs::Err(e), "err") => Verdict::Match(format!("err {e}")),
        (Obs::Panic, "panic") => Verdict::Match("panic".into()),
        (Obs::Ok(shape, vals, cons), "ok") => {
            let Some((eshape, idx)) = parse_expected(expected) else { return Verdict::Mismatch { observed: obs_text(&obs), detail: "harness: unparsable model answer".into() } };
            if !cons { return Verdict::Mismatch { observed: obs_text(&obs), detail: "result array is inconsistent (C01 monitor)".into() }; }
            if *shape != eshape { return Verdict::Mismatch { observed: obs_text(&obs), detail: format!("shape {:?}, the model says {:?}", shape, eshape) }; }
            if vals.len() != idx.len() { return Verdict::Mismatch { observed: obs_text(&obs), detail: format!("{} elements, the model says {}", vals.len(), idx.len()) }; }
            for (p, src) in idx.iter().enumerate() {
                match kernel(src) {
                    Err(why) => return Verdict::Mismatch { observed: obs_text(&obs), detail: format!("position {p}: scalar oracle at sources {:?} failed: {why}", src) },
                    Ok(wants) => for (which, w) in wants {
                        if w.key() != vals[p].key() {
                            return Verdict::Mismatch { observed: obs_text(&obs), detail: format!("position {p}: got {} but the {which} kernel on the elements at flat indices {:?} gives {}", vals[p].tok(), src, w.tok()) };
                        }
                    }
                }
            }
            Verdict::Match(expected.to_string())
        }
        _ => Verdict::Mismatch { observed: obs_text(&obs), detail: format!("model says `{}`", truncate(expected, 300)) },
    }
}

fn run_op<N: Elem>(op: &str, pat: &str, a_s: &str, b_s: &str, expected: &str) -> Option<Verdict> {
    let oi = info(op)?;
    if oi.pat != pat { return None; }
    let (pa, pb) = (parse_vals::<N>(a_s)?, parse_vals::<N>(b_s)?);
    let (a, b) = (mk(&pa), mk(&pb));
    let obs = observe(|| call(op, &a, &b))?;
    // receiver-shaped family: an argument of the same element count that is not a stretch of the receiver's shape is the
    // region C03 leaves open (broadcast_to's equal-count shortcut); compared only when it agrees
    let open = matches!(pat, "R" | "RA") && !stretchable(&pb.0, &pa.0) && pa.1.len() == pb.1.len();
    let (va, vb) = (pa.1.clone(), pb.1.clone());
    let opn = op.to_string();
    let v = check_positions(obs, expected, &move |src: &[usize]| {
        let (x, y) = (*va.get(src[0]).ok_or("source index out of range")?, *vb.get(src[1]).ok_or("source index out of range")?);
        let mut w = vec![];
        if let Some(n) = native(&opn, x, y) { w.push(("native", n)); }
        w.push(("one-element-array", single(&opn, x, y)?));
        Ok(w)
    });
    Some(match v { Verdict::Mismatch { observed, .. } if open => Verdict::Open(observed), v => v })
}

fn run_clip<N: Elem>(a_s: &str, lo_s: &str, hi_s: &str, expected: &str) -> Option<Verdict> {
    let (pa, pl, ph) = (parse_vals::<N>(a_s)?, parse_vals::<N>(lo_s)?, parse_vals::<N>(hi_s)?);
    let (a, lo, hi) = (mk(&pa), mk(&pl), mk(&ph));
    let obs = observe(|| Some(a.clip(Some(lo.clone()), Some(hi.clone()))))?;
    let open = (!stretchable(&pl.0, &pa.0) && pa.1.len() == pl.1.len()) || (!stretchable(&ph.0, &pa.0) && pa.1.len() == ph.1.len());
    let (va, vl, vh) = (pa.1.clone(), pl.1.clone(), ph.1.clone());
    let v = check_positions(obs, expected, &move |src: &[usize]| {
        let (x, l, h) = (*va.get(src[0]).ok_or("index")?, *vl.get(src[1]).ok_or("index")?, *vh.get(src[2]).ok_or("index")?);
        let nat = if x < l { l } else if x > h { h } else { x };
        let one = |v: N| Array::new(vec![v], vec![1]).unwrap();
        let s = match std::panic::catch_unwind(std::panic::AssertUnwindSafe(|| one(x).clip(Some(one(l)), Some(one(h))))) {
            Ok(Ok(r)) => r.get_elements().unwrap()[0], Ok(Err(e)) => return Err(format!("err {}", err_name(&e))), Err(_) => return Err("panic".into()) };
        Ok(vec![("native", nat), ("one-element-array", s)])
    });
    Some(match v { Verdict::Mismatch { observed, .. } if open => Verdict::Open(observed), v => v })
}

/// commutativity observed directly on the code
fn run_comm<N: Elem>(op: &str, pat: &str, a_s: &str, b_s: &str, expected: &str) -> Option<Verdict> {
    let oi = info(op)?;
    if oi.pat != pat || !oi.comm { return None; }
    let (pa, pb) = (parse_vals::<N>(a_s)?, parse_vals::<N>(b_s)?);
    let (a, b) = (mk(&pa), mk(&pb));
    let (r1, r2) = (observe(|| call(op, &a, &b))?, observe(|| call(op, &b, &a))?);
    let mut detail = String::new();
    let observed = match (&r1, &r2) {
        (Obs::Ok(s1, v1, _), Obs::Ok(s2, v2, _)) => {
            if s1 != s2 { detail = format!("shapes {:?} vs {:?}", s1, s2); "ok differ".to_string() }
            else {
                let mut bad = None;
                for p in 0..v1.len() {
                    if v1[p].key() != v2[p].key() {
                        // equal shapes: the sources are a[p], b[p]; a scalar kernel that itself does not commute on this pair
                        // (f64::max on +0.0/-0.0) is outside "operations that commute on scalars"
                        if pa.0 == pb.0 {
                            if let (Ok(s1), Ok(s2)) = (single(op, pa.1[p], pb.1[p]), single(op, pb.1[p], pa.1[p])) { if s1.key() != s2.key() { continue; } }
                        }
                        bad = Some(p); break;
                    }
                }
                match bad { None => "ok equal".to_string(), Some(p) => { detail = format!("position {p}: {} vs {}", v1[p].tok(), v2[p].tok()); "ok differ".to_string() } }
            }
        }
        (Obs::Panic, _) | (_, Obs::Panic) => "panic".to_string(),
        (Obs::Err(e), _) | (_, Obs::Err(e)) => format!("err {e}"),
    };
    Some(match compare_default(observed, expected) {
        Verdict::Mismatch { observed, detail: d } => Verdict::Mismatch { observed, detail: format!("{d}; op(a,b) vs op(b,a): {detail}") },
        v => v })
}

fn exec(op: &str, args: &[&str], expected: &str) -> Option<Verdict> {
    macro_rules! by_type { ($ty:expr, $f:ident, $($arg:expr),*) => { match $ty { "i32" => $f::<i32>($($arg),*), "i64" => $f::<i64>($($arg),*), "u8" => $f::<u8>($($arg),*), "f64" => $f::<f64>($($arg),*), _ => None } } }
    match op {
        "comm" => { if args.len() != 5 { return None; } by_type!(args[2], run_comm, args[0], args[1], args[3], args[4], expected) }
        "clip" => { if args.len() != 5 || args[0] != "R3" { return None; } by_type!(args[1], run_clip, args[2], args[3], args[4], expected) }
        _ => { if args.len() != 4 { return None; } by_type!(args[1], run_op, op, args[0], args[2], args[3], expected) }
    }
}

// ------------------------------------------------------------------ generator

fn hash_str(s: &str) -> u64 { let mut h: u64 = 0xcbf29ce484222325; for b in s.bytes() { h ^= b as u64; h = h.wrapping_mul(0x100000001b3); } h }

/// `n` values from the pool, without repetition while the pool lasts (distinct values expose a permuted result)
fn draw<N: Elem>(rng: &mut Rng, d: Dom, n: usize) -> Vec<N> {
    let pool = N::pool(d);
    let perm = rng.perm(pool.len());
    (0..n).map(|k| if k < pool.len() { pool[perm[k]] } else { pool[rng.below(pool.len())] }).collect()
}

fn fill<N: Elem>(rng: &mut Rng, oi: &OpInfo, sa: &[usize], sb: &[usize]) -> (String, String) {
    let (na, nb) = (sa.iter().product::<usize>(), sb.iter().product::<usize>());
    let da = if oi.dom == Dom::Small { Dom::Small } else { Dom::General };
    let db = oi.dom;
    (show_vals(sa, &draw::<N>(rng, da, na)), show_vals(sb, &draw::<N>(rng, db, nb)))
}
fn fill_ty(rng: &mut Rng, ty: &str, oi: &OpInfo, sa: &[usize], sb: &[usize]) -> (String, String) {
    match ty { "i32" => fill::<i32>(rng, oi, sa, sb), "i64" => fill::<i64>(rng, oi, sa, sb), "u8" => fill::<u8>(rng, oi, sa, sb), _ => fill::<f64>(rng, oi, sa, sb) }
}
/// a case line of the positional stream; the values depend only on (op, type, shapes, salt) — not on the run seed
fn case_line(oi: &OpInfo, ty: &str, sa: &[usize], sb: &[usize], salt: u64) -> String {
    let mut rng = Rng::new(hash_str(&format!("{}|{}|{:?}|{:?}|{}", oi.name, ty, sa, sb, salt)));
    let (a, b) = fill_ty(&mut rng, ty, oi, sa, sb);
    format!("{} {} {} {} {}", oi.name, oi.pat, ty, a, b)
}
/// put a zero (for f64: +0.0 or -0.0) somewhere into the second operand
fn with_zero(line: &str, ty: &str, rng: &mut Rng) -> String {
    let mut parts: Vec<String> = line.split(' ').map(String::from).collect();
    let (sh, el) = parts[4].split_once(':').unwrap();
    let mut toks: Vec<String> = el.split(',').map(String::from).collect();
    let k = rng.below(toks.len());
    toks[k] = if ty == "f64" { if rng.below(2) == 0 { (0.0f64).tok() } else { (-0.0f64).tok() } } else { "0".to_string() };
    parts[4] = format!("{}:{}", sh, toks.join(","));
    parts.join(" ")
}

/// commute-safe values: every scalar kernel of the commutative ops is bit-exactly symmetric on them
fn comm_vals(rng: &mut Rng, ty: &str, oi: &OpInfo, n: usize) -> Vec<String> {
    if oi.dom == Dom::Small { let p: Vec<i64> = (0..=40).collect(); return (0..n).map(|_| { let v = *rng.pick(&p); if ty == "f64" { (v as f64).tok() } else { v.to_string() } }).collect(); }
    match ty {
        "f64" => { let p = [1.0, -1.0, 0.5, 2.0, -2.5, 3.0, 7.0, -10.0, 0.25, 100.0, 2147483648.0, f64::INFINITY, f64::NEG_INFINITY, f64::NAN, 0.0, 12.0, 6.5, -3.0]; (0..n).map(|_| rng.pick(&p).tok()).collect() }
        "u8" => (0..n).map(|_| rng.below(256).to_string()).collect(),
        "i32" => { let p = <i32 as Elem>::pool(Dom::General); (0..n).map(|_| rng.pick(&p).to_string()).collect() }
        _ => { let p = <i64 as Elem>::pool(Dom::General); (0..n).map(|_| rng.pick(&p).to_string()).collect() }
    }
}

/// pair class used for the quick-tier subsample of the refusal / comm streams
fn derive_shape(rng: &mut Rng, base: &[usize]) -> Vec<usize> {
    let k = rng.below(base.len());
    let mut s: Vec<usize> = base[k..].iter().map(|&d| match rng.below(6) { 0 | 1 => 1, 2 => 1 + rng.below(4), _ => d }).collect();
    if rng.below(10) == 0 { s.insert(0, 1 + rng.below(3)); }
    s
}

fn gen(tier: &str, seed: u64, out: &mut dyn FnMut(String)) {
    let thorough = tier == "thorough";
    // (i) corpus of past failures
    for l in [
        "bitwise_xor IB i32 3:1,2,3 2,1:7,8",               // pinned: built with the receiver's shape -> ShapeMustMatchValuesLength
        "bitwise_xor IB i32 1:5 3:1,2,3",                   // pinned: same
        "bitwise_xor IB i64 1,3:1,2,3 1,1,3:4,5,6",         // pinned: values right, shape [1,3] instead of [1,1,3]
        "lcm RA i32 2:0,3 2:0,4",                           // pinned: lcm(0,0) divides by zero
        "lcm RA i32 2,2:0,3,5,0 1:0",
        "maximum R i32 1:1 3:1,2,3",                        // before e71698d: truncated data instead of an error
        "maximum R i32 3,1:1,2,3 1,3:7,8,9",
        "add B i32 2,3:1,2,3,4,5,6 1:10",                   // before e71698d: shape [3,2]
        "divide G f64 2:x3ff0000000000000,x4000000000000000 2:x4000000000000000,x8000000000000000",
        "floor_divide GM i32 3:-7,7,-9 1:2",
    ] { out(l.to_string()); }
    let small = shapes(1, 3, 1, 3);
    // (ii) exhaustive, both tiers: every op x every ordered pair of shapes rank<=3 len<=3 (compatible or not) x every element type
    for oi in OPS.iter() {
        for sa in &small { for sb in &small {
            for ty in types_of(oi) { out(case_line(oi, ty, sa, sb, 0)); }
        } }
    }
    let mut rng = Rng::new(seed ^ 0xC04);
    // clip: receiver x lower x upper bound shapes
    let clip_info = o("clip", "R3", false, false, Dom::General);
    let n_clip = if thorough { 40000 } else { 4000 };
    for k in 0..n_clip {
        let ty = ["i32", "i64", "u8", "f64"][k % 4];
        let sa = rng.pick(&small).clone();
        let pick_bound = |rng: &mut Rng| -> Vec<usize> { match rng.below(5) { 0 => vec![1], 1 => rng.pick(&small).clone(), _ => { let k = rng.below(sa.len()); sa[k..].iter().map(|&d| if rng.below(3) == 0 { 1 } else { d }).collect() } } };
        let (sl, sh) = (pick_bound(&mut rng), pick_bound(&mut rng));
        let (a, l) = fill_ty(&mut rng, ty, &clip_info, &sa, &sl);
        let (_, h) = fill_ty(&mut rng, ty, &clip_info, &sa, &sh);
        out(format!("clip R3 {} {} {} {}", ty, a, l, h));
    }
    // commutativity on the code: every commutative op x every type x every shape (equal shapes: the statement),
    // plus compatible unequal pairs for the both-stretch family
    for oi in OPS.iter().filter(|x| x.comm) {
        for ty in types_of(oi) {
            for sa in &small {
                let n: usize = sa.iter().product();
                let (va, vb) = (comm_vals(&mut rng, ty, oi, n), comm_vals(&mut rng, ty, oi, n));
                out(format!("comm {} {} {} {}:{} {}:{}", oi.name, oi.pat, ty, show_list(sa), va.join(","), show_list(sa), vb.join(",")));
            }
            // receiver-shaped ops commute only on equal shapes (the result takes the receiver's shape)
            let n_pairs = if !matches!(oi.pat, "B" | "IB") { 0 } else if thorough { 300 } else { 40 };
            for _ in 0..n_pairs {
                let (sa, sb) = (rng.pick(&small).clone(), rng.pick(&small).clone());
                let (na, nb): (usize, usize) = (sa.iter().product(), sb.iter().product());
                let (va, vb) = (comm_vals(&mut rng, ty, oi, na), comm_vals(&mut rng, ty, oi, nb));
                out(format!("comm {} {} {} {}:{} {}:{}", oi.name, oi.pat, ty, show_list(&sa), va.join(","), show_list(&sb), vb.join(",")));
            }
        }
    }
    // refusal stream: the division family with a zero in the divisor array
    for name in DIVISION_FAMILY {
        let oi = info(name).unwrap();
        let mut k = 0usize;
        for sa in &small { for sb in &small {
            k += 1;
            if !thorough && k % 6 != 0 { continue; }
            for ty in types_of(oi) {
                if !thorough && rng.below(2) == 0 { continue; }
                let line = case_line(oi, ty, sa, sb, 1);
                out(with_zero(&line, ty, &mut rng));
            }
        } }
    }
    // (iii) seeded random beyond the small scope: rank <= 4, len <= 4, mostly compatible
    let n_rand = if thorough { 150000 } else { 10000 };
    for k in 0..n_rand {
        let oi = &OPS[rng.below(OPS.len())];
        let ty = *rng.pick(types_of(oi));
        let base = { let mut b = rng.shape(2, 4, 4); if rng.below(3) > 0 { while b.len() < 4 { b.insert(0, 1 + rng.below(3)); } } b };
        let (sa, sb) = match rng.below(4) { 0 => (base.clone(), derive_shape(&mut rng, &base)), 1 => (derive_shape(&mut rng, &base), base.clone()), _ => (derive_shape(&mut rng, &base), derive_shape(&mut rng, &base)) };
        let line = case_line(oi, ty, &sa, &sb, seed.wrapping_add(k as u64));
        if DIVISION_FAMILY.contains(&oi.name) && rng.below(8) == 0 { out(with_zero(&line, ty, &mut rng)); } else { out(line); }
    }
    // (iv) malformed: zero-length operands (the broadcast layer refuses them)
    for oi in OPS.iter() {
        let ty = types_of(oi)[0];
        for (sa, sb) in [(vec![0usize], vec![0usize]), (vec![2, 0], vec![2, 1]), (vec![0], vec![3]), (vec![1], vec![0])] {
            out(case_line(oi, ty, &sa, &sb, 2));
        }
    }
}

/// non-trivial: a case of the positional streams whose operands are broadcast-compatible with some operand really
/// stretched along an axis of result length > 1, or a refusal case (zero in the divisor of a division-family op)
fn nontrivial(op: &str, args: &[&str]) -> bool {
    let shape_of = |s: &str| -> Vec<usize> { s.split_once(':').map_or(vec![], |(sh, _)| parse_usize_list(sh)) };
    let (sa, sb, bvals) = match op {
        "comm" => return args.len() == 5 && shape_of(args[3]).iter().product::<usize>() > 1,
        "clip" => { if args.len() != 5 { return false; } (shape_of(args[2]), shape_of(args[3]), "") }
        _ => { if args.len() != 4 { return false; } (shape_of(args[2]), shape_of(args[3]), args[3].split_once(':').map_or("", |x| x.1)) }
    };
    if DIVISION_FAMILY.contains(&op) && bvals.split(',').any(|t| t == "0" || t == "x0000000000000000" || t == "x8000000000000000") { return true; }
    match bshape(&sa, &sb) {
        None => false,
        Some(r) => {
            let n = r.len();
            (0..n).any(|k| {
                let d = |s: &Vec<usize>| if k < s.len() { s[s.len() - 1 - k] } else { 1 };
                r[n - 1 - k] > 1 && (d(&sa) == 1 || d(&sb) == 1)
            })
        }
    }
}

fn main() {
    harness_main(Spec { prop: "C04", gen, exec, nontrivial, hang_secs: 30,
        rule: "31 public two-operand ops (table at the top of harness/src/bin/c04.rs: patterns B, G, GM, IB, R, RA) + clip (R3). Exhaustive: every op x every ordered pair of shapes rank<=3 len<=3 (39^2 = 1521, compatible or not) x element types i32,i64,u8,f64 in both tiers (atan2/hypot are not defined for u8; copysign/nextafter/ldexp f64 only); values drawn without repetition from per-type pools (small ints, ints near +-2^31 and 2^53, +-0.0, subnormals, +-inf, NaN, large finite), divisors never zero, shift counts 0..7, gcd/lcm operands |x|<=60. Streams: corpus; clip with random bound shapes; commutativity op(a,b)==op(b,a) on the code for the 14 commutative ops (all equal shapes + sampled compatible pairs); refusal (a zero, for f64 +0.0 or -0.0, written into the divisor array of the 6 division-family ops); seeded random rank<=4 len<=4 mostly compatible; zero-length operands. Oracle per output position p with model sources (i,j): out[p] == kernel(a[i],b[j]) bit-exactly (NaN canonicalised), kernel = formula written natively in the harness (own casts, std f64 methods; every op) AND the same op on the one-element arrays [a[i]],[b[j]]. distinct = distinct case lines; non-trivial = compatible shapes with some operand stretched along an axis of result length > 1, or a refusal case, or a comm case with more than one element" });
}
