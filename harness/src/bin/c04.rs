//! C04 — two-operand elementwise operations act positionwise on broadcast operands.
//!
//! Index protocol.  The model (lean/ArrModel/C04.lean, one definition per lifting pattern) is run by the driver with
//! the *pairing kernel* on tag arrays and answers the result shape and, for every output position, the flat indices
//! (i, j) of the two source elements.  This file
//!   * holds the table "public operation -> lifting pattern" (OPS) — the pattern letter travels in the case line,
//!   * calls the real operation on real values,
//!   * checks shape and, for every position p, `out[p] == kernel(a[i], b[j])` bit-exactly (NaN canonicalised), where
//!     `kernel` is evaluated natively: (1) by the formula written here (`native`, no crate code involved: own casts,
//!     own f64 methods) for every op, and (2) by the same operation applied to the two
//!     one-element arrays `[a[i]]`, `[b[j]]` (`single`) for every op,
//!   * checks commutativity directly on the code (`comm`): op(a,b) == op(b,a).
//!
//! | pattern | public operations (source)                                                                          |
//! |---------|-----------------------------------------------------------------------------------------------------|
//! | B       | add subtract multiply power float_power (arithmetic.rs) logn log_add_exp log_add_exp2 (exp_log.rs)   |
//! |         | atan2 hypot (trigonometric.rs)                                                                       |
//! | G       | divide true_divide fmod remainder mod (arithmetic.rs) — zero in the divisor array => ParameterError  |
//! | GM      | floor_divide (arithmetic.rs) = divide(..).floor()                                                    |
//! | IB      | bitwise_and bitwise_or bitwise_xor left_shift right_shift (binary.rs) — extra is_broadcastable call  |
//! | R       | maximum minimum fmax fmin (extrema.rs) heaviside (misc.rs) copysign nextafter ldexp (floating.rs)    |
//! | RA      | gcd lcm (rational.rs) — abs() of both operands first                                                 |
//! | R3      | clip(Some(lo), Some(hi)) (misc.rs)                                                                   |
//!
//! Robustness streams (FRAMEWORK.md): EVERY case is executed on three receivers — the plain `a.op(&b)`, the chained
//! `Ok(a).op(&b)` through `impl … for Result<Array<N>, ArrayError>` (must give the bit-identical answer) and an `Err(_)`
//! receiver (must stay an error); element types i8 i16 i32 i64 u8 u16 u32 u64 f32 f64 with values at the limits of every
//! type (saturation of the f64 round trip), beyond 2^53 / 2^63, -0.0, subnormal and sub-EPSILON divisors; operands from
//! `big_shapes()` (axis lengths 7..17, > 256 / 1024 / 4096 elements, both / one / the other operand stretched) and
//! `zero_shapes()`; refusal with the zero at the LAST position of a long divisor.
//! Part 2: hidden state (`seq` lines = several calls on one thread: operand shapes that collide under weak polynomial hashes,
//! permuted / perturbed values, refused-then-accepted calls; an A-B-A re-run of the previous case after every case), huge
//! operands (16 385 .. 140 000 elements, equal shapes and stretched), every axis length 1..300, the SAME OBJECT on both sides
//! (`a.op(&a)` with NaN / inf / -0.0 / limits inside), ranks 5..8, f64::MAX and neighbours.
//! Part 3: a harness-native coordinate formula (`opinion` / `src_index`: result shape + the two / three source positions of every
//! result position, plain Rust, linear) is compared with the FULL model answer on every positional case of the run (counted in
//! the `oracle_report` lines); giant operands (`g` lines: 2^20 < result elements <= 2.2 million, one 2^24+3-element case; named by
//! shape and fill rule, built here, never written out) are judged by model shape + that formula + the native scalar kernel, in
//! place; value relations random data never has (constant operands 0 / 1 / -1 / 2 / NaN / -0.0 / limits on either or both sides,
//! constant but for the last element, +0.0 / -0.0 mixtures, operands equal under == but not bit-identical).
use arrharness::*;
use std::cell::RefCell;
use std::sync::atomic::{AtomicUsize, Ordering};

/// how often the native coordinate formula was compared with the full model answer / had no opinion; giant cases judged through it
static ORACLE_CHECKED: AtomicUsize = AtomicUsize::new(0);
static ORACLE_SILENT: AtomicUsize = AtomicUsize::new(0);
static GIANT: AtomicUsize = AtomicUsize::new(0);
static GIANT_SINGLE: AtomicUsize = AtomicUsize::new(0);

const NAN_BITS: u64 = 0x7ff8_0000_0000_0000;

// ------------------------------------------------------------------ the table

#[derive(Clone, Copy, PartialEq)]
enum Dom { General, Divisor, Shift, Small, Exp }

struct OpInfo { name: &'static str, pat: &'static str, comm: bool, float_only: bool, dom: Dom, no_u8: bool }

const fn o(name: &'static str, pat: &'static str, comm: bool, float_only: bool, dom: Dom) -> OpInfo { OpInfo { name, pat, comm, float_only, dom, no_u8: false } }

const OPS: &[OpInfo] = &[
    o("add", "B", true, false, Dom::General), o("subtract", "B", false, false, Dom::General), o("multiply", "B", true, false, Dom::General),
    o("power", "B", false, false, Dom::General), o("float_power", "B", false, false, Dom::General),
    o("logn", "B", false, false, Dom::General), o("log_add_exp", "B", true, false, Dom::General), o("log_add_exp2", "B", true, false, Dom::General),
    OpInfo { name: "atan2", pat: "B", comm: false, float_only: false, dom: Dom::General, no_u8: true }, OpInfo { name: "hypot", pat: "B", comm: true, float_only: false, dom: Dom::General, no_u8: true },
    o("divide", "G", false, false, Dom::Divisor), o("true_divide", "G", false, false, Dom::Divisor), o("fmod", "G", false, false, Dom::Divisor),
    o("remainder", "G", false, false, Dom::Divisor), o("mod", "G", false, false, Dom::Divisor),
    o("floor_divide", "GM", false, false, Dom::Divisor),
    o("bitwise_and", "IB", true, false, Dom::General), o("bitwise_or", "IB", true, false, Dom::General), o("bitwise_xor", "IB", true, false, Dom::General),
    o("left_shift", "IB", false, false, Dom::Shift), o("right_shift", "IB", false, false, Dom::Shift),
    o("maximum", "R", true, false, Dom::General), o("minimum", "R", true, false, Dom::General),
    o("fmax", "R", true, false, Dom::General), o("fmin", "R", true, false, Dom::General),
    o("heaviside", "R", false, false, Dom::General),
    o("copysign", "R", false, true, Dom::General), o("nextafter", "R", false, true, Dom::General), o("ldexp", "R", false, true, Dom::Exp),
    o("gcd", "RA", true, false, Dom::Small), o("lcm", "RA", true, false, Dom::Small),
];
const DIVISION_FAMILY: &[&str] = &["divide", "true_divide", "floor_divide", "fmod", "remainder", "mod"];

fn info(name: &str) -> Option<&'static OpInfo> { OPS.iter().find(|x| x.name == name) }
/// u8 is not `NumericOps`, so `ArrayTrigonometric` (atan2, hypot) is not defined for it; copysign/nextafter/ldexp need `Floating`
fn types_of(op: &OpInfo) -> &'static [&'static str] { if op.float_only { &["f64"] } else if op.no_u8 { &["i32", "i64", "f64"] } else { &["i32", "i64", "u8", "f64"] } }
/// the element types added by the robustness streams (`NumericOps` = i8 i16 i32 i64 f32 f64; `Floating` = f32 f64)
fn types_new(op: &OpInfo) -> &'static [&'static str] { if op.float_only { &["f32"] } else if op.no_u8 { &["i8", "i16", "f32"] } else { &["i8", "i16", "u16", "u32", "u64", "f32"] } }
fn types_all(op: &OpInfo) -> Vec<&'static str> { types_of(op).iter().chain(types_new(op).iter()).copied().collect() }

// ------------------------------------------------------------------ element types

trait Elem: Numeric + 'static {
    fn parse_tok(s: &str) -> Self;
    fn tok(self) -> String;
    /// comparison key: the bits, every NaN identified
    fn key(self) -> u64;
    // the harness's own casts (the crate's `to_f64` / `from_f64` / `to_i32` are NOT used by the native oracle)
    fn f(self) -> f64;
    fn t(v: f64) -> Self;
    fn i(self) -> i32;
    fn band(self, o: Self) -> Self;
    fn bor(self, o: Self) -> Self;
    fn bxor(self, o: Self) -> Self;
    fn shl(self, o: Self) -> Self;
    fn shr(self, o: Self) -> Self;
    fn z() -> Self;
    fn u() -> Self;
    /// the value pool of the original streams (kept as it was, so that their case lines do not change)
    fn pool(d: Dom) -> Vec<Self>;
    /// the pool of the robustness streams: `pool` + values beyond 2^53 / 2^63, at the limits of the type, sub-EPSILON divisors
    fn pool_x(d: Dom) -> Vec<Self> { Self::pool(d) }
    /// the pool of the part-2 streams: `pool_x` + f64::MAX and its neighbours, the largest subnormal, 1 - EPSILON/2, …
    fn pool_y(d: Dom) -> Vec<Self> { Self::pool_x(d) }
    /// operations that exist only for some element types (`NumericOps`: atan2, hypot; `Floating`: copysign, nextafter, ldexp)
    fn call_float(_op: &str, _a: &Array<Self>, _b: &Array<Self>, _recv: Recv) -> Option<Result<Array<Self>, ArrayError>> { None }
}

/// which receiver the operation is called on
#[derive(Clone, Copy, PartialEq)]
enum Recv { Plain, Chained, ErrRecv }

fn ok_of<N: Numeric>(a: &Array<N>) -> Result<Array<N>, ArrayError> { Ok(a.clone()) }
fn err_of<N: Numeric>(_a: &Array<N>) -> Result<Array<N>, ArrayError> { Err(ArrayError::NotImplemented) }
/// evaluate `$body` with `$r` bound to `&Array<N>`, to `&Ok(array)` or to `&Err(_)`
macro_rules! on_recv {
    ($recv:expr, $a:expr, |$r:ident| $body:expr) => {
        match $recv {
            Recv::Plain => { let $r = $a; $body }
            Recv::Chained => { let tmp = ok_of($a); let $r = &tmp; $body }
            Recv::ErrRecv => { let tmp = err_of($a); let $r = &tmp; $body }
        }
    };
}

fn trig_on<N: NumericOps, R: ArrayTrigonometric<N>>(r: &R, op: &str, b: &Array<N>) -> Option<Result<Array<N>, ArrayError>> {
    Some(match op { "atan2" => r.atan2(b), "hypot" => r.hypot(b), _ => return None })
}
fn call_trig<N: NumericOps>(op: &str, a: &Array<N>, b: &Array<N>, recv: Recv) -> Option<Result<Array<N>, ArrayError>> {
    on_recv!(recv, a, |r| trig_on(r, op, b))
}
fn no_trig<N: Numeric>(_: &str, _: &Array<N>, _: &Array<N>, _: Recv) -> Option<Result<Array<N>, ArrayError>> { None }
fn floating_on<N: Floating, R: ArrayFloating<N>>(r: &R, op: &str, b: &Array<N>) -> Option<Result<Array<N>, ArrayError>> {
    Some(match op {
        "copysign" => r.copysign(b),
        "nextafter" => r.nextafter(b),
        "ldexp" => {
            // the argument of ldexp is an Array<i32>: same shape, every value cast
            let bi: Array<i32> = Array::new(b.get_elements().unwrap().iter().map(|&x| x.to_f64() as i32).collect(), b.get_shape().unwrap()).unwrap();
            r.ldexp(&bi)
        }
        _ => return None,
    })
}

macro_rules! elem_int {
    ($t:ty, $pool:expr, $extra:expr, $trig:expr) => {
        impl Elem for $t {
            fn call_float(op: &str, a: &Array<Self>, b: &Array<Self>, recv: Recv) -> Option<Result<Array<Self>, ArrayError>> { $trig(op, a, b, recv) }
            fn parse_tok(s: &str) -> Self { s.parse().unwrap() }
            fn tok(self) -> String { self.to_string() }
            fn key(self) -> u64 { self as i64 as u64 }
            fn f(self) -> f64 { self as f64 }
            fn t(v: f64) -> Self { v as $t }
            fn i(self) -> i32 { self as i32 }
            fn band(self, o: Self) -> Self { self & o }
            fn bor(self, o: Self) -> Self { self | o }
            fn bxor(self, o: Self) -> Self { self ^ o }
            fn shl(self, o: Self) -> Self { self << o }
            fn shr(self, o: Self) -> Self { self >> o }
            fn z() -> Self { 0 }
            fn u() -> Self { 1 }
            fn pool(d: Dom) -> Vec<Self> { int_pool::<$t>(d, $pool) }
            fn pool_x(d: Dom) -> Vec<Self> { let mut v: Vec<i128> = $pool; v.extend::<Vec<i128>>($extra); int_pool::<$t>(d, v) }
        }
    };
}
fn int_pool<T: TryFrom<i128> + PartialEq>(d: Dom, general: Vec<i128>) -> Vec<T> {
    let v: Vec<i128> = match d {
        Dom::General => general,
        Dom::Divisor => general.into_iter().filter(|&x| x != 0).collect(),
        Dom::Shift | Dom::Exp => (0..8).collect(),
        Dom::Small => (-30..=60).collect(),
    };
    let mut out: Vec<T> = vec![];
    for x in v { if let Ok(y) = T::try_from(x) { if !out.contains(&y) { out.push(y); } } }
    out
}
fn small_ints() -> Vec<i128> { (-9..=20).collect() }
fn with_small(extra: &[i128]) -> Vec<i128> { let mut v = small_ints(); v.extend_from_slice(extra); v }
elem_int!(i32, with_small(&[i32::MIN as i128, i32::MIN as i128 + 1, i32::MAX as i128, i32::MAX as i128 - 1, 1 << 30, -(1 << 30), 65535, 65536, -65536, 46340, 46341, 1000, -1000, 12345, -54321, 255, 256, -128]),
    vec![32767, 32768, -32769, 16777216, 16777217, 127, 128], call_trig::<i32>);
elem_int!(i64, with_small(&[2147483647, -2147483647, 2147483648, -2147483648, 2147483649, -2147483649, 4294967296, -4294967296, 4294967295, 1 << 40, -(1 << 40),
    1 << 53, -(1 << 53), (1 << 53) - 1, 1000000007, -99999, 65536, 3037000499, 255, 256]),
    // beyond 2^53 the f64 round trip loses bits; at the limits the cast back saturates
    vec![(1 << 53) + 1, -((1 << 53) + 1), (1 << 53) + 2, (1 << 53) + 3, (1 << 60) + 1, (1 << 62) + 3, -((1 << 62) + 5), i64::MAX as i128, i64::MAX as i128 - 1, i64::MAX as i128 - 512,
         i64::MIN as i128, i64::MIN as i128 + 1, 1 << 62, 3037000500, 9007199254740993, 4611686018427387905], call_trig::<i64>);
elem_int!(u8, (0..=255).collect(), vec![], no_trig::<u8>);
elem_int!(i8, (-128..=127).collect(), vec![], call_trig::<i8>);
elem_int!(i16, with_small(&[32767, 32766, -32768, -32767, 255, 256, 181, 182, -181, -182, 127, 128, -128, -129, 1000, -1000, 12345, 16384, -16384, 16383, 100, -100]), vec![], call_trig::<i16>);
elem_int!(u16, with_small(&[65535, 65534, 65280, 255, 256, 257, 32767, 32768, 1000, 12345, 4096, 181, 182, 100, 40000]), vec![], no_trig::<u16>);
elem_int!(u32, with_small(&[u32::MAX as i128, u32::MAX as i128 - 1, 1 << 31, (1 << 31) - 1, (1 << 31) + 1, 65535, 65536, 65537, 46340, 46341, 255, 256, 1000000007, 12345, 3000000000, 16777217]), vec![], no_trig::<u32>);
elem_int!(u64, with_small(&[u64::MAX as i128, u64::MAX as i128 - 1, u64::MAX as i128 - 2048, 1 << 63, (1 << 63) - 1, (1 << 63) + 1, (1 << 63) + 4096, 3 << 62, 1 << 53, (1 << 53) + 1, (1 << 53) - 1, 1 << 32, (1 << 32) - 1,
    65536, 255, 256, 1000000007, 4294967297, 9007199254740993]), vec![], no_trig::<u64>);

fn f64_general() -> Vec<f64> {
    vec![0.0, -0.0, 1.0, -1.0, 0.5, -0.5, 1.5, 2.0, -2.0, 2.5, 3.0, -3.0, 3.75, 7.0, 10.0, -10.0, 0.1, -0.3, 1e-3, 1e10, -1e10,
        2147483648.0, -2147483649.0, 4294967296.5, 1e308, -1e308, 5e-324, -5e-324, 1.1125369292536007e-308, -1.1125369292536007e-308, f64::MIN_POSITIVE,
        f64::INFINITY, f64::NEG_INFINITY, f64::NAN, std::f64::consts::PI, std::f64::consts::E, 1e-300, 123456.789, -0.001, 9007199254740992.0, 6.0, 12.0, 255.0, 256.0, -7.25, 100.0]
}
/// tiny non-zero divisors around f64::EPSILON / f32::EPSILON, f32 subnormals, values around 2^24 / 2^63 / 2^64 / f32::MAX
fn f64_extra() -> Vec<f64> {
    vec![1e-17, -2.5e-17, 1e-20, 2.2e-16, -2.2e-16, 2.3e-16, 1.1e-7, -1.1e-7, 1e-40, -1e-40, 1.401298464324817e-45, 1.1754943508222875e-38, 16777216.0, 16777217.0, -16777217.0,
        9223372036854775808.0, -9223372036854775808.0, 18446744073709551616.0, 1e19, -1e19, 3.4028234663852886e38, 3.5e38, -3.5e38, 0.30000000000000004, 4503599627370497.0, -4503599627370496.5]
}
/// the last finite values before +-inf and their neighbours (f64 and f32), the largest subnormal, values next to 1 and 2^52
fn f64_edge() -> Vec<f64> {
    vec![f64::MAX, -f64::MAX, 1.7976931348623155e308, -1.7976931348623155e308, 8.98846567431158e307, 5.992310449541053e307, 3.4028235677973366e38, -3.4028235677973366e38, 3.4028232635611926e38,
         2.225073858507201e-308, f64::EPSILON, 0.9999999999999999, 1.0000000000000002, 4503599627370496.5, 1.3407807929942597e154, -1.3407807929942597e154, 1.8446743523953730e19]
}
macro_rules! elem_float {
    ($t:ty, $ti:ty) => {
        impl Elem for $t {
            // values travel as the bit pattern of the (exactly) widened f64, so that the model driver recognises +-0.0 of either width
            fn parse_tok(s: &str) -> Self { f64::from_bits(u64::from_str_radix(s.strip_prefix('x').unwrap(), 16).unwrap()) as $t }
            fn tok(self) -> String { format!("x{:016x}", (self as f64).to_bits()) }
            fn key(self) -> u64 { if self.is_nan() { NAN_BITS } else { (self as f64).to_bits() } }
            fn f(self) -> f64 { self as f64 }
            fn t(v: f64) -> Self { v as $t }
            fn i(self) -> i32 { self as i32 }
            fn band(self, o: Self) -> Self { (self as $ti & o as $ti) as $t }
            fn bor(self, o: Self) -> Self { (self as $ti | o as $ti) as $t }
            fn bxor(self, o: Self) -> Self { (self as $ti ^ o as $ti) as $t }
            fn shl(self, o: Self) -> Self { ((self as $ti) << (o as $ti)) as $t }
            fn shr(self, o: Self) -> Self { ((self as $ti) >> (o as $ti)) as $t }
            fn z() -> Self { 0.0 }
            fn u() -> Self { 1.0 }
            fn pool(d: Dom) -> Vec<Self> { float_pool::<$t>(d, f64_general()) }
            fn pool_x(d: Dom) -> Vec<Self> { let mut g = f64_general(); g.extend(f64_extra()); float_pool::<$t>(d, g) }
            fn pool_y(d: Dom) -> Vec<Self> { let mut g = f64_general(); g.extend(f64_extra()); g.extend(f64_edge()); float_pool::<$t>(d, g) }
            fn call_float(op: &str, a: &Array<Self>, b: &Array<Self>, recv: Recv) -> Option<Result<Array<Self>, ArrayError>> {
                match op {
                    "copysign" | "nextafter" | "ldexp" => on_recv!(recv, a, |r| floating_on(r, op, b)),
                    _ => call_trig(op, a, b, recv),
                }
            }
        }
    };
}
/// the f64 lists, cast to the element type; a value that repeats after the cast (f32) is kept once; for f64 the lists are as written
fn float_pool<T: Elem>(d: Dom, general: Vec<f64>) -> Vec<T> {
    let v: Vec<f64> = match d {
        Dom::General => general,
        Dom::Divisor => general,
        Dom::Shift => (0..8).map(|x| x as f64).collect(),
        Dom::Exp => (-5..=10).map(|x| x as f64).collect(),
        Dom::Small => { let mut v: Vec<f64> = (-30..=60).map(|x| x as f64).collect(); v.extend([-0.0, 0.5, -0.5, 7.9, 12.25]); v }
    };
    let mut out: Vec<T> = vec![];
    for x in v {
        let y = T::t(x);
        // the divisor pool holds no zero OF THE ELEMENT TYPE (5e-324 is a zero as f32)
        if d == Dom::Divisor && y.f() == 0.0 { continue; }
        if std::mem::size_of::<T>() == 8 || !out.iter().any(|o| o.key() == y.key()) { out.push(y); }
    }
    out
}
elem_float!(f64, i128);
elem_float!(f32, i64);

// ------------------------------------------------------------------ calling the real crate

/// the operations of the traits implemented both for `Array<N>` and for `Result<Array<N>, ArrayError>`, on either receiver
fn call_on<N: Elem, R>(r: &R, op: &str, b: &Array<N>) -> Option<Result<Array<N>, ArrayError>>
where R: ArrayArithmetic<N> + ArrayExpLog<N> + ArrayBinary<N> + ArrayExtrema<N> + ArrayMathMisc<N> + ArrayRational<N> {
    Some(match op {
        "add" => r.add(b), "subtract" => r.subtract(b), "multiply" => r.multiply(b), "divide" => r.divide(b), "true_divide" => r.true_divide(b),
        "floor_divide" => r.floor_divide(b), "power" => r.power(b), "float_power" => r.float_power(b), "fmod" => r.fmod(b), "mod" => r.r#mod(b),
        "remainder" => r.remainder(b),
        "logn" => r.logn(b), "log_add_exp" => r.log_add_exp(b), "log_add_exp2" => r.log_add_exp2(b),
        "bitwise_and" => r.bitwise_and(b), "bitwise_or" => r.bitwise_or(b), "bitwise_xor" => r.bitwise_xor(b),
        "left_shift" => r.left_shift(b), "right_shift" => r.right_shift(b),
        "maximum" => r.maximum(b), "minimum" => r.minimum(b), "fmax" => r.fmax(b), "fmin" => r.fmin(b),
        "heaviside" => r.heaviside(b),
        "gcd" => r.gcd(b), "lcm" => r.lcm(b),
        _ => return None,
    })
}
fn call_recv<N: Elem>(op: &str, a: &Array<N>, b: &Array<N>, recv: Recv) -> Option<Result<Array<N>, ArrayError>> {
    match on_recv!(recv, a, |r| call_on(r, op, b)) { Some(x) => Some(x), None => N::call_float(op, a, b, recv) }
}
fn call<N: Elem>(op: &str, a: &Array<N>, b: &Array<N>) -> Option<Result<Array<N>, ArrayError>> { call_recv(op, a, b, Recv::Plain) }
fn clip_on<N: Elem, R: ArrayMathMisc<N>>(r: &R, lo: &Array<N>, hi: &Array<N>) -> Result<Array<N>, ArrayError> { r.clip(Some(lo.clone()), Some(hi.clone())) }
fn clip_recv<N: Elem>(a: &Array<N>, lo: &Array<N>, hi: &Array<N>, recv: Recv) -> Result<Array<N>, ArrayError> { on_recv!(recv, a, |r| clip_on(r, lo, hi)) }

/// the scalar kernel written natively (own casts, std f64 methods) — `None` for kernels that are not one-liners
fn native<N: Elem>(op: &str, x: N, y: N) -> Option<N> {
    let (fx, fy) = (x.f(), y.f());
    Some(match op {
        "add" => N::t(fx + fy),
        "subtract" => N::t(fx - fy),
        "multiply" => N::t(fx * fy),
        "divide" | "true_divide" => N::t(fx / fy),
        // divide(..) converts back to the element type, then floor() makes another round trip
        "floor_divide" => N::t(N::t(fx / fy).f().floor()),
        "power" => N::t(fx.powi(y.i())),
        "float_power" => N::t(fx.powf(fy)),
        "fmod" => N::t((fx / fy).floor().mul_add(-fy, fx)),
        "mod" | "remainder" => N::t(fx % fy),
        "logn" => N::t(fx.log(fy)),
        "log_add_exp" => N::t((fx.exp() + fy.exp()).ln()),
        "log_add_exp2" => N::t(fx.mul_add(fx, fy.powi(2)).log2()),
        "atan2" => N::t(fx.atan2(fy)),
        "hypot" => N::t(fx.hypot(fy)),
        "bitwise_and" => x.band(y), "bitwise_or" => x.bor(y), "bitwise_xor" => x.bxor(y),
        "left_shift" => x.shl(y), "right_shift" => x.shr(y),
        "maximum" => if fx.is_nan() || fy.is_nan() { N::t(f64::NAN) } else { N::t(f64::max(fx, fy)) },
        "minimum" => if fx.is_nan() || fy.is_nan() { N::t(f64::NAN) } else { N::t(f64::min(fx, fy)) },
        "fmax" => N::t(f64::max(fx, fy)),
        "fmin" => N::t(f64::min(fx, fy)),
        "heaviside" => if x < N::z() { N::z() } else if x == N::z() { y } else { N::u() },
        "copysign" => N::t(fx.copysign(fy)),
        // gcd / lcm: absolute values (through f64 and back), cast to i32, Euclid; lcm(0,0) = 0
        "gcd" | "lcm" => {
            let (ax, ay) = (N::t(fx.abs()).i(), N::t(fy.abs()).i());
            let (mut g, mut h) = (ax, ay);
            while h != 0 { let r = g % h; g = h; h = r; }
            if op == "gcd" { N::t(g as f64) } else if g == 0 { N::z() } else { N::t((ax * ay / g) as f64) }
        }
        "nextafter" => N::t(if (fx - fy).abs() < 1e-24 { fx } else if fx < fy { fx + f64::EPSILON } else { fx - f64::EPSILON }),
        // the argument of ldexp is an i32 array: the harness casts the second operand's values
        "ldexp" => N::t(if fx == 0. { fx } else { let (mut e, mut sg) = (y.i(), fx); while e > 0 { sg *= 2.; e -= 1; } while e < 0 { sg /= 2.; e += 1; } sg }),
        _ => return None,
    })
}

/// the same operation on the one-element arrays `[x]`, `[y]`
fn single<N: Elem>(op: &str, x: N, y: N) -> Result<N, String> {
    let (a, b) = (Array::new(vec![x], vec![1]).unwrap(), Array::new(vec![y], vec![1]).unwrap());
    match std::panic::catch_unwind(std::panic::AssertUnwindSafe(|| call(op, &a, &b))) {
        Err(_) => Err("panic".into()),
        Ok(None) => Err("unknown op".into()),
        Ok(Some(Err(e))) => Err(format!("err {}", err_name(&e))),
        Ok(Some(Ok(r))) => { let e = r.get_elements().unwrap(); if e.len() == 1 { Ok(e[0]) } else { Err(format!("{} elements", e.len())) } }
    }
}

// ------------------------------------------------------------------ case text

fn parse_vals<N: Elem>(s: &str) -> Option<(Vec<usize>, Vec<N>)> {
    let (sh, el) = s.split_once(':')?;
    let shape = parse_usize_list(sh);
    let vals: Vec<N> = if el == "-" { vec![] } else { el.split(',').map(N::parse_tok).collect() };
    if shape.iter().product::<usize>() != vals.len() { return None; }
    Some((shape, vals))
}
fn show_vals<N: Elem>(shape: &[usize], vals: &[N]) -> String {
    format!("{}:{}", show_list(shape), if vals.is_empty() { "-".to_string() } else { vals.iter().map(|v| v.tok()).collect::<Vec<_>>().join(",") })
}
fn mk<N: Elem>(p: &(Vec<usize>, Vec<N>)) -> Array<N> { Array::new(p.1.clone(), p.0.clone()).expect("harness: malformed array literal") }

/// `ok shape:i/j,i/j` -> (shape, index tuples)
fn parse_expected(e: &str) -> Option<(Vec<usize>, Vec<Vec<usize>>)> {
    let body = e.strip_prefix("ok ")?;
    let (sh, el) = body.split_once(':')?;
    let idx = if el == "-" { vec![] } else { el.split(',').map(|t| t.split('/').map(|x| x.parse().unwrap()).collect()).collect() };
    Some((parse_usize_list(sh), idx))
}

fn stretchable(s: &[usize], t: &[usize]) -> bool {
    if s.len() > t.len() || s.iter().chain(t.iter()).any(|&d| d == 0) { return false; }
    let off = t.len() - s.len();
    s.iter().zip(&t[off..]).all(|(&f, &to)| f == to || f == 1)
}
fn bshape(s: &[usize], t: &[usize]) -> Option<Vec<usize>> {
    let n = s.len().max(t.len());
    let mut r = vec![0; n];
    for k in 0..n {
        let d1 = if k < s.len() { s[s.len() - 1 - k] } else { 1 };
        let d2 = if k < t.len() { t[t.len() - 1 - k] } else { 1 };
        if d1 == 0 || d2 == 0 { return None; }
        r[n - 1 - k] = if d1 == 1 { d2 } else if d2 == 1 || d1 == d2 { d1 } else { return None };
    }
    Some(r)
}

// ------------------------------------------------------------------ the harness-native coordinate formula (reference for giant cases)

/// per RESULT axis: the stride of that axis in the flat data of a source of shape `src` (right-aligned with the result); 0 where the
/// source has no such axis or a unit axis there (the stretched axes)
fn src_strides(src: &[usize], res: &[usize]) -> Vec<usize> {
    let off = res.len() - src.len();
    let mut st = vec![0; res.len()];
    let mut acc = 1usize;
    for k in (0..src.len()).rev() { if src[k] != 1 { st[off + k] = acc; } acc *= src[k]; }
    st
}
/// the flat source position behind flat result position `p`: coordinate of `p` in the result, times the source strides
fn src_index(res: &[usize], st: &[usize], mut p: usize) -> usize {
    let mut i = 0;
    for k in (0..res.len()).rev() { i += (p % res[k]) * st[k]; p /= res[k]; }
    i
}
/// what the formula says about a call: the result shape and the strides of every operand, a refusal, or nothing (zero-length axes
/// and the equal-count region of `broadcast_to`, where the data is reshaped instead of stretched)
enum Opin { Ok(Vec<usize>, Vec<Vec<usize>>), Err, Silent }
/// `shapes` = receiver, argument (clip: receiver, lower, upper bound); `divisor_zero` = the argument array holds a zero
fn opinion(pat: &str, shapes: &[&[usize]], divisor_zero: bool) -> Opin {
    if matches!(pat, "G" | "GM") && divisor_zero { return Opin::Err; }
    if shapes.iter().any(|s| s.iter().any(|&d| d == 0)) { return Opin::Silent; }
    match pat {
        "B" | "G" | "GM" | "IB" => match bshape(shapes[0], shapes[1]) {
            None => Opin::Err,
            Some(r) => { let st = vec![src_strides(shapes[0], &r), src_strides(shapes[1], &r)]; Opin::Ok(r, st) }
        },
        // receiver-shaped: every argument must stretch to the receiver's shape (first refusal wins; a refusal further right wins
        // over an equal-count reshape further left, whatever that one gives)
        _ => {
            let recv = shapes[0];
            let mut silent = false;
            for s in &shapes[1..] {
                if stretchable(s, recv) { continue; }
                if s.iter().product::<usize>() == recv.iter().product::<usize>() { silent = true; } else { return Opin::Err; }
            }
            if silent { return Opin::Silent; }
            Opin::Ok(recv.to_vec(), shapes.iter().map(|s| src_strides(s, recv)).collect())
        }
    }
}
/// chain model -> formula -> crate: the formula against the full model answer (shape and every source index).  `Some` = they differ,
/// which is a defect of the harness (or of the model), never an observation about the crate
fn oracle_vs_model(orc: &Opin, expected: &str, parsed: Option<&(Vec<usize>, Vec<Vec<usize>>)>) -> Option<String> {
    match (orc, class_of(expected)) {
        (Opin::Silent, _) | (_, "panic") => { ORACLE_SILENT.fetch_add(1, Ordering::Relaxed); None }
        (Opin::Err, "err") => { ORACLE_CHECKED.fetch_add(1, Ordering::Relaxed); None }
        (Opin::Ok(shape, st), "ok") => {
            let Some((eshape, idx)) = parsed else { return Some("unparsable model answer".into()) };
            if shape != eshape { return Some(format!("formula shape {:?}, model shape {:?}", shape, eshape)); }
            let n: usize = shape.iter().product();
            if idx.len() != n { return Some(format!("formula has {n} positions, the model {}", idx.len())); }
            for (p, src) in idx.iter().enumerate() {
                if src.len() != st.len() { return Some(format!("position {p}: {} sources in the model answer, {} operands", src.len(), st.len())); }
                for (o, s) in st.iter().enumerate() {
                    let i = src_index(shape, s, p);
                    if i != src[o] { return Some(format!("position {p}, operand {o}: formula says flat source index {i}, the model {}", src[o])); }
                }
            }
            ORACLE_CHECKED.fetch_add(1, Ordering::Relaxed);
            None
        }
        (Opin::Err, _) => Some("the formula says refusal, the model accepts".into()),
        (Opin::Ok(..), _) => Some("the formula accepts, the model refuses".into()),
    }
}

// ------------------------------------------------------------------ exec

enum Obs<N> { Ok(Vec<usize>, Vec<N>, bool), Err(String), Panic }

fn observe<N: Elem>(r: impl FnOnce() -> Option<Result<Array<N>, ArrayError>>) -> Option<Obs<N>> {
    match std::panic::catch_unwind(std::panic::AssertUnwindSafe(r)) {
        Err(_) => Some(Obs::Panic),
        Ok(None) => None,
        Ok(Some(Err(e))) => Some(Obs::Err(err_name(&e).to_string())),
        Ok(Some(Ok(a))) => Some(Obs::Ok(a.get_shape().unwrap(), a.get_elements().unwrap(), consistent(&a))),
    }
}
fn obs_text<N: Elem>(o: &Obs<N>) -> String {
    match o { Obs::Ok(s, v, _) => format!("ok {} values", show_vals(s, v)), Obs::Err(e) => format!("err {e}"), Obs::Panic => "panic".into() }
}

/// compare an observed result with the model's index answer, position by position
fn check_positions<N: Elem>(obs: &Obs<N>, expected: &str, orc: &Opin, kernel: &dyn Fn(&[usize]) -> Result<Vec<(&'static str, N)>, String>) -> Verdict {
    let parsed = if class_of(expected) == "ok" { parse_expected(expected) } else { None };
    if let Some(d) = oracle_vs_model(orc, expected, parsed.as_ref()) {
        return Verdict::Mismatch { observed: obs_text(obs), detail: format!("ORACLE-VS-MODEL the harness-native coordinate formula and the model (`{}`) disagree: {d} (harness defect: the reference for the giant cases is not usable)", truncate(expected, 300)) };
    }
    match (obs, class_of(expected)) {
        (Obs::Err(e), "err") => Verdict::Match(format!("err {e}")),
        (Obs::Panic, "panic") => Verdict::Match("panic".into()),
        (Obs::Ok(shape, vals, cons), "ok") => {
            let Some((eshape, idx)) = parsed else { return Verdict::Mismatch { observed: obs_text(obs), detail: "harness: unparsable model answer".into() } };
            if !cons { return Verdict::Mismatch { observed: obs_text(obs), detail: "result array is inconsistent (C01 monitor)".into() }; }
            if *shape != eshape { return Verdict::Mismatch { observed: obs_text(obs), detail: format!("shape {:?}, the model says {:?}", shape, eshape) }; }
            let idx = &idx;
            if vals.len() != idx.len() { return Verdict::Mismatch { observed: obs_text(obs), detail: format!("{} elements, the model says {}", vals.len(), idx.len()) }; }
            for (p, src) in idx.iter().enumerate() {
                match kernel(src) {
                    Err(why) => return Verdict::Mismatch { observed: obs_text(obs), detail: format!("position {p}: scalar oracle at sources {:?} failed: {why}", src) },
                    Ok(wants) => for (which, w) in wants {
                        if w.key() != vals[p].key() {
                            return Verdict::Mismatch { observed: obs_text(obs), detail: format!("position {p}: got {} but the {which} kernel on the elements at flat indices {:?} gives {}", vals[p].tok(), src, w.tok()) };
                        }
                    }
                }
            }
            Verdict::Match(expected.to_string())
        }
        _ => Verdict::Mismatch { observed: obs_text(obs), detail: format!("model says `{}`", truncate(expected, 300)) },
    }
}

/// The same call on `Ok(array)` must give the bit-identical answer (same shape, same element bits, same outcome class) and on
/// an `Err(_)` receiver it must stay an error.  `None` = the receivers agree.
fn same_obs<N: Elem>(plain: &Obs<N>, other: &Obs<N>) -> bool {
    match (plain, other) {
        (Obs::Ok(s1, v1, c1), Obs::Ok(s2, v2, c2)) => s1 == s2 && c1 == c2 && v1.len() == v2.len() && v1.iter().zip(v2).all(|(x, y)| x.key() == y.key()),
        (Obs::Err(_), Obs::Err(_)) | (Obs::Panic, Obs::Panic) => true,
        _ => false,
    }
}
/// aliasing: the call with the SAME OBJECT as receiver and argument (`a.op(&a)`) must give what the call on two separately built
/// operands with these values gives.  `None` = it does.
fn alias_agrees<N: Elem>(plain: &Obs<N>, aliased: &Obs<N>) -> Option<Verdict> {
    if same_obs(plain, aliased) { return None; }
    let first = match (plain, aliased) {
        (Obs::Ok(_, v1, _), Obs::Ok(_, v2, _)) => v1.iter().zip(v2).position(|(x, y)| x.key() != y.key()).map_or(String::new(), |p| format!(" (first difference at flat position {p}: {} vs {})", v2[p].tok(), v1[p].tok())),
        _ => String::new() };
    Some(Verdict::Mismatch { observed: format!("ALIAS-DIVERGENCE a.op(&a): {}", truncate(&obs_text(aliased), 600)),
        detail: format!("the call with the same array object on both sides differs from the call on two separately built operands with the same values, which gives `{}`{first}", truncate(&obs_text(plain), 600)) })
}
fn receivers_agree<N: Elem>(plain: &Obs<N>, chained: &Obs<N>, on_err: &Obs<N>) -> Option<Verdict> {
    let same = same_obs(plain, chained);
    if !same {
        let first = match (plain, chained) {
            (Obs::Ok(_, v1, _), Obs::Ok(_, v2, _)) => v1.iter().zip(v2).position(|(x, y)| x.key() != y.key()).map_or(String::new(), |p| format!(" (first difference at flat position {p}: {} vs {})", v2[p].tok(), v1[p].tok())),
            _ => String::new() };
        return Some(Verdict::Mismatch { observed: format!("RECEIVER-DIVERGENCE chained: {}", truncate(&obs_text(chained), 600)),
            detail: format!("the call on `Ok(array)` (impl for Result<Array<N>, ArrayError>) differs from the plain call, which gives `{}`{first}", truncate(&obs_text(plain), 600)) });
    }
    if !matches!(on_err, Obs::Err(_)) {
        return Some(Verdict::Mismatch { observed: format!("RECEIVER-DIVERGENCE on Err(_): {}", truncate(&obs_text(on_err), 300)), detail: "the call on an `Err(_)` receiver must return the error".into() });
    }
    None
}

fn run_op<N: Elem>(op: &str, pat: &str, a_s: &str, b_s: &str, expected: &str) -> Option<Verdict> {
    let oi = info(op)?;
    if oi.pat != pat { return None; }
    let (pa, pb) = (parse_vals::<N>(a_s)?, parse_vals::<N>(b_s)?);
    let (a, b) = (mk(&pa), mk(&pb));
    let obs = observe(|| call(op, &a, &b))?;
    let chained = observe(|| call_recv(op, &a, &b, Recv::Chained))?;
    let on_err = observe(|| call_recv(op, &a, &b, Recv::ErrRecv))?;
    // identical operands: also with the same object on both sides
    let aliased = if a_s == b_s { Some(observe(|| call(op, &a, &a))?) } else { None };
    // receiver-shaped family: an argument of the same element count that is not a stretch of the receiver's shape is the
    // region C03 leaves open (broadcast_to's equal-count shortcut); compared only when it agrees
    let open = matches!(pat, "R" | "RA") && !stretchable(&pb.0, &pa.0) && pa.1.len() == pb.1.len();
    let (va, vb) = (pa.1.clone(), pb.1.clone());
    let opn = op.to_string();
    let orc = opinion(pat, &[&pa.0, &pb.0], pb.1.iter().any(|y| y.f() == 0.0));
    let v = check_positions(&obs, expected, &orc, &move |src: &[usize]| {
        let (x, y) = (*va.get(src[0]).ok_or("source index out of range")?, *vb.get(src[1]).ok_or("source index out of range")?);
        let mut w = vec![];
        if let Some(n) = native(&opn, x, y) { w.push(("native", n)); }
        w.push(("one-element-array", single(&opn, x, y)?));
        Ok(w)
    });
    let others = || receivers_agree(&obs, &chained, &on_err).or_else(|| aliased.as_ref().and_then(|al| alias_agrees(&obs, al)));
    Some(match v {
        Verdict::Mismatch { observed, detail } => if open { others().unwrap_or(Verdict::Open(observed)) } else { Verdict::Mismatch { observed, detail } },
        v => others().unwrap_or(v) })
}

fn run_clip<N: Elem>(a_s: &str, lo_s: &str, hi_s: &str, expected: &str) -> Option<Verdict> {
    let (pa, pl, ph) = (parse_vals::<N>(a_s)?, parse_vals::<N>(lo_s)?, parse_vals::<N>(hi_s)?);
    let (a, lo, hi) = (mk(&pa), mk(&pl), mk(&ph));
    let obs = observe(|| Some(clip_recv(&a, &lo, &hi, Recv::Plain)))?;
    let chained = observe(|| Some(clip_recv(&a, &lo, &hi, Recv::Chained)))?;
    let on_err = observe(|| Some(clip_recv(&a, &lo, &hi, Recv::ErrRecv)))?;
    let open = (!stretchable(&pl.0, &pa.0) && pa.1.len() == pl.1.len()) || (!stretchable(&ph.0, &pa.0) && pa.1.len() == ph.1.len());
    let (va, vl, vh) = (pa.1.clone(), pl.1.clone(), ph.1.clone());
    let orc = opinion("R3", &[&pa.0, &pl.0, &ph.0], false);
    let v = check_positions(&obs, expected, &orc, &move |src: &[usize]| {
        let (x, l, h) = (*va.get(src[0]).ok_or("index")?, *vl.get(src[1]).ok_or("index")?, *vh.get(src[2]).ok_or("index")?);
        let nat = if x < l { l } else if x > h { h } else { x };
        let one = |v: N| Array::new(vec![v], vec![1]).unwrap();
        let s = match std::panic::catch_unwind(std::panic::AssertUnwindSafe(|| one(x).clip(Some(one(l)), Some(one(h))))) {
            Ok(Ok(r)) => r.get_elements().unwrap()[0], Ok(Err(e)) => return Err(format!("err {}", err_name(&e))), Err(_) => return Err("panic".into()) };
        Ok(vec![("native", nat), ("one-element-array", s)])
    });
    Some(match v {
        Verdict::Mismatch { observed, detail } => if open { receivers_agree(&obs, &chained, &on_err).unwrap_or(Verdict::Open(observed)) } else { Verdict::Mismatch { observed, detail } },
        v => receivers_agree(&obs, &chained, &on_err).unwrap_or(v) })
}

/// commutativity observed directly on the code
fn run_comm<N: Elem>(op: &str, pat: &str, a_s: &str, b_s: &str, expected: &str) -> Option<Verdict> {
    let oi = info(op)?;
    if oi.pat != pat || !oi.comm { return None; }
    let (pa, pb) = (parse_vals::<N>(a_s)?, parse_vals::<N>(b_s)?);
    let (a, b) = (mk(&pa), mk(&pb));
    let (r1, r2) = (observe(|| call(op, &a, &b))?, observe(|| call(op, &b, &a))?);
    let mut detail = String::new();
    let observed = match (&r1, &r2) {
        (Obs::Ok(s1, v1, _), Obs::Ok(s2, v2, _)) => {
            if s1 != s2 { detail = format!("shapes {:?} vs {:?}", s1, s2); "ok differ".to_string() }
            else {
                let mut bad = None;
                for p in 0..v1.len() {
                    if v1[p].key() != v2[p].key() {
                        // equal shapes: the sources are a[p], b[p]; a scalar kernel that itself does not commute on this pair
                        // (f64::max on +0.0/-0.0) is outside "operations that commute on scalars"
                        if pa.0 == pb.0 {
                            if let (Ok(s1), Ok(s2)) = (single(op, pa.1[p], pb.1[p]), single(op, pb.1[p], pa.1[p])) { if s1.key() != s2.key() { continue; } }
                        }
                        bad = Some(p); break;
                    }
                }
                match bad { None => "ok equal".to_string(), Some(p) => { detail = format!("position {p}: {} vs {}", v1[p].tok(), v2[p].tok()); "ok differ".to_string() } }
            }
        }
        (Obs::Panic, _) | (_, Obs::Panic) => "panic".to_string(),
        (Obs::Err(e), _) | (_, Obs::Err(e)) => format!("err {e}"),
    };
    Some(match compare_default(observed, expected) {
        Verdict::Mismatch { observed, detail: d } => Verdict::Mismatch { observed, detail: format!("{d}; op(a,b) vs op(b,a): {detail}") },
        v => v })
}

// ------------------------------------------------------------------ giant operands (`g` lines)

fn mix64(k: u64, salt: u64) -> u64 {
    let mut z = k.wrapping_add(salt.wrapping_mul(0x9E3779B97F4A7C15)).wrapping_add(0x1234_5678_9ABC_DEF1);
    z = (z ^ (z >> 30)).wrapping_mul(0xBF58476D1CE4E5B9);
    z = (z ^ (z >> 27)).wrapping_mul(0x94D049BB133111EB);
    z ^ (z >> 31)
}
fn is_float<N: Elem>() -> bool { N::t(0.5).f() == 0.5 }
fn is_signed<N: Elem>() -> bool { N::t(-1.0).f() < 0.0 }
/// element k of the varied fill: a value that changes from position to position with a prime period (113 for one-byte, 30 011 for
/// two-byte, 1 000 003 for wider element types; quarter steps for floats), every 509th element one of the edge values of the pool
fn gval<N: Elem>(k: usize, salt: u64, d: Dom, pool: &[N]) -> N {
    if k % 509 == 7 && !pool.is_empty() { return pool[(k / 509 + salt as usize) % pool.len()]; }
    let m: u64 = match std::mem::size_of::<N>() { 1 => 113, 2 => 30011, _ => 1_000_003 };
    let x = ((k as u64).wrapping_mul(48271).wrapping_add(salt.wrapping_mul(97))) % m;
    let step = if is_float::<N>() { 0.375 } else { 1.0 };
    match d {
        Dom::General => if is_signed::<N>() { N::t((x as f64 - (m / 2) as f64) * step) } else { N::t(x as f64) },
        Dom::Divisor => N::t((x as f64 + 1.0) * step),
        Dom::Shift => N::t((x % 8) as f64),
        Dom::Exp => N::t((x % 16) as f64 - 5.0),
        Dom::Small => if is_signed::<N>() { N::t((x % 91) as f64 - 30.0) } else { N::t((x % 61) as f64) },
    }
}
/// the flat data of an operand named by a fill rule: `v<salt>` varied; `c<tok>` constant; `l<tok>` constant but for the LAST element;
/// `z<k><p|n>` varied with a zero (+0.0 / -0.0) at flat position k; `m<salt>` a mixture of +0.0 and -0.0 (integers: zeros)
fn gfill<N: Elem>(spec: &str, d: Dom, n: usize) -> Option<Vec<N>> {
    if spec.is_empty() || !spec.is_char_boundary(1) { return None; }
    let (kind, rest) = spec.split_at(1);
    let pool = N::pool_y(d);
    Some(match kind {
        "v" => { let salt: u64 = rest.parse().ok()?; (0..n).map(|k| gval::<N>(k, salt, d, &pool)).collect() }
        "c" => vec![N::parse_tok(rest); n],
        "l" => { let mut v = vec![N::parse_tok(rest); n]; if n > 0 { v[n - 1] = gval::<N>(n - 1, 3, d, &[]); } v }
        "z" => {
            let neg = rest.ends_with('n');
            let k: usize = rest[..rest.len().checked_sub(1)?].parse().ok()?;
            let mut v: Vec<N> = (0..n).map(|k| gval::<N>(k, 0, d, &pool)).collect();
            *v.get_mut(k)? = N::t(if neg { -0.0 } else { 0.0 });
            v
        }
        "m" => { let salt: u64 = rest.parse().ok()?; (0..n).map(|k| N::t(if mix64(k as u64, salt) & 1 == 0 { 0.0 } else { -0.0 })).collect() }
        _ => return None,
    })
}
/// the positions of a giant result at which the one-element-array kernel is consulted as well (the native formula: everywhere)
fn sampled(p: usize, n: usize) -> bool { p < 8 || p + 8 >= n || p % 65521 == 0 }
fn coord_of(shape: &[usize], mut p: usize) -> Vec<usize> { let mut c = vec![0; shape.len()]; for k in (0..shape.len()).rev() { c[k] = p % shape[k]; p /= shape[k]; } c }
fn brief<N: Elem>(o: &Obs<N>) -> String {
    match o { Obs::Ok(s, v, _) => format!("ok shape {} ({} elements; first: {})", show_list(s), v.len(), v.iter().take(4).map(|x| x.tok()).collect::<Vec<_>>().join(",")), Obs::Err(e) => format!("err {e}"), Obs::Panic => "panic".into() }
}
/// first position at which two giant results differ — compared in place, nothing is formatted
fn first_diff<N: Elem>(x: &Obs<N>, y: &Obs<N>) -> Option<String> {
    match (x, y) {
        (Obs::Ok(s1, v1, c1), Obs::Ok(s2, v2, c2)) => {
            if s1 != s2 { return Some(format!("shapes {:?} vs {:?}", s1, s2)); }
            if c1 != c2 || v1.len() != v2.len() { return Some(format!("{} vs {} elements", v1.len(), v2.len())); }
            v1.iter().zip(v2).position(|(a, b)| a.key() != b.key()).map(|p| format!("first difference at flat position {p}: {} vs {}", v1[p].tok(), v2[p].tok()))
        }
        (Obs::Err(_), Obs::Err(_)) | (Obs::Panic, Obs::Panic) => None,
        _ => Some(format!("`{}` vs `{}`", brief(x), brief(y))),
    }
}
/// judge a giant observation: outcome class and shape against the model, the values IN PLACE against the native coordinate formula
/// and the native scalar kernel (every position) and the one-element-array kernel (sampled positions)
fn judge_giant<N: Elem>(obs: &Obs<N>, expected: &str, orc: &Opin, ops: &[&Vec<N>], kernel: &dyn Fn(&[N]) -> Option<N>, one: &dyn Fn(&[N]) -> Result<N, String>) -> Verdict {
    // model vs formula: outcome class and shape
    let eshape = expected.strip_prefix("ok shape ").map(parse_usize_list);
    let agree = match (orc, &eshape) { (Opin::Ok(s, _), Some(e)) => s == e, (Opin::Err, None) => class_of(expected) == "err", _ => false };
    if !agree { return Verdict::Mismatch { observed: brief(obs), detail: format!("ORACLE-VS-MODEL the harness-native coordinate formula and the model (`{expected}`) disagree about outcome / result shape of a giant case (harness defect)") }; }
    GIANT.fetch_add(1, Ordering::Relaxed);
    match (obs, orc) {
        (Obs::Err(e), Opin::Err) => Verdict::Match(format!("err {e}")),
        (Obs::Ok(shape, vals, cons), Opin::Ok(rs, st)) => {
            if !cons { return Verdict::Mismatch { observed: brief(obs), detail: "result array is inconsistent (C01 monitor)".into() }; }
            if shape != rs { return Verdict::Mismatch { observed: brief(obs), detail: format!("shape {:?}, the model says {:?}", shape, rs) }; }
            let n: usize = rs.iter().product();
            if vals.len() != n { return Verdict::Mismatch { observed: brief(obs), detail: format!("{} elements, the result shape has {n}", vals.len()) }; }
            let mut src = vec![0usize; st.len()];
            let mut xs: Vec<N> = vec![N::z(); st.len()];
            for p in 0..n {
                for o in 0..st.len() { src[o] = src_index(rs, &st[o], p); xs[o] = ops[o][src[o]]; }
                let Some(w) = kernel(&xs) else { return Verdict::Mismatch { observed: brief(obs), detail: "harness: no native kernel for this operation".into() } };
                if w.key() != vals[p].key() {
                    return Verdict::Mismatch { observed: brief(obs), detail: format!("flat position {p} (coordinate {:?}): got {} but the native kernel on the operand elements at flat indices {:?} ({}) gives {} (sources by the harness-native coordinate formula, validated against the full model answer on the smaller cases of this run; model shape `{expected}`)",
                        coord_of(rs, p), vals[p].tok(), src, xs.iter().map(|x| x.tok()).collect::<Vec<_>>().join(" , "), w.tok()) };
                }
                if sampled(p, n) {
                    GIANT_SINGLE.fetch_add(1, Ordering::Relaxed);
                    match one(&xs) {
                        Ok(w1) if w1.key() == vals[p].key() => {}
                        Ok(w1) => return Verdict::Mismatch { observed: brief(obs), detail: format!("flat position {p}: got {} but the same operation on the one-element arrays of the sources {:?} gives {}", vals[p].tok(), src, w1.tok()) },
                        Err(why) => return Verdict::Mismatch { observed: brief(obs), detail: format!("flat position {p}: the one-element-array kernel at sources {:?} failed: {why}", src) },
                    }
                }
            }
            Verdict::Match(format!("{expected} (values as the harness-native reference)"))
        }
        _ => Verdict::Mismatch { observed: brief(obs), detail: format!("model says `{expected}`") },
    }
}
/// chained on every third giant case (the line decides), always an `Err(_)` receiver
fn giant_receivers<N: Elem>(line_hash: u64, obs: &Obs<N>, v: Verdict, chained: &dyn Fn() -> Option<Obs<N>>, on_err: &dyn Fn() -> Option<Obs<N>>) -> Option<Verdict> {
    if matches!(v, Verdict::Mismatch { .. }) { return Some(v); }
    if line_hash % 3 == 0 {
        let c = chained()?;
        if let Some(d) = first_diff(obs, &c) { return Some(Verdict::Mismatch { observed: format!("RECEIVER-DIVERGENCE chained: {}", brief(&c)), detail: format!("the call on `Ok(array)` differs from the plain call (`{}`): {d}", brief(obs)) }); }
    }
    let e = on_err()?;
    if !matches!(e, Obs::Err(_)) { return Some(Verdict::Mismatch { observed: format!("RECEIVER-DIVERGENCE on Err(_): {}", brief(&e)), detail: "the call on an `Err(_)` receiver must return the error".into() }); }
    Some(v)
}
fn run_g<N: Elem>(op: &str, pat: &str, sa_s: &str, sb_s: &str, fa: &str, fb: &str, expected: &str) -> Option<Verdict> {
    let oi = info(op)?;
    if oi.pat != pat { return None; }
    let (sa, sb) = (parse_usize_list(sa_s), parse_usize_list(sb_s));
    let (na, nb): (usize, usize) = (sa.iter().product(), sb.iter().product());
    let da = if oi.dom == Dom::Small { Dom::Small } else { Dom::General };
    let (va, vb) = (gfill::<N>(fa, da, na)?, gfill::<N>(fb, oi.dom, nb)?);
    let orc = opinion(pat, &[&sa, &sb], vb.iter().any(|y| y.f() == 0.0));
    let (a, b) = (Array::new(va.clone(), sa.clone()).ok()?, Array::new(vb.clone(), sb.clone()).ok()?);
    let obs = observe(|| call(op, &a, &b))?;
    let v = judge_giant(&obs, expected, &orc, &[&va, &vb], &|x: &[N]| native(op, x[0], x[1]), &|x: &[N]| single(op, x[0], x[1]));
    giant_receivers(hash_str(&format!("{op}{sa_s}{sb_s}{fa}{fb}")), &obs, v, &|| observe(|| call_recv(op, &a, &b, Recv::Chained)), &|| observe(|| call_recv(op, &a, &b, Recv::ErrRecv)))
}
fn run_g_clip<N: Elem>(sa_s: &str, sl_s: &str, sh_s: &str, fa: &str, fl: &str, fh: &str, expected: &str) -> Option<Verdict> {
    let (sa, sl, sh) = (parse_usize_list(sa_s), parse_usize_list(sl_s), parse_usize_list(sh_s));
    let cnt = |s: &Vec<usize>| s.iter().product::<usize>();
    let (va, vl, vh) = (gfill::<N>(fa, Dom::General, cnt(&sa))?, gfill::<N>(fl, Dom::General, cnt(&sl))?, gfill::<N>(fh, Dom::General, cnt(&sh))?);
    let orc = opinion("R3", &[&sa, &sl, &sh], false);
    let (a, lo, hi) = (Array::new(va.clone(), sa.clone()).ok()?, Array::new(vl.clone(), sl.clone()).ok()?, Array::new(vh.clone(), sh.clone()).ok()?);
    let obs = observe(|| Some(clip_recv(&a, &lo, &hi, Recv::Plain)))?;
    let one = |v: N| Array::new(vec![v], vec![1]).unwrap();
    let v = judge_giant(&obs, expected, &orc, &[&va, &vl, &vh], &|x: &[N]| Some(if x[0] < x[1] { x[1] } else if x[0] > x[2] { x[2] } else { x[0] }),
        &|x: &[N]| match std::panic::catch_unwind(std::panic::AssertUnwindSafe(|| one(x[0]).clip(Some(one(x[1])), Some(one(x[2]))))) {
            Ok(Ok(r)) => Ok(r.get_elements().unwrap()[0]), Ok(Err(e)) => Err(format!("err {}", err_name(&e))), Err(_) => Err("panic".into()) });
    giant_receivers(hash_str(&format!("clip{sa_s}{sl_s}{sh_s}{fa}{fl}{fh}")), &obs, v, &|| observe(|| Some(clip_recv(&a, &lo, &hi, Recv::Chained))), &|| observe(|| Some(clip_recv(&a, &lo, &hi, Recv::ErrRecv))))
}

/// the plain-receiver answer of a case as text (element bits), nothing else — for the A-B-A re-run
fn plain_obs<N: Elem>(kind: &str, op: &str, x: &str, y: &str, z: &str) -> Option<String> {
    match kind {
        "clip" => { let (a, lo, hi) = (mk(&parse_vals::<N>(x)?), mk(&parse_vals::<N>(y)?), mk(&parse_vals::<N>(z)?)); Some(obs_text(&observe(|| Some(clip_recv(&a, &lo, &hi, Recv::Plain)))?)) }
        _ => { let (a, b) = (mk(&parse_vals::<N>(x)?), mk(&parse_vals::<N>(y)?)); Some(obs_text(&observe(|| call(op, &a, &b))?)) }
    }
}
fn plain_text(op: &str, args: &[&str]) -> Option<String> {
    macro_rules! by_type { ($ty:expr, $($arg:expr),*) => { match $ty { "i32" => plain_obs::<i32>($($arg),*), "i64" => plain_obs::<i64>($($arg),*), "u8" => plain_obs::<u8>($($arg),*), "f64" => plain_obs::<f64>($($arg),*),
        "i8" => plain_obs::<i8>($($arg),*), "i16" => plain_obs::<i16>($($arg),*), "u16" => plain_obs::<u16>($($arg),*), "u32" => plain_obs::<u32>($($arg),*), "u64" => plain_obs::<u64>($($arg),*), "f32" => plain_obs::<f32>($($arg),*), _ => None } } }
    match op {
        "comm" => { if args.len() != 5 { return None; } by_type!(args[2], "op", args[0], args[3], args[4], "") }
        "clip" => { if args.len() != 5 { return None; } by_type!(args[1], "clip", "clip", args[2], args[3], args[4]) }
        _ => { if args.len() != 4 { return None; } by_type!(args[1], "op", op, args[2], args[3], "") }
    }
}

/// `seq case / case / …`: the cases are executed one after the other on this thread, each compared with the model
fn exec_seq(args: &[&str], expected: &str) -> Option<Verdict> {
    let parts: Vec<&[&str]> = args.split(|&a| a == "/").collect();
    let exps: Vec<&str> = expected.split(" / ").collect();
    if parts.len() != exps.len() { return None; }
    let (mut texts, mut open) = (vec![], false);
    for (k, (p, e)) in parts.iter().zip(&exps).enumerate() {
        match exec_single(p.first()?, &p[1..], e)? {
            Verdict::Match(o) => texts.push(truncate(&o, 120)),
            Verdict::Open(o) => { open = true; texts.push(truncate(&o, 120)); }
            Verdict::Mismatch { observed, detail } => {
                texts.push(truncate(&observed, 600));
                return Some(Verdict::Mismatch { observed: texts.join(" / "), detail: format!("call {} of the sequence (`{}`), executed after the calls before it on the same thread: {detail}", k + 1, truncate(&p.join(" "), 300)) });
            }
        }
    }
    Some(if open { Verdict::Open(texts.join(" / ")) } else { Verdict::Match(texts.join(" / ")) })
}

thread_local! {
    /// the previous case of this thread and its plain-receiver answer (A-B-A discipline)
    static PREV: RefCell<Option<(String, Vec<String>, String)>> = RefCell::new(None);
}

fn exec(op: &str, args: &[&str], expected: &str) -> Option<Verdict> {
    if op == "seq" { PREV.with(|p| *p.borrow_mut() = None); return exec_seq(args, expected); }
    if op == "oracle_report" {
        let (n, silent, giant, single) = (ORACLE_CHECKED.load(Ordering::Relaxed), ORACLE_SILENT.load(Ordering::Relaxed), GIANT.load(Ordering::Relaxed), GIANT_SINGLE.load(Ordering::Relaxed));
        let text = format!("ok report: so far the harness-native coordinate formula agreed with the full model answer (shape and every source index) on {n} cases (no opinion on {silent}); {giant} giant cases (> 2^20 result elements) judged through it, the one-element-array kernel consulted at {single} of their positions");
        // the last line of a run: the chain model -> formula -> crate must really have been exercised
        if args.first() == Some(&"final") && n < 100_000 { return Some(Verdict::Mismatch { observed: text, detail: "the formula was compared with the model on fewer than 100000 cases".into() }); }
        return Some(Verdict::Match(text));
    }
    // (a giant case is a B of the A-B-A discipline like any other: the previous small case is re-run after it)
    let t0 = std::time::Instant::now();
    let mut v = exec_single(op, args, expected)?;
    if op == "g" && std::env::var_os("C04_TIME").is_some() { eprintln!("{:.3}s  g {}", t0.elapsed().as_secs_f64(), args.join(" ")); }
    // A-B-A: after this case (B) the previous case (A) is executed again and must give what it gave before B
    if let Some((pop, pargs, ptext)) = PREV.with(|p| p.borrow_mut().take()) {
        let pa: Vec<&str> = pargs.iter().map(String::as_str).collect();
        if let Some(again) = plain_text(&pop, &pa) {
            if again != ptext && !matches!(v, Verdict::Mismatch { .. }) {
                let a_line = format!("{pop} {}", pargs.join(" "));
                v = Verdict::Mismatch { observed: format!("STATE-DIVERGENCE `{}` executed again after this case gives `{}`", truncate(&a_line, 300), truncate(&again, 400)),
                    detail: format!("before this case the same call gave `{}`; self-contained replay: seq {a_line} / {op} {} / {a_line}", truncate(&ptext, 400), args.join(" ")) };
            }
        }
    }
    // remember this case (short lines only) with the answer of one more plain call
    if args.iter().map(|a| a.len()).sum::<usize>() <= 3000 {
        if let Some(t) = plain_text(op, args) { PREV.with(|p| *p.borrow_mut() = Some((op.to_string(), args.iter().map(|s| s.to_string()).collect(), t))); }
    }
    Some(v)
}

fn exec_single(op: &str, args: &[&str], expected: &str) -> Option<Verdict> {
    macro_rules! by_type { ($ty:expr, $f:ident, $($arg:expr),*) => { match $ty { "i32" => $f::<i32>($($arg),*), "i64" => $f::<i64>($($arg),*), "u8" => $f::<u8>($($arg),*), "f64" => $f::<f64>($($arg),*),
        "i8" => $f::<i8>($($arg),*), "i16" => $f::<i16>($($arg),*), "u16" => $f::<u16>($($arg),*), "u32" => $f::<u32>($($arg),*), "u64" => $f::<u64>($($arg),*), "f32" => $f::<f32>($($arg),*), _ => None } } }
    match op {
        "g" => match args.first() {
            Some(&"clip") => { if args.len() != 9 || args[1] != "R3" { return None; } by_type!(args[2], run_g_clip, args[3], args[4], args[5], args[6], args[7], args[8], expected) }
            _ => { if args.len() != 7 { return None; } by_type!(args[2], run_g, args[0], args[1], args[3], args[4], args[5], args[6], expected) }
        },
        "comm" => { if args.len() != 5 { return None; } by_type!(args[2], run_comm, args[0], args[1], args[3], args[4], expected) }
        "clip" => { if args.len() != 5 || args[0] != "R3" { return None; } by_type!(args[1], run_clip, args[2], args[3], args[4], expected) }
        _ => { if args.len() != 4 { return None; } by_type!(args[1], run_op, op, args[0], args[2], args[3], expected) }
    }
}

// ------------------------------------------------------------------ generator

fn hash_str(s: &str) -> u64 { let mut h: u64 = 0xcbf29ce484222325; for b in s.bytes() { h ^= b as u64; h = h.wrapping_mul(0x100000001b3); } h }

/// `n` values from the pool, without repetition while the pool lasts (distinct values expose a permuted result)
fn draw<N: Elem>(rng: &mut Rng, d: Dom, n: usize, ext: bool) -> Vec<N> {
    let pool = if ext { N::pool_x(d) } else { N::pool(d) };
    let perm = rng.perm(pool.len());
    (0..n).map(|k| if k < pool.len() { pool[perm[k]] } else { pool[rng.below(pool.len())] }).collect()
}

fn fill<N: Elem>(rng: &mut Rng, oi: &OpInfo, sa: &[usize], sb: &[usize], ext: bool) -> (String, String) {
    let (na, nb) = (sa.iter().product::<usize>(), sb.iter().product::<usize>());
    let da = if oi.dom == Dom::Small { Dom::Small } else { Dom::General };
    let db = oi.dom;
    (show_vals(sa, &draw::<N>(rng, da, na, ext)), show_vals(sb, &draw::<N>(rng, db, nb, ext)))
}
fn fill_ty_x(rng: &mut Rng, ty: &str, oi: &OpInfo, sa: &[usize], sb: &[usize], ext: bool) -> (String, String) {
    match ty {
        "i32" => fill::<i32>(rng, oi, sa, sb, ext), "i64" => fill::<i64>(rng, oi, sa, sb, ext), "u8" => fill::<u8>(rng, oi, sa, sb, ext),
        "i8" => fill::<i8>(rng, oi, sa, sb, ext), "i16" => fill::<i16>(rng, oi, sa, sb, ext), "u16" => fill::<u16>(rng, oi, sa, sb, ext),
        "u32" => fill::<u32>(rng, oi, sa, sb, ext), "u64" => fill::<u64>(rng, oi, sa, sb, ext), "f32" => fill::<f32>(rng, oi, sa, sb, ext),
        _ => fill::<f64>(rng, oi, sa, sb, ext) }
}
fn fill_ty(rng: &mut Rng, ty: &str, oi: &OpInfo, sa: &[usize], sb: &[usize]) -> (String, String) { fill_ty_x(rng, ty, oi, sa, sb, false) }
fn draw_y<N: Elem>(rng: &mut Rng, d: Dom, n: usize) -> Vec<N> {
    let pool = N::pool_y(d);
    let perm = rng.perm(pool.len());
    (0..n).map(|k| if k < pool.len() { pool[perm[k]] } else { pool[rng.below(pool.len())] }).collect()
}
fn fill_y<N: Elem>(rng: &mut Rng, oi: &OpInfo, sa: &[usize], sb: &[usize]) -> (String, String) {
    let (na, nb) = (sa.iter().product::<usize>(), sb.iter().product::<usize>());
    let da = if oi.dom == Dom::Small { Dom::Small } else { Dom::General };
    (show_vals(sa, &draw_y::<N>(rng, da, na)), show_vals(sb, &draw_y::<N>(rng, oi.dom, nb)))
}
/// values for a case whose two operands are the same array: both operand domains must hold; NaN / +-inf / +-0.0 / the values at
/// the limits come first so that they are inside even a short array
fn alias_vals<N: Elem>(rng: &mut Rng, oi: &OpInfo, s: &[usize]) -> String {
    let n: usize = s.iter().product();
    let pool = N::pool_y(oi.dom);
    let (sp, rest): (Vec<N>, Vec<N>) = pool.iter().partition(|v| { let f = v.f(); f.is_nan() || f.is_infinite() || f == 0.0 || f.abs() > 1e18 });
    let (ps, pr) = (rng.perm(sp.len()), rng.perm(rest.len()));
    let mut v: Vec<N> = vec![];
    for k in 0..n {
        let from_sp = !sp.is_empty() && (k % 2 == 0 || rest.is_empty()) && k / 2 < sp.len();
        v.push(if from_sp { sp[ps[k / 2]] } else if !rest.is_empty() { rest[pr[k % rest.len()]] } else { sp[ps[k % sp.len()]] });
    }
    let perm = rng.perm(n);
    show_vals(s, &perm.iter().map(|&k| v[k]).collect::<Vec<N>>())
}
macro_rules! by_ty { ($ty:expr, $f:ident, $($arg:expr),*) => { match $ty { "i32" => $f::<i32>($($arg),*), "i64" => $f::<i64>($($arg),*), "u8" => $f::<u8>($($arg),*), "i8" => $f::<i8>($($arg),*), "i16" => $f::<i16>($($arg),*),
    "u16" => $f::<u16>($($arg),*), "u32" => $f::<u32>($($arg),*), "u64" => $f::<u64>($($arg),*), "f32" => $f::<f32>($($arg),*), _ => $f::<f64>($($arg),*) } } }
/// a case line of the part-2 streams (pools with the edge values); the values depend only on (op, type, shapes, salt)
fn case_line_y(oi: &OpInfo, ty: &str, sa: &[usize], sb: &[usize], salt: u64) -> String {
    let mut rng = Rng::new(hash_str(&format!("y|{}|{}|{:?}|{:?}|{}", oi.name, ty, sa, sb, salt)));
    let (a, b) = by_ty!(ty, fill_y, &mut rng, oi, sa, sb);
    format!("{} {} {} {} {}", oi.name, oi.pat, ty, a, b)
}
/// the same array text on both sides: `exec` then also calls the operation with the same object as receiver and argument
fn alias_line(oi: &OpInfo, ty: &str, s: &[usize], salt: u64) -> String {
    let mut rng = Rng::new(hash_str(&format!("alias|{}|{}|{:?}|{}", oi.name, ty, s, salt)));
    let a = by_ty!(ty, alias_vals, &mut rng, oi, s);
    format!("{} {} {} {} {}", oi.name, oi.pat, ty, a, a)
}
/// the line with the values of its first operand rotated by one position (same shape, same multiset, same sum)
fn rotate_first(line: &str) -> String {
    let mut parts: Vec<String> = line.split(' ').map(String::from).collect();
    let (sh, el) = parts[3].split_once(':').unwrap();
    let mut toks: Vec<&str> = el.split(',').collect();
    toks.rotate_left(1);
    parts[3] = format!("{}:{}", sh, toks.join(","));
    parts.join(" ")
}
/// the line with the first value of its first operand replaced by a neighbour (next bit pattern / next integer)
fn nudge_first(line: &str) -> String {
    let mut parts: Vec<String> = line.split(' ').map(String::from).collect();
    let (sh, el) = parts[3].split_once(':').unwrap();
    let mut toks: Vec<String> = el.split(',').map(String::from).collect();
    toks[0] = if let Some(h) = toks[0].strip_prefix('x') {
        let b = u64::from_str_radix(h, 16).unwrap();
        let f = f64::from_bits(b);
        // f32 values travel widened: step by one f32 ulp so that the neighbour is representable in either width
        if !f.is_finite() || f == 0.0 || f.abs() < 1e-30 || f.abs() > 1e30 { toks[0].clone() } else { format!("x{:016x}", ((f as f32) as f64 == f).then(|| (f32::from_bits((f as f32).to_bits() + 1) as f64).to_bits()).unwrap_or(b + 1)) }
    } else { match toks[0].parse::<i128>() { Ok(v) if (0..100).contains(&v) => (v + 1).to_string(), Ok(v) if (-100..0).contains(&v) => (v - 1).to_string(), _ => toks[0].clone() } };
    parts[3] = format!("{}:{}", sh, toks.join(","));
    parts.join(" ")
}
fn seq_aba(a: &str, b: &str, out: &mut dyn FnMut(String)) {
    out(format!("seq {a} / {b} / {a}"));
    out(format!("seq {b} / {a} / {b}"));
}

/// a case line of the positional stream; the values depend only on (op, type, shapes, salt) — not on the run seed
fn case_line(oi: &OpInfo, ty: &str, sa: &[usize], sb: &[usize], salt: u64) -> String {
    let mut rng = Rng::new(hash_str(&format!("{}|{}|{:?}|{:?}|{}", oi.name, ty, sa, sb, salt)));
    let (a, b) = fill_ty(&mut rng, ty, oi, sa, sb);
    format!("{} {} {} {} {}", oi.name, oi.pat, ty, a, b)
}
/// the same with the extended value pools (robustness streams)
fn case_line_x(oi: &OpInfo, ty: &str, sa: &[usize], sb: &[usize], salt: u64) -> String {
    let mut rng = Rng::new(hash_str(&format!("x|{}|{}|{:?}|{:?}|{}", oi.name, ty, sa, sb, salt)));
    let (a, b) = fill_ty_x(&mut rng, ty, oi, sa, sb, true);
    format!("{} {} {} {} {}", oi.name, oi.pat, ty, a, b)
}
/// write a zero of the element type at flat position `k` of the second operand
fn with_zero_at(line: &str, ty: &str, k: usize, negative: bool) -> String {
    let mut parts: Vec<String> = line.split(' ').map(String::from).collect();
    let (sh, el) = parts[4].split_once(':').unwrap();
    let mut toks: Vec<String> = el.split(',').map(String::from).collect();
    toks[k] = if ty == "f64" || ty == "f32" { if negative { (-0.0f64).tok() } else { (0.0f64).tok() } } else { "0".to_string() };
    parts[4] = format!("{}:{}", sh, toks.join(","));
    parts.join(" ")
}
/// operand shapes derived from a big shape: (receiver, argument) pairs in which the argument / the receiver / both are stretched
fn big_pairs(s: &[usize], both_ways: bool) -> Vec<(Vec<usize>, Vec<usize>)> {
    let mut out = vec![(s.to_vec(), s.to_vec()), (s.to_vec(), vec![1])];
    let r = s.len();
    if r > 1 {
        let mut first1 = s.to_vec(); first1[0] = 1;
        let mut last1 = s.to_vec(); last1[r - 1] = 1;
        out.push((s.to_vec(), s[1..].to_vec()));            // leading axis missing
        out.push((s.to_vec(), last1.clone()));              // trailing unit axis stretched
        if r > 2 { let mut mid1 = s.to_vec(); mid1[r / 2] = 1; out.push((s.to_vec(), mid1)); }   // inner unit axis stretched
        if both_ways {
            out.push((s[r - 1..].to_vec(), s.to_vec()));    // the receiver is stretched
            out.push((first1.clone(), last1.clone()));      // both are stretched
            out.push((last1, first1));
        }
    } else if both_ways { out.push((vec![1], s.to_vec())); }
    out
}

/// put a zero (for f64: +0.0 or -0.0) somewhere into the second operand
fn with_zero(line: &str, ty: &str, rng: &mut Rng) -> String {
    let mut parts: Vec<String> = line.split(' ').map(String::from).collect();
    let (sh, el) = parts[4].split_once(':').unwrap();
    let mut toks: Vec<String> = el.split(',').map(String::from).collect();
    let k = rng.below(toks.len());
    toks[k] = if ty == "f64" { if rng.below(2) == 0 { (0.0f64).tok() } else { (-0.0f64).tok() } } else { "0".to_string() };
    parts[4] = format!("{}:{}", sh, toks.join(","));
    parts.join(" ")
}

/// commute-safe values: every scalar kernel of the commutative ops is bit-exactly symmetric on them
fn comm_vals(rng: &mut Rng, ty: &str, oi: &OpInfo, n: usize) -> Vec<String> {
    if oi.dom == Dom::Small { let p: Vec<i64> = (0..=40).collect(); return (0..n).map(|_| { let v = *rng.pick(&p); if ty == "f64" || ty == "f32" { (v as f64).tok() } else { v.to_string() } }).collect(); }
    match ty {
        // (every value of the list is exactly representable in f32 too; both widths travel as f64 bit patterns)
        "f64" | "f32" => { let p = [1.0, -1.0, 0.5, 2.0, -2.5, 3.0, 7.0, -10.0, 0.25, 100.0, 2147483648.0, f64::INFINITY, f64::NEG_INFINITY, f64::NAN, 0.0, 12.0, 6.5, -3.0]; (0..n).map(|_| rng.pick(&p).tok()).collect() }
        "u8" => (0..n).map(|_| rng.below(256).to_string()).collect(),
        "i32" => { let p = <i32 as Elem>::pool(Dom::General); (0..n).map(|_| rng.pick(&p).to_string()).collect() }
        "i8" => { let p = <i8 as Elem>::pool_x(Dom::General); (0..n).map(|_| rng.pick(&p).to_string()).collect() }
        "i16" => { let p = <i16 as Elem>::pool_x(Dom::General); (0..n).map(|_| rng.pick(&p).to_string()).collect() }
        "u16" => { let p = <u16 as Elem>::pool_x(Dom::General); (0..n).map(|_| rng.pick(&p).to_string()).collect() }
        "u32" => { let p = <u32 as Elem>::pool_x(Dom::General); (0..n).map(|_| rng.pick(&p).to_string()).collect() }
        "u64" => { let p = <u64 as Elem>::pool_x(Dom::General); (0..n).map(|_| rng.pick(&p).to_string()).collect() }
        _ => { let p = <i64 as Elem>::pool(Dom::General); (0..n).map(|_| rng.pick(&p).to_string()).collect() }
    }
}

/// pair class used for the quick-tier subsample of the refusal / comm streams
fn derive_shape(rng: &mut Rng, base: &[usize]) -> Vec<usize> {
    let k = rng.below(base.len());
    let mut s: Vec<usize> = base[k..].iter().map(|&d| match rng.below(6) { 0 | 1 => 1, 2 => 1 + rng.below(4), _ => d }).collect();
    if rng.below(10) == 0 { s.insert(0, 1 + rng.below(3)); }
    s
}

fn gen(tier: &str, seed: u64, out: &mut dyn FnMut(String)) {
    let mut buf: Vec<String> = vec![];
    gen_all(tier, seed, &mut |l| buf.push(l));
    // two bookkeeping lines: how often the harness-native coordinate formula was compared with the model.  The first one sits where
    // the summary of lib.rs takes its last sample (so that the count shows up in the evidence), the second one closes the run.
    let stride = ((buf.len() + 2) / 12).max(1);
    let at = (11 * stride).min(buf.len());
    buf.insert(at, "oracle_report".to_string());
    buf.push("oracle_report final".to_string());
    for l in buf { out(l); }
}

fn gen_all(tier: &str, seed: u64, out: &mut dyn FnMut(String)) {
    let thorough = tier == "thorough";
    // (i) corpus of past failures
    for l in [
        "bitwise_xor IB i32 3:1,2,3 2,1:7,8",               // pinned: built with the receiver's shape -> ShapeMustMatchValuesLength
        "bitwise_xor IB i32 1:5 3:1,2,3",                   // pinned: same
        "bitwise_xor IB i64 1,3:1,2,3 1,1,3:4,5,6",         // pinned: values right, shape [1,3] instead of [1,1,3]
        "lcm RA i32 2:0,3 2:0,4",                           // pinned: lcm(0,0) divides by zero
        "lcm RA i32 2,2:0,3,5,0 1:0",
        "maximum R i32 1:1 3:1,2,3",                        // before e71698d: truncated data instead of an error
        "maximum R i32 3,1:1,2,3 1,3:7,8,9",
        "add B i32 2,3:1,2,3,4,5,6 1:10",                   // before e71698d: shape [3,2]
        "divide G f64 2:x3ff0000000000000,x4000000000000000 2:x4000000000000000,x8000000000000000",
        "floor_divide GM i32 3:-7,7,-9 1:2",
    ] { out(l.to_string()); }
    let small = shapes(1, 3, 1, 3);
    // (ii) exhaustive, both tiers: every op x every ordered pair of shapes rank<=3 len<=3 (compatible or not) x every element type
    for oi in OPS.iter() {
        for sa in &small { for sb in &small {
            for ty in types_of(oi) { out(case_line(oi, ty, sa, sb, 0)); }
        } }
    }
    let mut rng = Rng::new(seed ^ 0xC04);
    // clip: receiver x lower x upper bound shapes
    let clip_info = o("clip", "R3", false, false, Dom::General);
    let n_clip = if thorough { 40000 } else { 4000 };
    for k in 0..n_clip {
        let ty = ["i32", "i64", "u8", "f64"][k % 4];
        let sa = rng.pick(&small).clone();
        let pick_bound = |rng: &mut Rng| -> Vec<usize> { match rng.below(5) { 0 => vec![1], 1 => rng.pick(&small).clone(), _ => { let k = rng.below(sa.len()); sa[k..].iter().map(|&d| if rng.below(3) == 0 { 1 } else { d }).collect() } } };
        let (sl, sh) = (pick_bound(&mut rng), pick_bound(&mut rng));
        let (a, l) = fill_ty(&mut rng, ty, &clip_info, &sa, &sl);
        let (_, h) = fill_ty(&mut rng, ty, &clip_info, &sa, &sh);
        out(format!("clip R3 {} {} {} {}", ty, a, l, h));
    }
    // commutativity on the code: every commutative op x every type x every shape (equal shapes: the statement),
    // plus compatible unequal pairs for the both-stretch family
    for oi in OPS.iter().filter(|x| x.comm) {
        for ty in types_of(oi) {
            for sa in &small {
                let n: usize = sa.iter().product();
                let (va, vb) = (comm_vals(&mut rng, ty, oi, n), comm_vals(&mut rng, ty, oi, n));
                out(format!("comm {} {} {} {}:{} {}:{}", oi.name, oi.pat, ty, show_list(sa), va.join(","), show_list(sa), vb.join(",")));
            }
            // receiver-shaped ops commute only on equal shapes (the result takes the receiver's shape)
            let n_pairs = if !matches!(oi.pat, "B" | "IB") { 0 } else if thorough { 300 } else { 40 };
            for _ in 0..n_pairs {
                let (sa, sb) = (rng.pick(&small).clone(), rng.pick(&small).clone());
                let (na, nb): (usize, usize) = (sa.iter().product(), sb.iter().product());
                let (va, vb) = (comm_vals(&mut rng, ty, oi, na), comm_vals(&mut rng, ty, oi, nb));
                out(format!("comm {} {} {} {}:{} {}:{}", oi.name, oi.pat, ty, show_list(&sa), va.join(","), show_list(&sb), vb.join(",")));
            }
        }
    }
    // refusal stream: the division family with a zero in the divisor array
    for name in DIVISION_FAMILY {
        let oi = info(name).unwrap();
        let mut k = 0usize;
        for sa in &small { for sb in &small {
            k += 1;
            if !thorough && k % 6 != 0 { continue; }
            for ty in types_of(oi) {
                if !thorough && rng.below(2) == 0 { continue; }
                let line = case_line(oi, ty, sa, sb, 1);
                out(with_zero(&line, ty, &mut rng));
            }
        } }
    }
    // (iii) seeded random beyond the small scope: rank <= 4, len <= 4, mostly compatible
    let n_rand = if thorough { 150000 } else { 10000 };
    for k in 0..n_rand {
        let oi = &OPS[rng.below(OPS.len())];
        let ty = *rng.pick(types_of(oi));
        let base = { let mut b = rng.shape(2, 4, 4); if rng.below(3) > 0 { while b.len() < 4 { b.insert(0, 1 + rng.below(3)); } } b };
        let (sa, sb) = match rng.below(4) { 0 => (base.clone(), derive_shape(&mut rng, &base)), 1 => (derive_shape(&mut rng, &base), base.clone()), _ => (derive_shape(&mut rng, &base), derive_shape(&mut rng, &base)) };
        let line = case_line(oi, ty, &sa, &sb, seed.wrapping_add(k as u64));
        if DIVISION_FAMILY.contains(&oi.name) && rng.below(8) == 0 { out(with_zero(&line, ty, &mut rng)); } else { out(line); }
    }
    // (iv) malformed: zero-length operands (the broadcast layer refuses them)
    for oi in OPS.iter() {
        let ty = types_of(oi)[0];
        for (sa, sb) in [(vec![0usize], vec![0usize]), (vec![2, 0], vec![2, 1]), (vec![0], vec![3]), (vec![1], vec![0])] {
            out(case_line(oi, ty, &sa, &sb, 2));
        }
    }

    // ================= robustness streams (FRAMEWORK.md); every case above and below runs on the plain, the Ok(_) and the Err(_) receiver
    let mut rx = Rng::new(seed ^ 0xC04_0002);
    // (v) element types i8 i16 u16 u32 u64 f32 on the exhaustive shape-pair scope (thorough: every pair; quick: every pair for one
    //     of the new types in rotation + all of them on the rank<=2 pairs), values at the limits of the type
    let small2 = shapes(1, 2, 1, 3);
    for (oi_k, oi) in OPS.iter().enumerate() {
        let tn = types_new(oi);
        let mut k = 0usize;
        for sa in &small { for sb in &small {
            k += 1;
            for (ti, ty) in tn.iter().enumerate() {
                let low_rank = sa.len() <= 2 && sb.len() <= 2;
                if thorough || low_rank || (k + oi_k) % tn.len() == ti { out(case_line_x(oi, ty, sa, sb, 0)); }
            }
        } }
    }
    // (vi) value classes on the original element types: integers beyond 2^53 and at the limits of i64 (the f64 round trip loses bits /
    //      saturates), sub-EPSILON and f32-subnormal divisors, values around 2^63 / 2^64 / f32::MAX
    for oi in OPS.iter() {
        for ty in ["i64", "f64", "i32"] {
            if !types_of(oi).contains(&ty) { continue; }
            let scope = if thorough { &small } else { &small2 };
            for sa in scope { for sb in scope { out(case_line_x(oi, ty, sa, sb, 3)); } }
        }
    }
    // (vii) sizes: big_shapes() (axis lengths 7..17 in every position, > 256 / 1024 / 4096 elements), the argument, the receiver or
    //       both stretched; quick: element types in rotation (every op meets every size class, every type meets every size class
    //       through some op), thorough: every type
    let bigs = big_shapes();
    for (oi_k, oi) in OPS.iter().enumerate() {
        let ta = types_all(oi);
        let both_ways = matches!(oi.pat, "B" | "G" | "GM" | "IB");
        for (si, s) in bigs.iter().enumerate() {
            for (vi, (sa, sb)) in big_pairs(s, both_ways).iter().enumerate() {
                let n: usize = sa.iter().product::<usize>().max(sb.iter().product());
                for (ti, ty) in ta.iter().enumerate() {
                    let pick = if thorough { n <= 1100 || (si + vi + oi_k) % 3 == ti % 3 } else { (si + vi + oi_k) % ta.len() == ti || (n <= 100 && (si + vi + oi_k + 5) % ta.len() == ti) };
                    if pick { out(case_line_x(oi, ty, sa, sb, 4)); }
                }
            }
        }
    }
    // (viii) zero-length axes: zero_shapes() against itself, a one-element, a stretchable and an unrelated operand, in both positions
    for (oi_k, oi) in OPS.iter().enumerate() {
        let ta = types_all(oi);
        for (zi, z) in zero_shapes().iter().enumerate() {
            let mut ones = z.clone(); for d in ones.iter_mut() { if *d == 0 { *d = 1; } }
            for (vi, (sa, sb)) in [(z.clone(), z.clone()), (z.clone(), vec![1]), (vec![1], z.clone()), (z.clone(), ones.clone()), (ones.clone(), z.clone()), (z.clone(), vec![2, 3]), (vec![2], z.clone())].iter().enumerate() {
                for (ti, ty) in ta.iter().enumerate() {
                    if thorough || (zi + vi + oi_k) % ta.len() == ti || (zi + vi + oi_k + 3) % ta.len() == ti { out(case_line_x(oi, ty, sa, sb, 5)); }
                }
            }
        }
    }
    // (ix) refusal beyond the small scope: the zero (for floats +0.0 / -0.0) at the LAST, a middle or the first position of a long
    //      divisor, every division-family op x every element type
    for name in DIVISION_FAMILY {
        let oi = info(name).unwrap();
        for (ti, ty) in types_all(oi).iter().enumerate() {
            for (si, s) in [vec![9usize], vec![17, 16], vec![300], vec![1030], vec![4100], vec![70, 70], vec![2, 3, 4, 5, 2]].iter().enumerate() {
                if !thorough && s.iter().product::<usize>() > 1100 && (si + ti) % 3 != 0 { continue; }
                let n: usize = s.iter().product();
                let (recv_shape, k) = match (si + ti) % 3 { 0 => (s.clone(), n - 1), 1 => (vec![1], n - 1), _ => (s.clone(), if rx.below(2) == 0 { 0 } else { n / 2 + 1 }) };
                out(with_zero_at(&case_line_x(oi, ty, &recv_shape, s, 6), ty, k, (si + ti) % 2 == 0));
            }
            // new element types on the small scope
            if !types_of(oi).contains(ty) {
                for sa in &small2 { for sb in &small2 {
                    let line = case_line_x(oi, ty, sa, sb, 7);
                    let nb: usize = sb.iter().product();
                    out(with_zero_at(&line, ty, rx.below(nb), rx.below(2) == 0));
                } }
            }
        }
    }
    // (x) clip on every element type, big and zero-length receivers
    let clip_info = o("clip", "R3", false, false, Dom::General);
    let all10 = ["i32", "i64", "u8", "f64", "i8", "i16", "u16", "u32", "u64", "f32"];
    let n_clip2 = if thorough { 12000 } else { 1500 };
    for k in 0..n_clip2 {
        let ty = all10[k % 10];
        let sa = rx.pick(&small).clone();
        let pick_bound = |rng: &mut Rng| -> Vec<usize> { match rng.below(5) { 0 => vec![1], 1 => rng.pick(&small).clone(), _ => { let k = rng.below(sa.len()); sa[k..].iter().map(|&d| if rng.below(3) == 0 { 1 } else { d }).collect() } } };
        let (sl, sh) = (pick_bound(&mut rx), pick_bound(&mut rx));
        let (a, l) = fill_ty_x(&mut rx, ty, &clip_info, &sa, &sl, true);
        let (_, h) = fill_ty_x(&mut rx, ty, &clip_info, &sa, &sh, true);
        out(format!("clip R3 {} {} {} {}", ty, a, l, h));
    }
    for (si, s) in bigs.iter().chain(zero_shapes().iter()).enumerate() {
        let r = s.len();
        let mut last1 = s.clone(); last1[r - 1] = if last1[r - 1] == 0 { 0 } else { 1 };
        for (vi, (sl, sh)) in [(vec![1], vec![1]), (s.clone(), vec![1]), (s[r - 1..].to_vec(), s.clone()), (last1.clone(), s[r - 1..].to_vec())].iter().enumerate() {
            for (ti, ty) in all10.iter().enumerate() {
                if !(thorough && s.iter().product::<usize>() <= 1100) && (si + vi) % 10 != ti { continue; }
                let (a, l) = fill_ty_x(&mut rx, ty, &clip_info, s, sl, true);
                let (_, h) = fill_ty_x(&mut rx, ty, &clip_info, s, sh, true);
                out(format!("clip R3 {} {} {} {}", ty, a, l, h));
            }
        }
    }
    // (xi) commutativity on the code: the new element types on every small shape, every type on big equal shapes
    for (oi_k, oi) in OPS.iter().filter(|x| x.comm).enumerate() {
        for ty in types_new(oi) {
            for sa in &small {
                let n: usize = sa.iter().product();
                let (va, vb) = (comm_vals(&mut rx, ty, oi, n), comm_vals(&mut rx, ty, oi, n));
                out(format!("comm {} {} {} {}:{} {}:{}", oi.name, oi.pat, ty, show_list(sa), va.join(","), show_list(sa), vb.join(",")));
            }
        }
        let ta = types_all(oi);
        for (si, s) in bigs.iter().enumerate() {
            let n: usize = s.iter().product();
            for (ti, ty) in ta.iter().enumerate() {
                if !(thorough && n <= 1100) && (si + oi_k) % ta.len() != ti { continue; }
                let (va, vb) = (comm_vals(&mut rx, ty, oi, n), comm_vals(&mut rx, ty, oi, n));
                out(format!("comm {} {} {} {}:{} {}:{}", oi.name, oi.pat, ty, show_list(s), va.join(","), show_list(s), vb.join(",")));
                // the both-stretch family also commutes on unequal compatible shapes
                if matches!(oi.pat, "B" | "IB") && s.len() > 1 {
                    let sb = s[1..].to_vec(); let nb: usize = sb.iter().product();
                    let vb = comm_vals(&mut rx, ty, oi, nb);
                    out(format!("comm {} {} {} {}:{} {}:{}", oi.name, oi.pat, ty, show_list(s), va.join(","), show_list(&sb), vb.join(",")));
                }
            }
        }
    }
    // (xii) seeded random beyond the small scope on every element type with the extended pools: rank <= 4, len <= 4 / one long axis
    let n_rand2 = if thorough { 60000 } else { 6000 };
    for k in 0..n_rand2 {
        let oi = &OPS[rx.below(OPS.len())];
        let ta = types_all(oi);
        let ty = *rx.pick(&ta);
        let mut base = rx.shape(1, 4, 4);
        if rx.below(4) == 0 { let p = rx.below(base.len()); base[p] = 7 + rx.below(11); }
        let (sa, sb) = match rx.below(4) { 0 => (base.clone(), derive_shape(&mut rx, &base)), 1 => (derive_shape(&mut rx, &base), base.clone()), _ => (derive_shape(&mut rx, &base), derive_shape(&mut rx, &base)) };
        let line = case_line_x(oi, ty, &sa, &sb, seed.wrapping_add(k as u64));
        if DIVISION_FAMILY.contains(&oi.name) && rx.below(8) == 0 { let nb: usize = sb.iter().product(); out(with_zero_at(&line, ty, rx.below(nb), rx.below(2) == 0)); } else { out(line); }
    }

    gen_part2(thorough, seed, out);
    gen_part3(thorough, seed, out);
}

/// FRAMEWORK.md robustness streams, part 2: hidden state, huge sizes, exact lengths, aliasing, high ranks, edge values
fn gen_part2(thorough: bool, seed: u64, out: &mut dyn FnMut(String)) {
    let mut ry = Rng::new(seed ^ 0xC04_0003);
    let small2 = shapes(1, 2, 1, 3);
    let r_family = |oi: &OpInfo| matches!(oi.pat, "R" | "RA");
    // ---- (xiii) aliasing: every op x every element type with ONE array text on both sides (exec calls `a.op(&a)` with the same
    //      object and compares it bit-wise with the separately-built-operands answer, which is compared with the model);
    //      NaN, +-inf, +-0.0, f64::MAX, the integer limits inside
    let mut alias_shapes: Vec<Vec<usize>> = small2.clone();
    alias_shapes.extend(vec![vec![7], vec![3, 3, 3], vec![17, 16], vec![2, 1, 2, 1, 2]]);
    for (oi_k, oi) in OPS.iter().enumerate() {
        let ta = types_all(oi);
        for (si, s) in alias_shapes.iter().enumerate() {
            for (ti, ty) in ta.iter().enumerate() {
                let n: usize = s.iter().product();
                if n > 30 && !thorough && (si + oi_k) % ta.len() != ti { continue; }
                out(alias_line(oi, ty, s, 0));
                if thorough || n <= 4 { out(alias_line(oi, ty, s, 1)); }
            }
        }
        // a huge one: 16 385 elements (one more than 2^14)
        out(alias_line(oi, ta[oi_k % ta.len()], &[16385], 0));
        if thorough { out(alias_line(oi, ta[(oi_k + 1) % ta.len()], &[129, 131], 0)); }
    }

    // ---- (xiv) hidden state.  Every `seq` line is self-contained: its calls run one after the other on the executing thread.
    // (a) operand shapes that collide under the polynomial hashes h*m + dim (m = 31, 33, 37, 131, 257): both operands of one call
    //     (both-stretch family, clip bounds), the two arguments of two consecutive calls on one receiver (every family), both orders
    let mut cols: Vec<(Vec<usize>, Vec<usize>)> = vec![];
    for &m in &[31usize, 33, 37, 131, 257] {
        cols.push((vec![2, 1], vec![1, 1 + m]));
        cols.push((vec![2, 1, 2], vec![1, 1 + m, 2]));
        cols.push((vec![3, 2, 1], vec![3, 1, 1 + m]));
    }
    for (p, q) in collision_shape_pairs() { if p.len() == 2 && bshape(&p, &q).is_some() && !cols.contains(&(p.clone(), q.clone())) { cols.push((p, q)); } }
    let clip_info = o("clip", "R3", false, false, Dom::General);
    for (oi_k, oi) in OPS.iter().enumerate() {
        let ta = types_all(oi);
        for (ci, (p, q)) in cols.iter().enumerate() {
            if !thorough && (ci + oi_k) % 3 != 0 { continue; }
            let ty = ta[(ci + oi_k) % ta.len()];
            let t = bshape(p, q).unwrap();
            if !r_family(oi) {
                out(case_line_y(oi, ty, p, q, 20));
                out(case_line_y(oi, ty, q, p, 20));
            }
            seq_aba(&case_line_y(oi, ty, &t, p, 21), &case_line_y(oi, ty, &t, q, 21), out);
        }
    }
    for (ci, (p, q)) in cols.iter().enumerate() {
        let ty = ["i32", "i64", "u8", "f64", "i8", "i16", "u16", "u32", "u64", "f32"][ci % 10];
        let t = bshape(p, q).unwrap();
        let mut rng = Rng::new(hash_str(&format!("clipcol|{ci}")));
        let (a, l) = by_ty!(ty, fill_y, &mut rng, &clip_info, &t, p);
        let (_, h) = by_ty!(ty, fill_y, &mut rng, &clip_info, &t, q);
        out(format!("clip R3 {ty} {a} {l} {h}"));
        out(format!("clip R3 {ty} {a} {h} {l}"));
    }
    // (b) transposed shapes / equal element counts / equal sums of dims in consecutive calls (keys built from counts or sorted dims)
    for (oi_k, oi) in OPS.iter().enumerate() {
        let ta = types_all(oi);
        for (vi, (s1, a1, s2, a2)) in [(vec![2, 3], vec![2, 1], vec![3, 2], vec![3, 1]), (vec![2, 3], vec![1, 3], vec![3, 2], vec![1, 2]), (vec![2, 2, 3], vec![2, 1, 3], vec![2, 3, 2], vec![2, 1, 2]), (vec![4, 3], vec![4, 1], vec![2, 6], vec![2, 1]),
                                       (vec![3, 5], vec![5], vec![5, 3], vec![3])].iter().enumerate() {
            let ty = ta[(vi + oi_k) % ta.len()];
            seq_aba(&case_line_y(oi, ty, s1, a1, 22), &case_line_y(oi, ty, s2, a2, 22), out);
        }
    }
    // (c) the same shapes with other VALUES: the first operand rotated by one position (same multiset, same sum) and with one value
    //     replaced by its neighbour (a memo keyed by a fingerprint of the values, or compared with a tolerance)
    for (oi_k, oi) in OPS.iter().enumerate() {
        let ta = types_all(oi);
        for (vi, (sa, sb)) in [(vec![4], vec![4]), (vec![2, 2], vec![2]), (vec![3, 2], vec![3, 1]), (vec![5], vec![1])].iter().enumerate() {
            for ty in [ta[(vi + oi_k) % ta.len()], ta[(vi + oi_k + 1) % ta.len()]] {
                let x = case_line(oi, ty, sa, sb, 23);      // the original pools: values a neighbour of which is still in the domain
                seq_aba(&x, &rotate_first(&x), out);
                let y = nudge_first(&x);
                if y != x { seq_aba(&x, &y, out); }
            }
        }
    }
    // (d) a refused call directly followed by an accepted one on related operands, and back: incompatible shapes; a zero in the divisor
    for (oi_k, oi) in OPS.iter().enumerate() {
        let ta = types_all(oi);
        let ty = ta[oi_k % ta.len()];
        let good = case_line_y(oi, ty, &[2, 3], &[3], 24);
        let bad = case_line_y(oi, ty, &[2, 3], &[2], 24);
        seq_aba(&bad, &good, out);
        out(format!("seq {bad} / {bad} / {good} / {good}"));
        if DIVISION_FAMILY.contains(&oi.name) {
            for ty in ta.iter() {
                let good = case_line_y(oi, ty, &[2, 3], &[3], 25);
                let bad = with_zero_at(&good, ty, 2, true);
                seq_aba(&bad, &good, out);
                let good2 = case_line_y(oi, ty, &[3], &[2, 3], 25);
                seq_aba(&with_zero_at(&good2, ty, 5, false), &good2, out);
            }
        }
    }
    // (e) interleaved: sequences of 4..6 seeded random small calls of different ops, types and shapes
    let n_seq = if thorough { 4000 } else { 500 };
    for k in 0..n_seq {
        let base = ry.shape(1, 3, 3);
        let parts: Vec<String> = (0..4 + ry.below(3)).map(|j| {
            let oi = &OPS[ry.below(OPS.len())];
            let ty = *ry.pick(&types_all(oi));
            let (sa, sb) = if r_family(oi) || ry.below(2) == 0 { (base.clone(), derive_shape(&mut ry, &base)) } else { (derive_shape(&mut ry, &base), derive_shape(&mut ry, &base)) };
            case_line_y(oi, ty, &sa, &sb, seed.wrapping_add((k * 8 + j) as u64))
        }).collect();
        out(format!("seq {}", parts.join(" / ")));
    }

    // ---- (xv) huge sizes: equally shaped operands of 16 385 .. 20 000 elements (more than 2^14, not a multiple of it), stretched
    //      operands of 16 900 .. 140 000 elements (an axis above 65 536; a 36 000-element target with two non-unit source axes)
    let huge_eq: [Vec<usize>; 4] = [vec![100, 200], vec![16385], vec![129, 131], vec![20000]];
    let huge_st: [(Vec<usize>, Vec<usize>); 6] = [(vec![130, 130], vec![130, 1]), (vec![130, 130], vec![1, 130]), (vec![40, 30, 30], vec![40, 1, 30]), (vec![2, 70000], vec![2, 1]), (vec![300, 300], vec![300]), (vec![70000, 2], vec![2])];
    for (oi_k, oi) in OPS.iter().enumerate() {
        let ta = types_all(oi);
        for (si, s) in huge_eq.iter().enumerate() {
            for (ti, ty) in ta.iter().enumerate() {
                let pick = if thorough { (si + oi_k + ti) % 3 == 0 } else { (si == oi_k % 4 && ti == oi_k % ta.len()) || (si == (oi_k + 1) % 4 && ti == (oi_k + 3) % ta.len()) };
                if pick { out(case_line_y(oi, ty, s, s, 30)); }
            }
        }
        for (si, (sa, sb)) in huge_st.iter().enumerate() {
            let n: usize = sa.iter().product();
            for (ti, ty) in ta.iter().enumerate() {
                let pick = if thorough { (si + oi_k + ti) % 4 == 0 && (n < 100_000 || (oi_k + ti) % 3 == 0) } else { si == oi_k % huge_st.len() && ti == (oi_k / 2) % ta.len() };
                if !pick { continue; }
                out(case_line_y(oi, ty, sa, sb, 31));
                // the receiver is the stretched one (both-stretch family only; a refusal for the receiver-shaped family)
                if !r_family(oi) && (thorough || oi_k % 2 == 0) { out(case_line_y(oi, ty, sb, sa, 31)); }
            }
        }
        if !r_family(oi) && (thorough || oi_k % 3 == 0) { out(case_line_y(oi, ta[oi_k % ta.len()], &[130, 1], &[1, 130], 32)); }
        if oi.comm && (thorough || oi_k % 2 == 0) {
            let (ty, s) = (ta[oi_k % ta.len()], &huge_eq[oi_k % 4]);
            let n: usize = s.iter().product();
            let (va, vb) = (comm_vals(&mut ry, ty, oi, n), comm_vals(&mut ry, ty, oi, n));
            out(format!("comm {} {} {} {}:{} {}:{}", oi.name, oi.pat, ty, show_list(s), va.join(","), show_list(s), vb.join(",")));
        }
    }
    // an axis above 65 536 that is NOT stretched while the other axis is: [70000] with [2,1] (both-stretch family), receiver [2,70000]
    // with argument [70000] (receiver-shaped family).  9.5 s of model time each (list-backed gather): one op of each family per run in
    // the quick tier (chosen by the seed), three in the thorough tier
    let (fam_b, fam_r): (Vec<&OpInfo>, Vec<&OpInfo>) = OPS.iter().partition(|oi| !r_family(oi));
    for j in 0..(if thorough { 3 } else { 1 }) {
        let (ob, or) = (fam_b[(seed as usize + j * 7) % fam_b.len()], fam_r[(seed as usize + j * 3) % fam_r.len()]);
        let (tb, tr) = (types_all(ob), types_all(or));
        out(case_line_y(ob, tb[(seed as usize + j) % tb.len()], &[70000], &[2, 1], 33));
        out(case_line_y(or, tr[(seed as usize + j) % tr.len()], &[2, 70000], &[70000], 33));
    }
    // clip on huge receivers
    for (si, s) in huge_eq.iter().enumerate() {
        let ty = ["f64", "i32", "u8", "i64"][si];
        let mut rng = Rng::new(hash_str(&format!("cliphuge|{si}")));
        let last = vec![*s.last().unwrap()];
        let (a, l) = by_ty!(ty, fill_y, &mut rng, &clip_info, s, s);
        let (_, h) = by_ty!(ty, fill_y, &mut rng, &clip_info, s, &last);
        out(format!("clip R3 {ty} {a} {l} {h}"));
    }

    // ---- (xvi) exact lengths: every axis length 1..300 in a non-leading position, ops and element types in rotation
    for l in 1..=300usize {
        for oi_k in [l % OPS.len(), (l * 7 + 3) % OPS.len()] {
            let oi = &OPS[oi_k];
            let ta = types_all(oi);
            let ty = ta[l % ta.len()];
            out(case_line_y(oi, ty, &[2, l], &[2, 1], 40));
            if r_family(oi) { out(case_line_y(oi, ty, &[3, l], &[l], 40)); } else { out(case_line_y(oi, ty, &[3, 1], &[1, l], 40)); }
            if thorough { out(case_line_y(oi, ty, &[2, l, 2], &[l, 1], 40)); }
        }
    }
    // ---- (xvii) ranks 5..8
    let n_rank = if thorough { 3000 } else { 300 };
    for k in 0..n_rank {
        let oi = &OPS[k % OPS.len()];
        let ty = *ry.pick(&types_all(oi));
        let r = 5 + ry.below(4);
        let b: Vec<usize> = loop { let b: Vec<usize> = (0..r).map(|_| *ry.pick(&[1usize, 1, 2, 2, 3])).collect(); if b.iter().product::<usize>() <= 300 { break b; } };
        let derive = |rng: &mut Rng| -> Vec<usize> { let j = rng.below(b.len()); b[j..].iter().map(|&d| if rng.below(2) == 0 { 1 } else { d }).collect() };
        let (sa, sb) = if r_family(oi) || ry.below(2) == 0 { (b.clone(), derive(&mut ry)) } else { (derive(&mut ry), derive(&mut ry)) };
        out(case_line_y(oi, ty, &sa, &sb, seed.wrapping_add(k as u64)));
    }
    // ---- (xviii) edge values (f64::MAX before +inf and its neighbours, f32::MAX, the largest subnormal, 1 -+ EPSILON) on the float
    //      types and the limit values on the integer types, every op x every type x every ordered pair of shapes rank<=2 len<=3
    for oi in OPS.iter() {
        for ty in types_all(oi) {
            if !thorough && !matches!(ty, "f64" | "f32") { continue; }
            for sa in &small2 { for sb in &small2 { out(case_line_y(oi, ty, sa, sb, 50)); if matches!(ty, "f64" | "f32") { out(case_line_y(oi, ty, sa, sb, 51)); } } }
        }
    }
}

// ------------------------------------------------------------------ FRAMEWORK.md robustness streams, part 3

/// a giant case line: the operands are named by shape and fill rule
fn gline(oi: &OpInfo, ty: &str, sa: &[usize], sb: &[usize], fa: &str, fb: &str) -> String {
    format!("g {} {} {} {} {} {} {}", oi.name, oi.pat, ty, show_list(sa), show_list(sb), fa, fb)
}
/// (receiver, argument) shapes derived from a giant target: the argument lacks the leading axis / has a unit first, middle or last
/// axis / is one element; `both_ways`: the receiver is the stretched one, both are stretched (complementary unit axes)
fn giant_pairs(t: &[usize], both_ways: bool) -> Vec<(Vec<usize>, Vec<usize>)> {
    let r = t.len();
    let unit = |k: usize| { let mut s = t.to_vec(); s[k] = 1; s };
    let mut out = vec![(t.to_vec(), vec![1])];
    if r > 1 {
        out.push((t.to_vec(), t[1..].to_vec()));
        out.push((t.to_vec(), unit(0)));
        out.push((t.to_vec(), unit(r - 1)));
        if r > 2 { out.push((t.to_vec(), unit(r / 2))); out.push((t.to_vec(), t[r - 1..].to_vec())); }
        if both_ways {
            out.push((t[r - 1..].to_vec(), t.to_vec()));
            out.push((unit(0), unit(r - 1)));
            out.push((unit(r - 1), unit(0)));
            if r > 2 { out.push((unit(r / 2), t[1..].to_vec())); let mut u = unit(0); u[r - 1] = 1; out.push((u, unit(r / 2))); }
        }
    } else if both_ways { out.push((vec![1], t.to_vec())); }
    out
}
fn const_tok<N: Elem>(v: f64) -> String { N::t(v).tok() }
/// the constants of the value-relation stream in the domain `d` of an operand: identity / absorbing elements, sign, NaN, -0.0, limits
fn rel_consts<N: Elem>(d: Dom) -> Vec<N> {
    let mut v: Vec<N> = match d {
        Dom::Shift => vec![N::z(), N::u(), N::t(2.0), N::t(7.0)],
        Dom::Exp => vec![N::z(), N::u(), N::t(2.0), N::t(-1.0)],
        Dom::Small => vec![N::z(), N::u(), N::t(2.0), N::t(-1.0), N::t(-0.0), N::t(60.0)],
        Dom::General | Dom::Divisor => {
            let mut v = vec![N::z(), N::u(), N::t(2.0), N::t(-1.0), N::t(-0.0), N::t(0.5), N::t(f64::NAN), N::t(f64::INFINITY)];
            // the largest and the smallest value of the pool (the limits of the type)
            let pool = N::pool_y(Dom::General);
            if let Some(m) = pool.iter().copied().filter(|x| !x.f().is_nan()).max_by(|x, y| x.f().partial_cmp(&y.f()).unwrap()) { v.push(m); }
            if let Some(m) = pool.iter().copied().filter(|x| !x.f().is_nan()).min_by(|x, y| x.f().partial_cmp(&y.f()).unwrap()) { v.push(m); }
            v
        }
    };
    let mut out: Vec<N> = vec![];
    for x in v.drain(..) { if !out.iter().any(|o| o.key() == x.key()) { out.push(x); } }
    out
}
/// value relations random data never has, one op x one element type: constant operands on either / both sides (a constant zero
/// divisor is a refusal), constant but for the last element, +0.0 / -0.0 mixtures, operands equal under == but not bit-identical
fn rel_cases<N: Elem>(oi: &OpInfo, ty: &str, full: bool, out: &mut dyn FnMut(String)) {
    let da = if oi.dom == Dom::Small { Dom::Small } else { Dom::General };
    let db = oi.dom;
    let (ca, cb) = (rel_consts::<N>(da), rel_consts::<N>(db));
    let pairs: Vec<(Vec<usize>, Vec<usize>)> = vec![(vec![4], vec![4]), (vec![2, 3], vec![2, 3]), (vec![2, 3], vec![3]), (vec![2, 3], vec![2, 1]), (vec![3], vec![2, 3]), (vec![2, 1], vec![1, 3]),
        (vec![5], vec![1]), (vec![1], vec![5]), (vec![2, 2, 2], vec![2, 1, 2]), (vec![17, 16], vec![16]), (vec![64], vec![64]), (vec![1030], vec![1030])];
    let line = |va: &[N], sa: &[usize], vb: &[N], sb: &[usize]| format!("{} {} {} {} {}", oi.name, oi.pat, ty, show_vals(sa, va), show_vals(sb, vb));
    let zeros = |n: usize, salt: u64, flip: bool| -> Vec<N> { (0..n).map(|k| N::t(if (mix64(k as u64, salt) & 1 == 0) != flip { 0.0 } else { -0.0 })).collect() };
    for (pi, (sa, sb)) in pairs.iter().enumerate() {
        let (na, nb): (usize, usize) = (sa.iter().product(), sb.iter().product());
        let (big, very) = (na.max(nb) > 100, na.max(nb) > 1000);
        let mut rng = Rng::new(hash_str(&format!("rel|{}|{}|{}", oi.name, ty, pi)));
        let (va, vb) = (draw_y::<N>(&mut rng, da, na), draw_y::<N>(&mut rng, db, nb));
        // the constant argument / receiver / both
        let skip = |ci: usize, n: usize| if very { ci != pi % n } else { big && !full && ci % 3 != pi % 3 };
        for (ci, &c) in cb.iter().enumerate() { if skip(ci, cb.len()) { continue; } out(line(&va, sa, &vec![c; nb], sb)); }
        for (ci, &c) in ca.iter().enumerate() { if skip(ci, ca.len()) { continue; } out(line(&vec![c; na], sa, &vb, sb)); }
        for (ci, &c) in ca.iter().enumerate() {
            if big { continue; }
            let d1 = cb[ci % cb.len()]; let d2 = cb[(ci + 1) % cb.len()];
            out(line(&vec![c; na], sa, &vec![d1; nb], sb));
            if full || ci % 2 == pi % 2 { out(line(&vec![c; na], sa, &vec![d2; nb], sb)); }
        }
        // constant but for the last element (an all-equal test that samples)
        if nb > 1 { let mut w = vec![cb[pi % cb.len()]; nb]; w[nb - 1] = vb[nb - 1]; out(line(&va, sa, &w, sb)); }
        if na > 1 && !very { let mut w = vec![ca[pi % ca.len()]; na]; w[na - 1] = va[na - 1]; out(line(&w, sa, &vb, sb)); }
        // zeros of both signs: as the receiver, as the argument (division family: a refusal), on both sides with opposite signs
        // at every position (equal under ==, no bit pattern in common); integers: plain zeros
        {
            if !very { out(line(&zeros(na, 1, false), sa, &vb, sb)); }
            if !very { out(line(&va, sa, &zeros(nb, 2, false), sb)); }
            if sa == sb { out(line(&zeros(na, 3, false), sa, &zeros(nb, 3, true), sb)); if !very { out(line(&zeros(na, 4, false), sa, &zeros(nb, 4, false), sb)); } }
        }
        // operands equal under == everywhere but written separately, with the zeros among them of opposite sign
        if sa == sb && da == db && !very {
            let mut wa = va.clone(); let mut wb = va.clone();
            for k in 0..na { if k % 3 == 0 { wa[k] = N::t(0.0); wb[k] = N::t(-0.0); } }
            out(line(&wa, sa, &wb, sb));
        }
    }
}

/// FRAMEWORK.md robustness streams, part 3: (11) giant sizes, (13) value relations.  (12) element layout: the operations are defined
/// for the ten primitive numeric types only (1, 2, 4, 8 bytes: all of them run at giant size in rotation); (15): no operation of the
/// family takes a coordinate or a count.
fn gen_part3(thorough: bool, seed: u64, out: &mut dyn FnMut(String)) {
    // quick: targets just above 2^20 elements (1 048 580 .. 1 065 023: ranks 1..4, extents that are not multiples of 64, an axis above
    // 65 536 / 2^17 in leading, inner and trailing position); thorough: these and lib giant_shapes() (up to 2.2 million)
    let mut giants: Vec<Vec<usize>> = vec![vec![1 << 20 | 5], vec![3, 349_527], vec![349_527, 3], vec![1031, 1033], vec![2, 131_073, 4], vec![65, 129, 127], vec![600, 2, 875], vec![5, 52_429, 4], vec![3, 5, 7, 9987]];
    if thorough { giants.extend(giant_shapes()); }
    let s0 = seed as usize;
    let r_family = |oi: &OpInfo| matches!(oi.pat, "R" | "RA");
    // ---- (xix) giant operands, every op: equally shaped (the zip arm), and stretched (the gather arm) with the variant, the target
    //      and the element type in rotation over ops and seeds; fills: varied x varied, a constant / all-zeros-of-both-signs side
    let fills: [(&str, &str); 4] = [("v0", "v1"), ("v0", "C1"), ("C2", "v1"), ("m5", "v1")];
    let fill_of = |ty: &str, f: &str| -> String { if let Some(v) = f.strip_prefix('C') { let x: f64 = v.parse().unwrap(); format!("c{}", by_ty!(ty, const_tok, x)) } else { f.to_string() } };
    for (oi_k, oi) in OPS.iter().enumerate() {
        let ta = types_all(oi);
        let reps = if thorough { 3 } else { 1 };
        for rep in 0..reps {
            let t = &giants[(oi_k * 3 + s0 + rep * 10) % giants.len()];
            let ty = ta[(oi_k + s0 + rep) % ta.len()];
            let (fa, fb) = fills[(oi_k + s0 + rep) % 4];
            out(gline(oi, ty, t, t, &fill_of(ty, fa), &fill_of(ty, fb)));
            let t2 = &giants[(oi_k * 3 + s0 + rep * 10 + 4) % giants.len()];
            let vars = giant_pairs(t2, !r_family(oi));
            let n_var = if thorough { 2 } else { 1 };
            for j in 0..n_var {
                let (sa, sb) = &vars[(oi_k + s0 * 5 + rep + j * 3) % vars.len()];
                let ty = ta[(oi_k / 2 + s0 + rep + j) % ta.len()];
                let (fa, fb) = fills[(oi_k / 3 + s0 + rep + j) % 4];
                out(gline(oi, ty, sa, sb, &fill_of(ty, fa), &fill_of(ty, fb)));
            }
        }
    }
    // refusals at giant size: the zero (+0.0 / -0.0) at the last / a middle / the first position of a giant divisor, an all-zero
    // divisor of both signs; clashing shapes; a receiver that would have to be stretched (receiver-shaped family)
    for (k, name) in DIVISION_FAMILY.iter().enumerate() {
        let oi = info(name).unwrap();
        let ta = types_all(oi);
        let t = &giants[(k + s0) % giants.len()];
        let n: usize = t.iter().product();
        let ty = ta[(k + s0) % ta.len()];
        let pos = [n - 1, n / 2 + 1, 0][(k + s0) % 3];
        out(gline(oi, ty, t, t, "v0", &format!("z{pos}{}", if k % 2 == 0 { "n" } else { "p" })));
        let last = &t[t.len() - 1..];
        out(gline(oi, ta[(k + s0 + 1) % ta.len()], t, last, "v0", &format!("z{}{}", last[0] - 1, if k % 2 == 0 { "p" } else { "n" })));
        if thorough || k % 2 == s0 % 2 { out(gline(oi, ta[(k + s0 + 2) % ta.len()], t, t, "v0", "m7")); }
    }
    for (oi_k, oi) in OPS.iter().enumerate() {
        if !thorough && (oi_k + s0) % 4 != 0 { continue; }
        let ta = types_all(oi);
        let t = &giants[(oi_k + s0 + 2) % giants.len()];
        let ty = ta[(oi_k + s0) % ta.len()];
        let mut clash = t.clone(); let r = clash.len(); clash[r - 1] += 1;
        out(gline(oi, ty, t, &clash[r - 1..], "v0", "v1"));
        if r_family(oi) && t.len() > 1 { out(gline(oi, ty, &t[1..], t, "v0", "v1")); }
    }
    // clip at giant size: one-element / lane / full bounds
    let all10 = ["i32", "i64", "u8", "f64", "i8", "i16", "u16", "u32", "u64", "f32"];
    for j in 0..(if thorough { 8 } else { 2 }) {
        let t = &giants[(s0 + j * 3 + 1) % giants.len()];
        let ty = all10[(s0 + j) % 10];
        let r = t.len();
        let unit_last = { let mut u = t.clone(); u[r - 1] = 1; u };
        let (sl, sh) = match (s0 + j) % 3 { 0 => (vec![1], t[r - 1..].to_vec()), 1 => (t.clone(), vec![1]), _ => (unit_last, t[r - 1..].to_vec()) };
        out(format!("g clip R3 {ty} {} {} {} v0 v1 v2", show_list(t), show_list(&sl), show_list(&sh)));
    }
    // a length above 2^24 (where `len as f32` stops being exact): one-byte elements, equally shaped operands (thorough: three ops)
    let over24 = [(1usize << 24) + 3];
    for j in 0..(if thorough { 3 } else { 1 }) {
        let oi = info(["bitwise_and", "add", "maximum", "subtract", "minimum", "bitwise_xor"][(s0 + j * 2) % 6]).unwrap();
        out(gline(oi, ["u8", "i8"][(s0 + j) % 2], &over24, &over24, "v0", "v1"));
    }

    // ---- (xx) value relations: every op x (quick: one float and one integer type in rotation; thorough: every type)
    for (oi_k, oi) in OPS.iter().enumerate() {
        let ta = types_all(oi);
        let (floats, ints): (Vec<&str>, Vec<&str>) = ta.iter().partition(|t| matches!(**t, "f64" | "f32"));
        let mut tys: Vec<&str> = if thorough { ta.clone() } else { vec![floats[(oi_k + s0) % floats.len()]] };
        if !thorough && !ints.is_empty() { tys.push(ints[(oi_k + s0) % ints.len()]); }
        for ty in tys { by_ty!(ty, rel_cases, oi, ty, thorough, out); }
    }
    // clip: constant bounds (equal to each other, to the receiver), a constant receiver, zeros of both signs
    for (ti, ty) in all10.iter().enumerate() {
        if !thorough && (ti + s0) % 3 != 0 { continue; }
        by_ty!(*ty, rel_clip, ty, out);
    }
}
fn rel_clip<N: Elem>(ty: &str, out: &mut dyn FnMut(String)) {
    let cs = rel_consts::<N>(Dom::General);
    let mut rng = Rng::new(hash_str(&format!("relclip|{ty}")));
    for (sa, sl, sh) in [(vec![2usize, 3], vec![3usize], vec![1usize]), (vec![4], vec![4], vec![4]), (vec![2, 3], vec![2, 1], vec![2, 3])] {
        let cnt = |s: &Vec<usize>| s.iter().product::<usize>();
        let va = draw_y::<N>(&mut rng, Dom::General, cnt(&sa));
        for (ci, &c) in cs.iter().enumerate() {
            let d = cs[(ci + 1) % cs.len()];
            out(format!("clip R3 {ty} {} {} {}", show_vals(&sa, &va), show_vals(&sl, &vec![c; cnt(&sl)]), show_vals(&sh, &vec![c; cnt(&sh)])));
            out(format!("clip R3 {ty} {} {} {}", show_vals(&sa, &va), show_vals(&sl, &vec![c; cnt(&sl)]), show_vals(&sh, &vec![d; cnt(&sh)])));
            out(format!("clip R3 {ty} {} {} {}", show_vals(&sa, &vec![c; cnt(&sa)]), show_vals(&sl, &vec![d; cnt(&sl)]), show_vals(&sh, &vec![c; cnt(&sh)])));
        }
        let z = |n: usize, salt: u64| -> Vec<N> { (0..n).map(|k| N::t(if mix64(k as u64, salt) & 1 == 0 { 0.0 } else { -0.0 })).collect() };
        out(format!("clip R3 {ty} {} {} {}", show_vals(&sa, &z(cnt(&sa), 1)), show_vals(&sl, &z(cnt(&sl), 2)), show_vals(&sh, &z(cnt(&sh), 3))));
    }
}

/// non-trivial: a case of the positional streams whose operands are broadcast-compatible with some operand really
/// stretched along an axis of result length > 1, or a refusal case (zero in the divisor of a division-family op)
fn nontrivial(op: &str, args: &[&str]) -> bool {
    if op == "seq" { return args.split(|&a| a == "/").any(|p| !p.is_empty() && nontrivial(p[0], &p[1..])); }
    let shape_of = |s: &str| -> Vec<usize> { s.split_once(':').map_or(vec![], |(sh, _)| parse_usize_list(sh)) };
    if op == "oracle_report" { return false; }
    if op == "g" {
        // giant: shapes are written plainly; a refusal by a zero written into the divisor counts like in the small streams
        if args.len() < 7 { return false; }
        if args[0] != "clip" && DIVISION_FAMILY.contains(&args[0]) && (args[6].starts_with('z') || args[6].starts_with('m')) { return true; }
        let (sa, sb) = (parse_usize_list(args[3]), parse_usize_list(args[4]));
        return bshape(&sa, &sb).map_or(false, |r| { let n = r.len(); (0..n).any(|k| { let d = |s: &Vec<usize>| if k < s.len() { s[s.len() - 1 - k] } else { 1 }; r[n - 1 - k] > 1 && (d(&sa) == 1 || d(&sb) == 1) }) });
    }
    let (sa, sb, bvals) = match op {
        "comm" => return args.len() == 5 && shape_of(args[3]).iter().product::<usize>() > 1,
        "clip" => { if args.len() != 5 { return false; } (shape_of(args[2]), shape_of(args[3]), "") }
        _ => { if args.len() != 4 { return false; } (shape_of(args[2]), shape_of(args[3]), args[3].split_once(':').map_or("", |x| x.1)) }
    };
    if DIVISION_FAMILY.contains(&op) && bvals.split(',').any(|t| t == "0" || t == "x0000000000000000" || t == "x8000000000000000") { return true; }
    match bshape(&sa, &sb) {
        None => false,
        Some(r) => {
            let n = r.len();
            (0..n).any(|k| {
                let d = |s: &Vec<usize>| if k < s.len() { s[s.len() - 1 - k] } else { 1 };
                r[n - 1 - k] > 1 && (d(&sa) == 1 || d(&sb) == 1)
            })
        }
    }
}

fn main() {
    harness_main(Spec { prop: "C04", gen, exec, nontrivial, hang_secs: 90,
        rule: "31 public two-operand ops (table at the top of harness/src/bin/c04.rs: patterns B, G, GM, IB, R, RA) + clip (R3). Exhaustive: every op x every ordered pair of shapes rank<=3 len<=3 (39^2 = 1521, compatible or not) x element types i32,i64,u8,f64 in both tiers (atan2/hypot are not defined for u8; copysign/nextafter/ldexp f64 only); values drawn without repetition from per-type pools (small ints, ints near +-2^31 and 2^53, +-0.0, subnormals, +-inf, NaN, large finite), divisors never zero, shift counts 0..7, gcd/lcm operands |x|<=60. Streams: corpus; clip with random bound shapes; commutativity op(a,b)==op(b,a) on the code for the 14 commutative ops (all equal shapes + sampled compatible pairs); refusal (a zero, for f64 +0.0 or -0.0, written into the divisor array of the 6 division-family ops); seeded random rank<=4 len<=4 mostly compatible; zero-length operands. Oracle per output position p with model sources (i,j): out[p] == kernel(a[i],b[j]) bit-exactly (NaN canonicalised), kernel = formula written natively in the harness (own casts, std f64 methods; every op) AND the same op on the one-element arrays [a[i]],[b[j]]. ROBUSTNESS STREAMS: every case is executed on three receivers - a.op(&b), Ok(a).op(&b) through impl for Result<Array<N>,ArrayError> (bit-identical answer required) and Err(_).op(&b) (must stay an error); element types i8,i16,u16,u32,u64,f32 added (every op x the 1521 shape pairs: all in thorough, one new type per pair in rotation + all on the rank<=2 pairs in quick) with values at the limits of each type (saturation of the f64 round trip), extended pools for i32/i64/f64 (beyond 2^53, at i64::MIN/MAX, around 2^63/2^64/f32::MAX, divisors below f64::EPSILON / f32 subnormal); sizes: every op x big_shapes() (axis lengths 7..17, > 256 / 1024 / 4096 elements) with the argument, the receiver or both operands stretched; zero-length: every op x zero_shapes() in either position; refusal with the zero (+0.0/-0.0) at the last/middle/first position of divisors up to 4900 elements for every element type; clip on all 10 types, big and zero-length receivers; commutativity on the new types and on big shapes; seeded random on all types with one long axis. PART 2: aliasing - every op x every element type with one array text on both sides (NaN, +-inf, +-0.0, f64::MAX, integer limits inside; shapes rank<=2 len<=3, [7], [3,3,3], [17,16], rank 5, [16385]): additionally a.op(&a) with the SAME OBJECT, bit-identical answer required (ALIAS-DIVERGENCE); hidden state - `seq` lines (several calls on one thread, each compared with the model): operand shapes colliding under h*m+dim for m = 31, 33, 37, 131, 257 ([2,1] x [1,1+m] and rank-3 forms) as the operands of one call in both orders, as clip bounds, and as the arguments of consecutive calls on one receiver; transposed / equal-count shapes; same shapes with the first operand rotated or one value replaced by its neighbour; refused (incompatible shapes, zero in the divisor) then accepted calls; seeded random interleavings of ops / types / shapes; an A-B-A re-run of the previous case after EVERY case of up to 3000 characters (STATE-DIVERGENCE); huge - every op on equally shaped operands of 16 385 / 16 899 / 20 000 elements ([100,200], [16385], [129,131], [20000]) and on stretched operands up to 140 000 elements ([130,130] x [130,1], [40,30,30] x [40,1,30], [2,70000] x [2,1], [70000,2] x [2], [130,1] x [1,130]), types in rotation, comm and clip on huge shapes, one op per family per run on [70000] x [2,1] / [2,70000] x [70000] (an unstretched axis above 65 536); every axis length 1..300 in a non-leading position; ranks 5..8; edge values (f64::MAX and neighbours, f32::MAX, largest subnormal, 1 -+ EPSILON). PART 3: a harness-native coordinate formula (result shape + flat source index of every operand at every result position, plain Rust) is compared with the FULL model answer on every positional case of the run (count in the oracle_report sample; the run fails below 100000); giant operands (`g` lines, named by shape + fill rule and built by the harness; the model answers the result shape / the refusal, the values are compared in place with that formula and the native scalar kernel at EVERY position and with the one-element-array kernel at sampled positions): every op on equally shaped operands and on one stretched pair (argument one element / without the leading axis / with a unit first, middle or last axis / a lane; for the both-stretch family also the receiver stretched and complementary unit axes) of 1 048 580 .. 1 065 023 result elements (ranks 1..4, extents not multiples of 64, an axis above 2^17 in every position; thorough: 3 targets x (equal + 2 stretched) per op, up to 2.2 million elements), element types of 1 / 2 / 4 / 8 bytes and fills (varied, constant, zeros of both signs) in rotation, division refusals with the zero at the last / middle / first position of a giant divisor, clashing giant shapes, clip at giant size, one op on 2^24+3 one-byte elements (thorough: three); chained receiver on every third giant case; value relations: every op x one float + one integer type (thorough: every type) x 12 shape pairs with a constant argument / receiver / both (0, 1, 2, -1, -0.0, 0.5, NaN, inf, the limits of the type; a constant zero divisor is a refusal), constant but for the last element, +0.0/-0.0 mixtures on either side, on both sides with opposite signs at every position (== but no bit pattern in common), separately written equal operands whose zeros differ in sign; clip with constant bounds / receiver. Largest explored size: 2.2 million result elements (thorough; quick 1.07 million), one-byte elements 2^24+3. distinct = distinct case lines; non-trivial = compatible shapes with some operand stretched along an axis of result length > 1, or a refusal case, or a comm case with more than one element" });
}
