//! C01 — shape and element count never disagree on any result of any operation chain.
//!
//! One case line = one CHAIN: `C01.<label> <step> <step> …`, a step is `name|arg|arg…`; array arguments are positions of
//! earlier results (`@3`, `@1,2,3`, `@L5`).  `gen` builds random typed chains by actually running them on the real crate
//! (so that most steps are applicable); `exec` re-runs the chain on the real crate, applies the C01 run-time monitor to
//! EVERY array returned by EVERY step (members of lists / pairs included) and compares, for the modelled steps, outcome
//! class and SHAPE with the store machine of `lean/ArrModel/C01.lean` (driver answer).  Steps named `u.<op>` are public
//! operations outside the modelled set: monitor only; their recorded result shape keeps the model store aligned.
use arrharness::*;
use std::any::Any;
use std::cell::RefCell;
use std::panic::{catch_unwind, AssertUnwindSafe};

type T2 = Tuple2<i32, i32>;

#[derive(Clone)]
enum V {
    I32(Array<i32>), I64(Array<i64>), U8(Array<u8>), Us(Array<usize>), F64(Array<f64>), B(Array<bool>), S(Array<String>), T2(Array<T2>), Is(Array<isize>),
    /// list / pair of arrays
    L(Vec<V>),
    /// an array of an element type the store does not chain on (Tuple3, List, char, Tuple2 of other types): monitored, shape kept
    Opq(Vec<usize>),
    Nil,
}

thread_local! { static BAD: RefCell<Vec<String>> = RefCell::new(vec![]); }

/// the C01 monitor on one real array; returns its shape
fn chk<T: ArrayElement>(a: &Array<T>) -> Vec<usize> {
    let ok = catch_unwind(AssertUnwindSafe(|| consistent(a))).unwrap_or(false);
    let shape = a.get_shape().unwrap_or_default();
    if !ok {
        let n = a.get_elements().map(|e| e.len()).unwrap_or(usize::MAX);
        BAD.with(|b| b.borrow_mut().push(format!("inconsistent array: shape {:?} (product {}) but {} elements; len()={:?} ndim()={:?} is_empty()={:?}",
            shape, shape.iter().product::<usize>(), n, a.len().ok(), a.ndim().ok(), a.is_empty().ok())));
    }
    shape
}

trait ToV { fn to_v(self) -> V; }
impl<X: ArrayElement + 'static> ToV for Array<X> {
    fn to_v(self) -> V {
        let shape = chk(&self);
        let any: Box<dyn Any> = Box::new(self);
        macro_rules! tr { ($any:ident, $t:ty, $c:path) => { let $any = match $any.downcast::<Array<$t>>() { Ok(a) => return $c(*a), Err(x) => x }; } }
        tr!(any, i32, V::I32); tr!(any, i64, V::I64); tr!(any, u8, V::U8); tr!(any, usize, V::Us); tr!(any, f64, V::F64);
        tr!(any, bool, V::B); tr!(any, String, V::S); tr!(any, T2, V::T2); tr!(any, isize, V::Is);
        let _ = any;
        V::Opq(shape)
    }
}
impl<A: ToV> ToV for Vec<A> { fn to_v(self) -> V { V::L(self.into_iter().map(ToV::to_v).collect()) } }
impl<A: ToV, B: ToV> ToV for (A, B) { fn to_v(self) -> V { V::L(vec![self.0.to_v(), self.1.to_v()]) } }
/// non-array results (unit, scalars): nothing to monitor
struct NoArr;
impl ToV for NoArr { fn to_v(self) -> V { V::Nil } }

struct Out { cls: &'static str, v: V }
fn fin<X: ToV>(r: Result<X, ArrayError>) -> Out {
    match r { Ok(x) => Out { cls: "ok", v: x.to_v() }, Err(_) => Out { cls: "err", v: V::Nil } }
}
fn skip() -> Out { Out { cls: "skip", v: V::Nil } }

fn shape_of(v: &V) -> Option<Vec<usize>> {
    match v {
        V::I32(a) => a.get_shape().ok(), V::I64(a) => a.get_shape().ok(), V::U8(a) => a.get_shape().ok(), V::Us(a) => a.get_shape().ok(),
        V::F64(a) => a.get_shape().ok(), V::B(a) => a.get_shape().ok(), V::S(a) => a.get_shape().ok(), V::T2(a) => a.get_shape().ok(),
        V::Is(a) => a.get_shape().ok(), V::Opq(s) => Some(s.clone()), _ => None,
    }
}
fn ty_of(v: &V) -> &'static str {
    match v { V::I32(_) => "i32", V::I64(_) => "i64", V::U8(_) => "u8", V::Us(_) => "usize", V::F64(_) => "f64", V::B(_) => "bool", V::S(_) => "str",
        V::T2(_) => "t2", V::Is(_) => "isize", V::L(_) => "list", V::Opq(_) => "opq", V::Nil => "nil" }
}
/// record of a step outcome in the format of the model driver
fn record(o: &Out) -> String {
    match o.cls {
        "err" => "E".into(), "panic" => "P".into(), "skip" => "S".into(),
        _ => match &o.v {
            V::L(l) => format!("L{}", l.iter().map(|x| show_list(&shape_of(x).unwrap_or_default())).collect::<Vec<_>>().join("/")),
            V::Nil => "N".into(),
            v => format!("A{}", show_list(&shape_of(v).unwrap_or_default())),
        },
    }
}

// ---------------------------------------------------------------- element construction

trait Elem: ArrayElement + 'static { fn tag(i: i64) -> Self; }
impl Elem for i32 { fn tag(i: i64) -> Self { i as i32 } }
impl Elem for i64 { fn tag(i: i64) -> Self { i } }
impl Elem for u8 { fn tag(i: i64) -> Self { i.rem_euclid(256) as u8 } }
impl Elem for usize { fn tag(i: i64) -> Self { i.unsigned_abs() as usize } }
impl Elem for isize { fn tag(i: i64) -> Self { i as isize } }
impl Elem for f64 { fn tag(i: i64) -> Self { i as f64 } }
impl Elem for bool { fn tag(i: i64) -> Self { i.rem_euclid(3) != 0 } }
impl Elem for String {
    fn tag(i: i64) -> Self {
        const W: [&str; 10] = ["ab", "", "Hello World", "a-b-c", "12", " x ", "line1\nline2", "ABC", "a1B2", "zz top"];
        format!("{}{}", W[i.rem_euclid(10) as usize], if i % 4 == 0 { String::new() } else { i.to_string() })
    }
}
impl Elem for T2 { fn tag(i: i64) -> Self { Tuple2(i as i32, -(i as i32)) } }
fn tags<T: Elem>(n: usize, off: i64) -> Vec<T> { (0..n as i64).map(|i| T::tag(i + off)).collect() }

// ---------------------------------------------------------------- argument parsing

fn rf(s: &str) -> Option<usize> { s.strip_prefix('@')?.parse().ok() }
fn get<'a>(st: &'a [V], s: &str) -> Option<&'a V> { st.get(rf(s)?) }
fn getl(st: &[V], s: &str) -> Option<Vec<V>> {
    if let Some(i) = s.strip_prefix("@L") { match st.get(i.parse::<usize>().ok()?)? { V::L(l) => Some(l.clone()), _ => None } }
    else if s == "@" { Some(vec![]) }
    else { s.strip_prefix('@')?.split(',').map(|x| st.get(x.parse::<usize>().ok()?).cloned()).collect() }
}
fn us(s: &str) -> usize { s.parse().unwrap() }
fn is(s: &str) -> isize { s.parse().unwrap() }
fn ousz(s: &str) -> Option<usize> { parse_opt(s) }
fn oisz(s: &str) -> Option<isize> { parse_opt(s) }
fn obool(s: &str) -> Option<bool> { parse_opt(s) }
fn ul(s: &str) -> Vec<usize> { parse_usize_list(s) }
fn il(s: &str) -> Vec<isize> { parse_isize_list(s) }
fn oil(s: &str) -> Option<Vec<isize>> { if s == "none" { None } else { Some(il(s)) } }

macro_rules! on_types {
    ($v:expr, [$($c:ident),*], |$a:ident| $body:expr) => { match $v { $(V::$c($a) => fin($body),)* _ => skip() } };
}
macro_rules! on_all { ($v:expr, |$a:ident| $body:expr) => { on_types!($v, [I32, I64, U8, Us, F64, B, S, T2, Is], |$a| $body) }; }
macro_rules! on_num { ($v:expr, |$a:ident| $body:expr) => { on_types!($v, [I32, I64, U8, Us, F64, Is], |$a| $body) }; }
macro_rules! on_numb { ($v:expr, |$a:ident| $body:expr) => { on_types!($v, [I32, I64, U8, Us, F64, Is, B], |$a| $body) }; }
macro_rules! on_ops { ($v:expr, |$a:ident| $body:expr) => { on_types!($v, [I32, I64, F64], |$a| $body) }; }
macro_rules! on_int { ($v:expr, |$a:ident| $body:expr) => { on_types!($v, [I32, I64, U8, Us, Is, B], |$a| $body) }; }
macro_rules! on_types2 {
    ($v:expr, $w:expr, [$($c:ident),*], |$a:ident, $b:ident| $body:expr) => { match ($v, $w) { $((V::$c($a), V::$c($b)) => fin($body),)* _ => skip() } };
}
macro_rules! on_all2 { ($v:expr, $w:expr, |$a:ident, $b:ident| $body:expr) => { on_types2!($v, $w, [I32, I64, U8, Us, F64, B, S, T2, Is], |$a, $b| $body) }; }
macro_rules! on_num2 { ($v:expr, $w:expr, |$a:ident, $b:ident| $body:expr) => { on_types2!($v, $w, [I32, I64, U8, Us, F64, Is], |$a, $b| $body) }; }
macro_rules! on_ops2 { ($v:expr, $w:expr, |$a:ident, $b:ident| $body:expr) => { on_types2!($v, $w, [I32, I64, F64], |$a, $b| $body) }; }
macro_rules! on_int2 { ($v:expr, $w:expr, |$a:ident, $b:ident| $body:expr) => { on_types2!($v, $w, [I32, I64, U8, Us, Is, B], |$a, $b| $body) }; }

trait FromV: Sized + ArrayElement { fn from_v(v: &V) -> Option<&Array<Self>>; }
macro_rules! fromv { ($t:ty, $c:ident) => { impl FromV for $t { fn from_v(v: &V) -> Option<&Array<Self>> { if let V::$c(a) = v { Some(a) } else { None } } } }; }
fromv!(i32, I32); fromv!(i64, I64); fromv!(u8, U8); fromv!(usize, Us); fromv!(f64, F64); fromv!(bool, B); fromv!(String, S); fromv!(T2, T2); fromv!(isize, Is);
fn arrs_of<T: FromV>(l: &[V]) -> Option<Vec<Array<T>>> { l.iter().map(|v| T::from_v(v).cloned()).collect() }
/// list-taking operations: every member must have the element type of the first one (an empty list is taken as i32)
macro_rules! on_list {
    ($l:expr, |$arrs:ident, $t:ident| $body:expr) => {{
        let l: &Vec<V> = $l;
        macro_rules! go { ($ty:ty) => {{ type $t = $ty; match arrs_of::<$ty>(l) { Some($arrs) => fin($body), None => skip() } }}; }
        match l.first() {
            None | Some(V::I32(_)) => go!(i32), Some(V::I64(_)) => go!(i64), Some(V::U8(_)) => go!(u8), Some(V::Us(_)) => go!(usize), Some(V::F64(_)) => go!(f64),
            Some(V::B(_)) => go!(bool), Some(V::S(_)) => go!(String), Some(V::T2(_)) => go!(T2), Some(V::Is(_)) => go!(isize), _ => skip(),
        }
    }};
}
/// constructors: element type named in the `#ty` field
macro_rules! on_ty {
    ($ty:expr, [$($n:literal => $t:ty),*], |$tt:ident| $body:expr) => { match $ty { $($n => { type $tt = $t; fin($body) })* _ => skip() } };
}
macro_rules! ctor_all { ($ty:expr, |$tt:ident| $body:expr) => { on_ty!($ty, ["i32" => i32, "i64" => i64, "u8" => u8, "usize" => usize, "f64" => f64, "bool" => bool, "str" => String, "t2" => T2, "isize" => isize], |$tt| $body) }; }
macro_rules! ctor_num { ($ty:expr, |$tt:ident| $body:expr) => { on_ty!($ty, ["i32" => i32, "i64" => i64, "u8" => u8, "usize" => usize, "f64" => f64, "isize" => isize], |$tt| $body) }; }

fn ty_field<'a>(args: &[&'a str]) -> &'a str { args.iter().find_map(|a| a.strip_prefix('#')).unwrap_or("i64") }
fn sort_kind(s: &str) -> Option<Option<String>> {
    if s == "none" { Some(None) } else { s.strip_prefix("s:").map(|x| Some(x.to_string())) }
}

// ---------------------------------------------------------------- the modelled operations on the real crate

const FOLD_OPS: [&str; 4] = ["sum", "prod", "nansum", "nanprod"];
const EXTREME_OPS: [&str; 6] = ["max", "min", "amax", "amin", "nanmax", "nanmin"];
const SCAN_OPS: [&str; 4] = ["cumsum", "cumprod", "nancumsum", "nancumprod"];
/// one-operand math on every `Numeric` element type
const UNARY_NUM: [&str; 31] = ["reciprocal", "positive", "negative", "exp", "exp2", "exp_m1", "log", "log2", "log10", "log_1p", "sinh", "cosh", "tanh",
    "asinh", "acosh", "atanh", "sqrt", "cbrt", "square", "absolute", "abs", "fabs", "sign", "nan_to_num", "rint", "fix", "trunc", "floor", "ceil", "bitwise_not", "invert"];
/// one-operand math on the `NumericOps` element types
const UNARY_OPS: [&str; 12] = ["i0", "sinc", "sin", "cos", "tan", "asin", "acos", "atan", "degrees", "rad2deg", "radians", "deg2rad"];
const UNARY_FLT: [&str; 2] = ["signbit", "spacing"];
const BIN_NUM: [&str; 27] = ["add", "subtract", "multiply", "power", "float_power", "logn", "log_add_exp", "log_add_exp2", "divide", "true_divide", "fmod",
    "remainder", "mod", "floor_divide", "bitwise_and", "bitwise_or", "bitwise_xor", "left_shift", "right_shift", "maximum", "minimum", "fmax", "fmin",
    "heaviside", "gcd", "lcm", "_"];
const BIN_OPS: [&str; 2] = ["atan2", "hypot"];
const BIN_FLT: [&str; 2] = ["copysign", "nextafter"];
/// two-operand operations whose outcome depends on the VALUES of the second operand (zero-divisor guard)
const BIN_GUARD: [&str; 6] = ["divide", "true_divide", "fmod", "remainder", "mod", "floor_divide"];

fn unary_num<N: Numeric + 'static>(name: &str, a: &Array<N>) -> Option<Out> {
    Some(match name {
        "reciprocal" => fin(a.reciprocal()), "positive" => fin(a.positive()), "negative" => fin(a.negative()),
        "exp" => fin(a.exp()), "exp2" => fin(a.exp2()), "exp_m1" => fin(a.exp_m1()), "log" => fin(a.log()), "log2" => fin(a.log2()),
        "log10" => fin(a.log10()), "log_1p" => fin(a.log_1p()),
        "sinh" => fin(a.sinh()), "cosh" => fin(a.cosh()), "tanh" => fin(a.tanh()), "asinh" => fin(a.asinh()), "acosh" => fin(a.acosh()), "atanh" => fin(a.atanh()),
        "sqrt" => fin(a.sqrt()), "cbrt" => fin(a.cbrt()), "square" => fin(a.square()), "absolute" => fin(a.absolute()), "abs" => fin(ArrayMathMisc::abs(a)),
        "fabs" => fin(a.fabs()), "sign" => fin(a.sign()), "nan_to_num" => fin(a.nan_to_num()),
        "rint" => fin(a.rint()), "fix" => fin(a.fix()), "trunc" => fin(a.trunc()), "floor" => fin(a.floor()), "ceil" => fin(a.ceil()),
        "bitwise_not" => fin(ArrayBinary::bitwise_not(a)), "invert" => fin(a.invert()),
        _ => return None,
    })
}
fn unary_ops<N: NumericOps + 'static>(name: &str, a: &Array<N>) -> Option<Out> {
    Some(match name {
        "i0" => fin(a.i0()), "sinc" => fin(a.sinc()), "sin" => fin(a.sin()), "cos" => fin(a.cos()), "tan" => fin(a.tan()),
        "asin" => fin(a.asin()), "acos" => fin(a.acos()), "atan" => fin(a.atan()), "degrees" => fin(a.degrees()), "rad2deg" => fin(a.rad2deg()),
        "radians" => fin(a.radians()), "deg2rad" => fin(a.deg2rad()),
        _ => return None,
    })
}
fn bin_num<N: Numeric + 'static>(name: &str, a: &Array<N>, b: &Array<N>) -> Option<Out> {
    Some(match name {
        "add" => fin(ArrayArithmetic::add(a, b)), "subtract" => fin(a.subtract(b)), "multiply" => fin(ArrayArithmetic::multiply(a, b)),
        "power" => fin(a.power(b)), "float_power" => fin(a.float_power(b)), "logn" => fin(a.logn(b)), "log_add_exp" => fin(a.log_add_exp(b)),
        "log_add_exp2" => fin(a.log_add_exp2(b)), "divide" => fin(a.divide(b)), "true_divide" => fin(a.true_divide(b)), "fmod" => fin(a.fmod(b)),
        "remainder" => fin(a.remainder(b)), "mod" => fin(a.r#mod(b)), "floor_divide" => fin(a.floor_divide(b)),
        "bitwise_and" => fin(ArrayBinary::bitwise_and(a, b)), "bitwise_or" => fin(ArrayBinary::bitwise_or(a, b)), "bitwise_xor" => fin(ArrayBinary::bitwise_xor(a, b)),
        "left_shift" => fin(ArrayBinary::left_shift(a, b)), "right_shift" => fin(ArrayBinary::right_shift(a, b)),
        "maximum" => fin(a.maximum(b)), "minimum" => fin(a.minimum(b)), "fmax" => fin(a.fmax(b)), "fmin" => fin(a.fmin(b)), "heaviside" => fin(a.heaviside(b)),
        "gcd" => fin(a.gcd(b)), "lcm" => fin(a.lcm(b)),
        _ => return None,
    })
}
fn reduce_ops<N: NumericOps + 'static>(name: &str, a: &Array<N>, ax: Option<isize>) -> Option<Out> {
    Some(match name {
        "sum" => fin(a.sum(ax)), "prod" => fin(a.prod(ax)), "nansum" => fin(a.nansum(ax)), "nanprod" => fin(a.nanprod(ax)),
        "cumsum" => fin(a.cumsum(ax)), "cumprod" => fin(a.cumprod(ax)), "nancumsum" => fin(a.nancumsum(ax)), "nancumprod" => fin(a.nancumprod(ax)),
        _ => return None,
    })
}
fn extreme_num<N: Numeric + 'static>(name: &str, a: &Array<N>, ax: Option<isize>) -> Option<Out> {
    Some(match name {
        "max" => fin(ArrayExtrema::max(a, ax)), "min" => fin(ArrayExtrema::min(a, ax)), "amax" => fin(a.amax(ax)), "amin" => fin(a.amin(ax)),
        "nanmax" => fin(a.nanmax(ax)), "nanmin" => fin(a.nanmin(ax)),
        _ => return None,
    })
}
fn operator_ops<N: NumericOps + 'static>(name: &str, a: &Array<N>, b: &Array<N>) -> Option<Out> {
    let (x, y) = (a.clone(), b.clone());
    macro_rules! fam { ($op:tt, $opa:tt, $base:literal) => {
        if name == concat!("op_", $base) { return Some(fin(Ok::<_, ArrayError>(x $op y))); }
        if name == concat!("op_", $base, "_s") { return Some(fin(x $op N::one())); }
        if name == concat!("op_", $base, "_assign") { let mut z = x; z $opa y; return Some(fin(Ok::<_, ArrayError>(z))); }
        if name == concat!("op_", $base, "_assign_s") { let mut z = x; z $opa N::one(); return Some(fin(Ok::<_, ArrayError>(z))); }
    }; }
    fam!(+, +=, "add"); fam!(-, -=, "sub"); fam!(*, *=, "mul"); fam!(/, /=, "div"); fam!(%, %=, "rem");
    None
}
fn operator_bits<N: Numeric + 'static + std::ops::BitAnd<Output = N> + std::ops::BitOr<Output = N> + std::ops::BitXor<Output = N>>(name: &str, a: &Array<N>, b: &Array<N>) -> Option<Out> {
    let (x, y) = (a.clone(), b.clone());
    macro_rules! fam { ($op:tt, $opa:tt, $base:literal) => {
        if name == concat!("op_", $base) { return Some(fin(Ok::<_, ArrayError>(x $op y))); }
        if name == concat!("op_", $base, "_s") { return Some(fin(Ok::<_, ArrayError>(x $op N::one()))); }
        if name == concat!("op_", $base, "_assign") { let mut z = x; z $opa y; return Some(fin(Ok::<_, ArrayError>(z))); }
        if name == concat!("op_", $base, "_assign_s") { let mut z = x; z $opa N::one(); return Some(fin(Ok::<_, ArrayError>(z))); }
    }; }
    fam!(&, &=, "bitand"); fam!(|, |=, "bitor"); fam!(^, ^=, "bitxor");
    None
}

fn nz_is_zero<T: ArrayElement>(e: &T) -> bool { *e == T::zero() }
fn lane<T: ArrayElement + 'static>(f: &str) -> Box<dyn FnMut(&Array<T>) -> Result<Array<T>, ArrayError>> {
    if f == "rev" { Box::new(|x: &Array<T>| x.flip(None)) }
    else if let Some(k) = f.strip_prefix("ct") { let k: usize = k.parse().unwrap(); Box::new(move |x: &Array<T>| x.cycle_take(k)) }
    else { Box::new(|x: &Array<T>| Ok(x.clone())) }
}

/// the modelled public operations (names = method names of the crate).  `None` = not a modelled step name.
fn run_modelled(st: &[V], name: &str, a: &[&str], ty: &str) -> Option<Out> {
    macro_rules! g { ($i:expr) => { match get(st, a[$i]) { Some(v) => v, None => return Some(skip()) } }; }
    macro_rules! gl { ($i:expr) => { match getl(st, a[$i]) { Some(v) => v, None => return Some(skip()) } }; }
    Some(match name {
        // ---- constructors
        "new" => ctor_all!(ty, |T| Array::<T>::new(tags::<T>(us(a[0]), a[1].parse().unwrap()), ul(a[2]))),
        "create" => ctor_all!(ty, |T| Array::<T>::create(tags::<T>(us(a[0]), 0), ul(a[1]), ousz(a[2]))),
        "single" => ctor_all!(ty, |T| Array::<T>::single(T::tag(0))),
        "flat" => ctor_all!(ty, |T| Array::<T>::flat(tags::<T>(us(a[0]), 0))),
        "empty" => ctor_all!(ty, |T| Array::<T>::empty()),
        "zeros" => ctor_num!(ty, |T| Array::<T>::zeros(ul(a[0]))),
        "ones" => ctor_num!(ty, |T| Array::<T>::ones(ul(a[0]))),
        "full" => ctor_num!(ty, |T| Array::<T>::full(ul(a[0]), <T as Numeric>::from_usize(7))),
        "rand" => ctor_num!(ty, |T| Array::<T>::rand(ul(a[0]))),
        "zeros_like" => on_num!(g!(0), |x| Array::zeros_like(x)),
        "ones_like" => on_num!(g!(0), |x| Array::ones_like(x)),
        "full_like" => on_num!(g!(0), |x| Array::full_like(x, Numeric::from_usize(7))),
        "eye" => ctor_num!(ty, |T| Array::<T>::eye(us(a[0]), ousz(a[1]), ousz(a[2]))),
        "identity" => ctor_num!(ty, |T| Array::<T>::identity(us(a[0]))),
        "tri" => ctor_num!(ty, |T| Array::<T>::tri(us(a[0]), ousz(a[1]), oisz(a[2]))),
        "arange" => ctor_num!(ty, |T| Array::<T>::arange(<T as Numeric>::from_f64(a[0].parse().unwrap()), <T as Numeric>::from_f64(a[1].parse().unwrap()),
            parse_opt::<f64>(a[2]).map(<T as Numeric>::from_f64))),
        "linspace" => ctor_num!(ty, |T| Array::<T>::linspace(<T as Numeric>::from_f64(a[0].parse().unwrap()), <T as Numeric>::from_f64(a[1].parse().unwrap()), ousz(a[2]), obool(a[3]))),
        "diag" => on_num!(g!(0), |x| x.diag(oisz(a[1]))),
        "diagflat" => on_num!(g!(0), |x| x.diagflat(oisz(a[1]))),
        "tril" => on_num!(g!(0), |x| x.tril(oisz(a[1]))),
        "triu" => on_num!(g!(0), |x| x.triu(oisz(a[1]))),
        "vander" => on_num!(g!(0), |x| x.vander(ousz(a[1]), obool(a[2]))),
        // ---- axis / shape
        "transpose" => on_all!(g!(0), |x| x.transpose(oil(a[1]))),
        "moveaxis" => on_all!(g!(0), |x| x.moveaxis(il(a[1]), il(a[2]))),
        "rollaxis" => on_all!(g!(0), |x| x.rollaxis(is(a[1]), oisz(a[2]))),
        "swapaxes" => on_all!(g!(0), |x| x.swapaxes(is(a[1]), is(a[2]))),
        "expand_dims" => on_all!(g!(0), |x| x.expand_dims(il(a[1]))),
        "squeeze" => on_all!(g!(0), |x| x.squeeze(oil(a[1]))),
        "reshape" => on_all!(g!(0), |x| x.reshape(&ul(a[1]))),
        "resize" => on_all!(g!(0), |x| x.resize(&ul(a[1]))),
        "ravel" => on_all!(g!(0), |x| x.ravel()),
        "atleast" => on_all!(g!(0), |x| x.atleast(us(a[1]))),
        "cycle_take" => on_all!(g!(0), |x| x.cycle_take(us(a[1]))),
        "apply_along_axis" => on_all!(g!(0), |x| x.apply_along_axis(us(a[1]), lane(a[2]))),
        // ---- broadcasting
        "broadcast_to" => on_all!(g!(0), |x| x.broadcast_to(ul(a[1]))),
        "broadcast" => on_all2!(g!(0), g!(1), |x, y| x.broadcast(y)),
        "broadcast_arrays" => on_list!(&gl!(0), |arrs, T| Array::<T>::broadcast_arrays(arrs)),
        "zip" => on_all2!(g!(0), g!(1), |x, y| x.zip(y)),
        // ---- split / join
        "array_split" => on_all!(g!(0), |x| x.array_split(us(a[1]), ousz(a[2]))),
        "split" => on_all!(g!(0), |x| ArraySplit::split(x, us(a[1]), ousz(a[2]))),
        "split_axis" => on_all!(g!(0), |x| x.split_axis(us(a[1]))),
        "hsplit" => on_all!(g!(0), |x| x.hsplit(us(a[1]))),
        "vsplit" => on_all!(g!(0), |x| x.vsplit(us(a[1]))),
        "dsplit" => on_all!(g!(0), |x| x.dsplit(us(a[1]))),
        "member" => match g!(0) { V::L(l) => match l.get(us(a[1])) { Some(v @ (V::Opq(_) | V::Nil | V::L(_))) => { let _ = v; skip() } Some(v) => Out { cls: "ok", v: v.clone() }, None => skip() }, _ => skip() },
        "concatenate" => on_list!(&gl!(0), |arrs, T| Array::<T>::concatenate(arrs, ousz(a[1]))),
        "stack" => on_list!(&gl!(0), |arrs, T| Array::<T>::stack(arrs, ousz(a[1]))),
        "vstack" => on_list!(&gl!(0), |arrs, T| Array::<T>::vstack(arrs)),
        "hstack" => on_list!(&gl!(0), |arrs, T| Array::<T>::hstack(arrs)),
        "dstack" => on_list!(&gl!(0), |arrs, T| Array::<T>::dstack(arrs)),
        "column_stack" => on_list!(&gl!(0), |arrs, T| Array::<T>::column_stack(arrs)),
        "row_stack" => on_list!(&gl!(0), |arrs, T| Array::<T>::row_stack(arrs)),
        // ---- reorder
        "flip" => on_all!(g!(0), |x| x.flip(oil(a[1]))),
        "flipud" => on_all!(g!(0), |x| x.flipud()),
        "fliplr" => on_all!(g!(0), |x| x.fliplr()),
        "roll" => on_all!(g!(0), |x| x.roll(il(a[1]), oil(a[2]))),
        "rot90" => on_all!(g!(0), |x| x.rot90(us(a[1]), il(a[2]))),
        // ---- delete / insert / append / repeat / trim
        "delete" => on_all!(g!(0), |x| x.delete(&ul(a[1]), ousz(a[2]))),
        "insert" => on_all2!(g!(0), g!(2), |x, y| x.insert(&ul(a[1]), y, None)),
        "append" => on_all2!(g!(0), g!(1), |x, y| x.append(y, ousz(a[2]))),
        "repeat" => on_all!(g!(0), |x| x.repeat(&ul(a[1]), ousz(a[2]))),
        "trim_zeros" => on_all!(g!(0), |x| x.trim_zeros()),
        // ---- closures
        "map" => on_all!(g!(0), |x| x.map(|e| e.clone())),
        "map_e" => on_all!(g!(0), |x| x.map_e(|_, e| e.clone())),
        "filter_e" => { let (m, t) = (us(a[1]), us(a[2])); on_all!(g!(0), |x| x.filter_e(|i, _| i % m.max(1) < t)) }
        "filter_map_e" => { let (m, t) = (us(a[1]), us(a[2])); on_all!(g!(0), |x| x.filter_map_e(|i, e| if i % m.max(1) < t { Some(e.clone()) } else { None })) }
        "filter" => on_all!(g!(0), |x| x.filter(|e| !nz_is_zero(e))),
        // ---- queries, sorting
        "count_nonzero" => on_all!(g!(0), |x| x.count_nonzero(oisz(a[1]), obool(a[2]))),
        "argmax" => on_all!(g!(0), |x| x.argmax(oisz(a[1]), obool(a[2]))),
        "argmin" => on_all!(g!(0), |x| x.argmin(oisz(a[1]), obool(a[2]))),
        "sort" => { let k = sort_kind(a[2])?; on_all!(g!(0), |x| x.sort(oisz(a[1]), k.clone())) }
        "argsort" => { let k = sort_kind(a[2])?; on_all!(g!(0), |x| x.argsort(oisz(a[1]), k.clone())) }
        "unique" => on_all!(g!(0), |x| x.unique(oisz(a[1]))),
        "clip" => on_num!(g!(0), |x| match (FromV::from_v(g!(1)), FromV::from_v(g!(2))) { (Some(lo), Some(hi)) => x.clip(Some(Array::clone(lo)), Some(Array::clone(hi))), _ => Err(ArrayError::NotImplemented) }),
        // ---- products
        "vdot" => on_ops2!(g!(0), g!(1), |x, y| x.vdot(y)),
        "outer" => on_ops2!(g!(0), g!(1), |x, y| x.outer(y)),
        "inner" => on_ops2!(g!(0), g!(1), |x, y| x.inner(y)),
        "matmul" => on_ops2!(g!(0), g!(1), |x, y| x.matmul(y)),
        "dot" => on_ops2!(g!(0), g!(1), |x, y| x.dot(y)),
        // ---- bits
        "unpack_bits" => on_types!(g!(0), [U8], |x| x.unpack_bits(oisz(a[1]), oisz(a[2]), Some(a[3]))),
        "pack_bits" => on_types!(g!(0), [U8], |x| x.pack_bits(oisz(a[1]), Some(a[2]))),
        "op_neg" => on_ops!(g!(0), |x| Ok::<_, ArrayError>(-x.clone())),
        "op_not" => on_types!(g!(0), [B], |x| Ok::<_, ArrayError>(!x.clone())),
        _ => {
            if FOLD_OPS.contains(&name) || SCAN_OPS.contains(&name) { let ax = oisz(a[1]); return Some(match g!(0) { V::I32(x) => reduce_ops(name, x, ax)?, V::I64(x) => reduce_ops(name, x, ax)?, V::F64(x) => reduce_ops(name, x, ax)?, _ => skip() }); }
            if EXTREME_OPS.contains(&name) { let ax = oisz(a[1]); return Some(match g!(0) { V::I32(x) => extreme_num(name, x, ax)?, V::I64(x) => extreme_num(name, x, ax)?, V::U8(x) => extreme_num(name, x, ax)?, V::Us(x) => extreme_num(name, x, ax)?, V::F64(x) => extreme_num(name, x, ax)?, V::Is(x) => extreme_num(name, x, ax)?, _ => skip() }); }
            if UNARY_NUM.contains(&name) { return Some(match g!(0) { V::I32(x) => unary_num(name, x)?, V::I64(x) => unary_num(name, x)?, V::U8(x) => unary_num(name, x)?, V::Us(x) => unary_num(name, x)?, V::F64(x) => unary_num(name, x)?, V::Is(x) => unary_num(name, x)?, _ => skip() }); }
            if UNARY_OPS.contains(&name) { return Some(match g!(0) { V::I32(x) => unary_ops(name, x)?, V::I64(x) => unary_ops(name, x)?, V::F64(x) => unary_ops(name, x)?, _ => skip() }); }
            if UNARY_FLT.contains(&name) { return Some(match (name, g!(0)) { ("signbit", V::F64(x)) => fin(x.signbit()), ("spacing", V::F64(x)) => fin(x.spacing()), _ => skip() }); }
            if BIN_NUM.contains(&name) { return Some(match (g!(0), g!(1)) { (V::I32(x), V::I32(y)) => bin_num(name, x, y)?, (V::I64(x), V::I64(y)) => bin_num(name, x, y)?, (V::U8(x), V::U8(y)) => bin_num(name, x, y)?,
                (V::Us(x), V::Us(y)) => bin_num(name, x, y)?, (V::F64(x), V::F64(y)) => bin_num(name, x, y)?, (V::Is(x), V::Is(y)) => bin_num(name, x, y)?, _ => skip() }); }
            if BIN_OPS.contains(&name) { return Some(match name { "atan2" => on_ops2!(g!(0), g!(1), |x, y| x.atan2(y)), _ => on_ops2!(g!(0), g!(1), |x, y| x.hypot(y)) }); }
            if BIN_FLT.contains(&name) { return Some(match (name, g!(0), g!(1)) { ("copysign", V::F64(x), V::F64(y)) => fin(x.copysign(y)), ("nextafter", V::F64(x), V::F64(y)) => fin(x.nextafter(y)), _ => skip() }); }
            if name == "ldexp" { return Some(match (g!(0), g!(1)) { (V::F64(x), V::I32(y)) => fin(x.ldexp(y)), _ => skip() }); }
            if name.starts_with("op_bit") { let j = if a.len() > 1 { 1 } else { 0 }; return Some(match (g!(0), g!(j)) { (V::I32(x), V::I32(y)) => operator_bits(name, x, y)?, (V::I64(x), V::I64(y)) => operator_bits(name, x, y)?,
                (V::U8(x), V::U8(y)) => operator_bits(name, x, y)?, (V::Us(x), V::Us(y)) => operator_bits(name, x, y)?, (V::Is(x), V::Is(y)) => operator_bits(name, x, y)?, (V::B(x), V::B(y)) => operator_bits(name, x, y)?, _ => skip() }); }
            if name.starts_with("op_") { let j = if a.len() > 1 { 1 } else { 0 }; return Some(match (g!(0), g!(j)) { (V::I32(x), V::I32(y)) => operator_ops(name, x, y)?, (V::I64(x), V::I64(y)) => operator_ops(name, x, y)?,
                (V::F64(x), V::F64(y)) => operator_ops(name, x, y)?, _ => skip() }); }
            return None;
        }
    })
}

// ---------------------------------------------------------------- public operations outside the modelled set (monitor only)

const STR_UNARY: [&str; 13] = ["capitalize", "lower", "upper", "swapcase", "str_len", "is_alpha", "is_alnum", "is_decimal", "is_numeric", "is_digit", "is_space", "is_lower", "is_upper"];
const STR_BINARY: [&str; 20] = ["add", "join", "partition", "rpartition", "equal", "not_equal", "greater_equal", "less_equal", "greater", "less", "count",
    "starts_with", "ends_with", "find", "rfind", "index", "rindex", "strip", "lstrip", "rstrip"];

fn str_ops(st: &[V], name: &str, a: &[&str]) -> Option<Out> {
    let x = match get(st, a[0]) { Some(V::S(x)) => x, _ => return None };
    let sarg = |i: usize| -> Option<&Array<String>> { match get(st, a.get(i)?) { Some(V::S(y)) => Some(y), _ => None } };
    let uarg = |i: usize| -> Option<&Array<usize>> { match get(st, a.get(i)?) { Some(V::Us(y)) => Some(y), _ => None } };
    Some(match name {
        "capitalize" => fin(x.capitalize()), "lower" => fin(x.lower()), "upper" => fin(x.upper()), "swapcase" => fin(x.swapcase()), "str_len" => fin(x.str_len()),
        "is_alpha" => fin(x.is_alpha()), "is_alnum" => fin(x.is_alnum()), "is_decimal" => fin(x.is_decimal()), "is_numeric" => fin(x.is_numeric()),
        "is_digit" => fin(x.is_digit()), "is_space" => fin(x.is_space()), "is_lower" => fin(x.is_lower()), "is_upper" => fin(x.is_upper()),
        "zfill" => fin(x.zfill(us(a[1]))),
        "translate" => fin(x.translate(vec![('a', 'A'), ('l', '1'), (' ', '_')])),
        "splitlines" => fin(x.splitlines(match a.get(1) { Some(&"true") => Some(Array::single(true).unwrap()), Some(&"false") => Some(Array::single(false).unwrap()), _ => None })),
        "multiply" => { let n = match uarg(1) { Some(n) => n, None => return Some(skip()) }; fin(ArrayStringManipulate::multiply(x, n)) }
        "center" | "ljust" | "rjust" => {
            let w = match uarg(1) { Some(w) => w, None => return Some(skip()) };
            let fill = match a.get(2) { Some(&"none") | None => None, Some(c) => Some(Array::single(c.chars().next().unwrap_or('*')).unwrap()) };
            match name { "center" => fin(x.center(w, fill)), "ljust" => fin(x.ljust(w, fill)), _ => fin(x.rjust(w, fill)) }
        }
        "split" | "rsplit" => {
            let sep = sarg(1).cloned();
            let ms = match a.get(2) { Some(&"none") | None => None, Some(m) => Some(Array::single(us(m)).unwrap()) };
            if name == "split" { fin(ArrayStringManipulate::split(x, sep, ms)) } else { fin(x.rsplit(sep, ms)) }
        }
        "replace" => { let (o, n) = match (sarg(1), sarg(2)) { (Some(o), Some(n)) => (o, n), _ => return Some(skip()) }; fin(x.replace(o, n, ousz(a[3]))) }
        "compare" => { let y = match sarg(1) { Some(y) => y, None => return Some(skip()) }; fin(x.compare(y, a[2])) }
        _ => {
            if !STR_BINARY.contains(&name) { return None; }
            let y = match sarg(1) { Some(y) => y, None => return Some(skip()) };
            match name {
                "add" => fin(ArrayStringManipulate::add(x, y)), "join" => fin(x.join(y)), "partition" => fin(x.partition(y)), "rpartition" => fin(x.rpartition(y)),
                "equal" => fin(x.equal(y)), "not_equal" => fin(x.not_equal(y)), "greater_equal" => fin(x.greater_equal(y)), "less_equal" => fin(x.less_equal(y)),
                "greater" => fin(x.greater(y)), "less" => fin(x.less(y)), "count" => fin(ArrayStringIndexing::count(x, y)),
                "starts_with" => fin(x.starts_with(y)), "ends_with" => fin(x.ends_with(y)), "find" => fin(x.find(y)), "rfind" => fin(x.rfind(y)),
                "index" => fin(ArrayStringIndexing::index(x, y)), "rindex" => fin(x.rindex(y)),
                "strip" => fin(x.strip(Some(y.clone()))), "lstrip" => fin(x.lstrip(Some(y.clone()))), _ => fin(x.rstrip(Some(y.clone()))),
            }
        }
    })
}

fn linalg_ops<N: NumericOps + 'static>(name: &str, x: &Array<N>, y: Option<&Array<N>>, a: &[&str]) -> Option<Out> {
    Some(match name {
        "det" => fin(x.det()), "qr" => fin(x.qr()), "eigvals" => fin(x.eigvals()), "eig" => fin(x.eig()),
        "solve" => fin(x.solve(y?)),
        "norm" => { let ord: Option<&str> = if a[1] == "none" { None } else { Some(a[1]) }; fin(x.norm(ord, oil(a[2]), obool(a[3]))) }
        "diff" => fin(x.diff(us(a[1]), oisz(a[2]), None, None)),
        "ediff1d" => fin(x.ediff1d(None, None)),
        "unwrap_phase" => fin(x.unwrap_phase(None, oisz(a[1]), None)),
        _ => return None,
    })
}
fn num_ops<N: Numeric + FromV + 'static>(st: &[V], name: &str, x: &Array<N>, a: &[&str]) -> Option<Out> {
    let other = |i: usize| -> Option<&Array<N>> { N::from_v(get(st, a.get(i)?)?) };
    Some(match name {
        "clip0" => fin(x.clip(None, None)),
        "clip1" => fin(x.clip(Some(other(1)?.clone()), None)),
        "clip2" => fin(x.clip(None, Some(other(1)?.clone()))),
        "round" | "around" => { let d = match get(st, a[1]) { Some(V::Is(d)) => d, _ => return Some(skip()) }; if name == "round" { fin(x.round(d)) } else { fin(x.around(d)) } }
        "modf" => fin(x.modf()), "divmod" => fin(x.divmod()),
        "convolve" => fin(x.convolve(other(1)?, if a[2] == "none" { None } else { Some(a[2]) })),
        "linspace_a" => fin(Array::linspace_a(x, other(1)?, ousz(a[2]), obool(a[3]))),
        "geomspace_a" => fin(Array::geomspace_a(x, other(1)?, ousz(a[2]), obool(a[3]))),
        "logspace_a" => fin(Array::logspace_a(x, other(1)?, ousz(a[2]), obool(a[3]), None)),
        _ => return None,
    })
}

fn run_unmodelled(st: &[V], name: &str, a: &[&str], ty: &str) -> Option<Out> {
    if !a.is_empty() { if let Some(o) = str_ops(st, name, a) { return Some(o); } }
    macro_rules! g { ($i:expr) => { match get(st, a[$i]) { Some(v) => v, None => return Some(skip()) } }; }
    Some(match name {
        "slice" => on_all!(g!(0), |x| x.slice(us(a[1])..us(a[2]))),
        "indices_at" => on_all!(g!(0), |x| x.indices_at(&ul(a[1]))),
        "insert_axis" => on_all2!(g!(0), g!(2), |x, y| x.insert(&ul(a[1]), y, ousz(a[3]))),
        "for_each" => on_all!(g!(0), |x| { let mut n = 0usize; x.for_each(|_| n += 1).map(|_| NoArr) }),
        "fold" => on_all!(g!(0), |x| x.fold(0usize, |acc, _| acc + 1).map(|_| NoArr)),
        "filter_map" => on_all!(g!(0), |x| x.filter_map(|e| if nz_is_zero(e) { None } else { Some(e.clone()) })),
        "frexp" => on_types!(g!(0), [F64], |x| x.frexp()),
        "logspace" => ctor_num!(ty, |T| Array::<T>::logspace(<T as Numeric>::from_f64(a[0].parse().unwrap()), <T as Numeric>::from_f64(a[1].parse().unwrap()), ousz(a[2]), obool(a[3]), None)),
        "geomspace" => ctor_num!(ty, |T| Array::<T>::geomspace(<T as Numeric>::from_f64(a[0].parse().unwrap()), <T as Numeric>::from_f64(a[1].parse().unwrap()), ousz(a[2]), obool(a[3]))),
        "det" | "qr" | "eigvals" | "eig" | "solve" | "norm" | "diff" | "ediff1d" | "unwrap_phase" => {
            let r = match (g!(0), a.get(1).and_then(|s| get(st, s))) {
                (V::I32(x), y) => linalg_ops(name, x, y.and_then(FromV::from_v), a), (V::I64(x), y) => linalg_ops(name, x, y.and_then(FromV::from_v), a),
                (V::F64(x), y) => linalg_ops(name, x, y.and_then(FromV::from_v), a), _ => Some(skip()) };
            r.unwrap_or_else(skip)
        }
        "clip0" | "clip1" | "clip2" | "round" | "around" | "modf" | "divmod" | "convolve" | "linspace_a" | "geomspace_a" | "logspace_a" => {
            let r = match g!(0) { V::I32(x) => num_ops(st, name, x, a), V::I64(x) => num_ops(st, name, x, a), V::U8(x) => num_ops(st, name, x, a), V::Us(x) => num_ops(st, name, x, a),
                V::F64(x) => num_ops(st, name, x, a), V::Is(x) => num_ops(st, name, x, a), _ => Some(skip()) };
            r.unwrap_or_else(skip)
        }
        _ => return run_modelled(st, name, a, ty),
    })
}

/// run one step text on the real crate (panic -> class `panic`); the monitor findings of the step are appended to `bad`
fn run_step(st: &[V], step: &str, bad: &mut Vec<String>) -> Out {
    let fields: Vec<&str> = step.split('|').collect();
    let name = fields[0];
    let ty = ty_field(&fields[1..]);
    let a: Vec<&str> = fields[1..].iter().copied().filter(|f| !f.starts_with('#') && !f.starts_with('=')).collect();
    BAD.with(|b| b.borrow_mut().clear());
    let r = catch_unwind(AssertUnwindSafe(|| match name.strip_prefix("u.") { Some(n) => run_unmodelled(st, n, &a, ty), None => run_modelled(st, name, &a, ty) }));
    BAD.with(|b| bad.extend(b.borrow_mut().drain(..)));
    match r { Ok(Some(o)) => o, Ok(None) => Out { cls: "unknown", v: V::Nil }, Err(_) => Out { cls: "panic", v: V::Nil } }
}

// ---------------------------------------------------------------- exec: re-run the chain, monitor, compare with the model

fn step_refs(step: &str) -> Vec<usize> {
    let mut out = vec![];
    for f in step.split('|').skip(1) {
        if let Some(r) = f.strip_prefix("@L") { if let Ok(i) = r.parse() { out.push(i); } }
        else if let Some(r) = f.strip_prefix('@') { for x in r.split(',') { if let Ok(i) = x.parse() { out.push(i); } } }
    }
    out
}
/// the sub-chain step `k` depends on (transitively), renumbered: the failing chain with every irrelevant step dropped
fn shrink(steps: &[&str], k: usize) -> Vec<String> {
    let mut need = vec![false; k + 1];
    need[k] = true;
    for i in (0..=k).rev() { if need[i] { for r in step_refs(steps[i]) { if r < i { need[r] = true; } } } }
    let mut newidx = vec![usize::MAX; k + 1];
    let mut n = 0;
    for i in 0..=k { if need[i] { newidx[i] = n; n += 1; } }
    let ren = |i: usize| -> String { newidx.get(i).copied().filter(|&x| x != usize::MAX).map_or("999".into(), |x| x.to_string()) };
    (0..=k).filter(|&i| need[i]).map(|i| {
        steps[i].split('|').map(|f| {
            if let Some(r) = f.strip_prefix("@L") { r.parse().map_or(f.to_string(), |x: usize| format!("@L{}", ren(x))) }
            else if let Some(r) = f.strip_prefix('@') { if r.is_empty() { f.to_string() } else { format!("@{}", r.split(',').map(|x| x.parse().map_or(x.to_string(), |y: usize| ren(y))).collect::<Vec<_>>().join(",")) } }
            else { f.to_string() }
        }).collect::<Vec<_>>().join("|")
    }).collect()
}
fn run_chain(steps: &[&str]) -> (Vec<String>, Vec<(usize, String)>) {
    let mut store: Vec<V> = vec![];
    let mut recs = vec![];
    let mut bad = vec![];
    for (i, st) in steps.iter().enumerate() {
        let mut b = vec![];
        let o = run_step(&store, st, &mut b);
        for m in b { bad.push((i, m)); }
        recs.push(if o.cls == "unknown" { "?".to_string() } else { record(&o) });
        store.push(if o.cls == "ok" { o.v } else { V::Nil });
    }
    (recs, bad)
}
fn label_of(step: &str) -> &str { step.split('|').next().unwrap_or("") }

fn exec(_op: &str, args: &[&str], expected: &str) -> Option<Verdict> {
    let exp: Vec<&str> = expected.strip_prefix("ok ")?.split(';').collect();
    if exp.len() != args.len() { return None; }
    let (recs, bad) = run_chain(args);
    if recs.iter().any(|r| r == "?") { return None; }
    let observed = format!("ok {}", recs.join(";"));
    // 1. the property itself: an inconsistent array was RETURNED by some step
    if let Some((k, msg)) = bad.first() {
        let small = shrink(args, *k);
        let small_refs: Vec<&str> = small.iter().map(String::as_str).collect();
        let (_, bad2) = run_chain(&small_refs);
        let chain = if bad2.is_empty() { args[..=*k].join(" ") } else { small.join(" ") };
        return Some(Verdict::Mismatch { observed, detail: format!("C01 monitor: step {} `{}` returned an {}; shortest failing chain: C01.{} {}", k, args[*k], msg, label_of(args[*k]), chain) });
    }
    // 2. the tie: modelled steps must agree with the store machine on outcome class and shape
    let mut open: Option<String> = None;
    for k in 0..args.len() {
        let (e, o) = (exp[k], recs[k].as_str());
        let name = label_of(args[k]);
        if name.starts_with("u.") {
            // recorded at generation time; a different shape now means the real run is not reproducible -> stop comparing
            let want = args[k].rsplit('|').next().unwrap_or("");
            let now = match o { "E" | "P" | "S" | "N" => "=N".to_string(), x => format!("={}", x) };
            if want != now { open = Some(format!("step {} `{}`: unmodelled call answered {} now, {} when generated", k, args[k], now, want)); break; }
            continue;
        }
        if e == o { continue; }
        if o == "P" || e == "P" && o == "E" {
            // a panic / refusal class difference is C09's subject, not C01's: noted, comparison stops (stores diverge)
            open = Some(format!("step {} `{}`: real {} vs model {} (panic class, not judged by C01)", k, args[k], o, e)); break;
        }
        if o == "E" && e.starts_with('A') && (name == "hstack" || name == "dot") {
            open = Some(format!("step {} `{}`: refusal pinned by the crate's own tests (open finding of C11/C14)", k, args[k])); break;
        }
        let small = shrink(args, k);
        return Some(Verdict::Mismatch { observed, detail: format!("step {} `{}`: real crate {} , model {} ; minimal chain: C01.{} {}", k, args[k], o, e, name, small.join(" ")) });
    }
    Some(match open { Some(_) => Verdict::Open(observed), None => Verdict::Match(observed) })
}

/// non-trivial: a real chain — some step consumes the result of an earlier step that itself consumed an earlier result
fn nontrivial(_op: &str, args: &[&str]) -> bool {
    let has_ref: Vec<bool> = args.iter().map(|s| !step_refs(s).is_empty()).collect();
    args.iter().any(|s| step_refs(s).iter().any(|&r| r < has_ref.len() && has_ref[r]))
}

fn main() {
    harness_main(Spec { prop: "C01", gen, exec, nontrivial, hang_secs: 30,
        rule: "one case = one chain of public operations on earlier results. Enumerated: every operation of the inventory (modelled and `u.` = monitor-only) as a one-step chain on base arrays of every applicable element type and shapes incl. rank 0..4, unit axes, zero-length axes; the refusal stream (new/create/reshape/resize/broadcast_to with non-fitting counts); then seeded random chains (length 1..12 quick, 1..40 thorough) typed so that most steps apply. After EVERY step the real result (each member of a Vec/tuple) is checked: elements.len()==product(shape), len(), ndim(), is_empty() agree. Modelled steps are also compared with the store machine on outcome class and shape. distinct = distinct chains; non-trivial = some step consumes the result of a step that consumed an earlier result" });
}
