//! C01 — shape and element count never disagree on any result of any operation chain.
//!
//! One case line = one CHAIN: `C01.<label> <step> <step> …`, a step is `name|arg|arg…`; array arguments are positions of
//! earlier results (`@3`, `@1,2,3`, `@L5`).  `gen` builds random typed chains by actually running them on the real crate
//! (so that most steps are applicable); `exec` re-runs the chain on the real crate, applies the C01 run-time monitor to
//! EVERY array returned by EVERY step (members of lists / pairs included) and compares, for the modelled steps, outcome
//! class and SHAPE with the store machine of `lean/ArrModel/C01.lean` (driver answer).  Steps named `u.<op>` are public
//! operations outside the modelled set: monitor only; their recorded result shape keeps the model store aligned.
//! Steps named `s.<op>` are the string-array operations (modelled through the lifting shapes of `ArrModel/C17Lift.lean`; the prefix keeps
//! `s.add`, `s.multiply`, `s.equal`, `s.split` … apart from the numeric / structural operations of the same name).
//! In `exec` every step that has an `impl … for Result<Array<T>, ArrayError>` is run a second time on `Ok(array)` (the chained
//! receiver): the twin's arrays are monitored, its class and shapes must equal the plain call's; the five getters are asked on both
//! receivers for every returned array; option arguments are also passed in their other spellings (String / &str / enum).
//! Model-growth round: `ediff1d`, `diff`, `insert_axis`, `convolve`, `modf`, `divmod`, `frexp` are modelled steps (`lean/ArrModel/C01Diff.lean`); on i64 chains whose
//! values are the model's tags the first four carry the field `v` and the driver's answer `A<shape>:<values>` ties the ELEMENT VALUES too.
//! Part 2 (round 3): std-trait steps (`u.it_*`, `u.clone*`, `u.re_*`: monitor + native expectation), hidden-state chains + A-B-A re-runs, ranks up to 8 and
//! long argument lists, huge arrays with a native shape oracle (`native_rec`) validated against the model on every modelled step of the run.
//! Part 5 (round 5): closures whose answers change between calls (`…|cnt` modelled spellings, `u.st_*` steps), axis lists naming one axis in
//! both spellings at every pair of positions (`gen_part5`), a few chains above 2^24 elements (`=G` records: no model store entry).
use arrharness::*;
use std::any::Any;
use std::cell::{Cell, RefCell};
use std::panic::{catch_unwind, AssertUnwindSafe};

type T2 = Tuple2<i32, i32>;

#[derive(Clone)]
enum V {
    I32(Array<i32>), I64(Array<i64>), U8(Array<u8>), Us(Array<usize>), F64(Array<f64>), B(Array<bool>), S(Array<String>), T2(Array<T2>), Is(Array<isize>), I8(Array<i8>),
    /// list / pair of arrays
    L(Vec<V>),
    /// an array of an element type the store does not chain on (Tuple3, List, char, Tuple2 of other types): monitored, shape kept
    Opq(Vec<usize>),
    Nil,
}

thread_local! {
    static BAD: RefCell<Vec<String>> = RefCell::new(vec![]);
    /// exec mode: every step that has an `impl … for Result<Array<T>, ArrayError>` is ALSO called on `Ok(array)` (the chained receiver)
    static TWIN_ON: Cell<bool> = Cell::new(false);
    static IN_TWIN: Cell<Option<&'static str>> = Cell::new(None);
    /// records (class + shapes) of the chained twins of the current step
    static TWIN: RefCell<Vec<(&'static str, String)>> = RefCell::new(vec![]);
}

/// the C01 monitor on one real array; returns its shape
fn chk<T: ArrayElement>(a: &Array<T>) -> Vec<usize> {
    let ok = catch_unwind(AssertUnwindSafe(|| consistent(a))).unwrap_or(false);
    let shape = a.get_shape().unwrap_or_default();
    let via = match IN_TWIN.with(|c| c.get()) { Some(how) => format!("the same call {} returned an ", how), None => "returned an ".to_string() };
    let n = a.get_elements().map(|e| e.len()).unwrap_or(usize::MAX);
    if !ok {
        BAD.with(|b| b.borrow_mut().push(format!("{}inconsistent array: shape {:?} (product {}) but {} elements; len()={:?} ndim()={:?} is_empty()={:?}",
            via, shape, shape.iter().product::<usize>(), n, a.len().ok(), a.ndim().ok(), a.is_empty().ok())));
    }
    // the same five getters through the chained receiver `impl ArrayMeta<T> for Result<Array<T>, ArrayError>` (exec mode)
    if !TWIN_ON.with(|c| c.get()) { return shape; }
    let got = catch_unwind(AssertUnwindSafe(|| {
        let r: Result<Array<T>, ArrayError> = Ok(a.clone());
        (r.len().ok(), r.ndim().ok(), r.is_empty().ok(), r.get_shape().ok(), r.get_elements().ok().map(|e| e.len()))
    }));
    let want = (Some(n), Some(shape.len()), Some(n == 0), Some(shape.clone()), Some(n));
    match got {
        Ok(g) if g == want => {}
        Ok(g) => BAD.with(|b| b.borrow_mut().push(format!("{}array of shape {:?} with {} elements whose getters on the chained receiver Ok(array) disagree with it: len()={:?} ndim()={:?} is_empty()={:?} get_shape()={:?} get_elements().len()={:?}",
            via, shape, n, g.0, g.1, g.2, g.3, g.4))),
        Err(_) => BAD.with(|b| b.borrow_mut().push(format!("{}array of shape {:?} on which a getter of the chained receiver panics", via, shape))),
    }
    shape
}
/// run the chained twin of a step (exec mode only); its arrays are monitored like any other, its record is kept for the comparison
const CHAINED: &str = "on Ok(array) through impl … for Result<Array<T>, ArrayError> (the chained receiver)";
fn twin_run(f: impl FnOnce() -> Out) { variant_run(CHAINED, f) }
/// another way of making the same call (chained receiver, option spelled as enum / &str / String): monitored, must answer alike
fn variant_run(how: &'static str, f: impl FnOnce() -> Out) {
    if !TWIN_ON.with(|c| c.get()) { return; }
    let outer = IN_TWIN.with(|c| c.replace(Some(how)));
    let r = catch_unwind(AssertUnwindSafe(f));
    IN_TWIN.with(|c| c.set(outer));
    let rec = match r { Ok(o) => record(&o), Err(_) => "P".to_string() };
    if outer.is_none() { TWIN.with(|t| t.borrow_mut().push((how, rec))); }
}

trait ToV { fn to_v(self) -> V; }
impl<X: ArrayElement + 'static> ToV for Array<X> {
    fn to_v(self) -> V {
        let shape = chk(&self);
        let any: Box<dyn Any> = Box::new(self);
        macro_rules! tr { ($any:ident, $t:ty, $c:path) => { let $any = match $any.downcast::<Array<$t>>() { Ok(a) => return $c(*a), Err(x) => x }; } }
        tr!(any, i32, V::I32); tr!(any, i64, V::I64); tr!(any, u8, V::U8); tr!(any, usize, V::Us); tr!(any, f64, V::F64);
        tr!(any, bool, V::B); tr!(any, String, V::S); tr!(any, T2, V::T2); tr!(any, isize, V::Is); tr!(any, i8, V::I8);
        let _ = any;
        V::Opq(shape)
    }
}
/// a Vec of pairs (qr, eig) is stored flattened: every member array is monitored and can be picked by `member`
impl<A: ToV> ToV for Vec<A> { fn to_v(self) -> V { let mut out = vec![]; for x in self { match x.to_v() { V::L(l) => out.extend(l), v => out.push(v) } } V::L(out) } }
impl<A: ToV, B: ToV> ToV for (A, B) { fn to_v(self) -> V { V::L(vec![self.0.to_v(), self.1.to_v()]) } }
/// non-array results (unit, scalars): nothing to monitor
struct NoArr;
impl ToV for NoArr { fn to_v(self) -> V { V::Nil } }

struct Out { cls: &'static str, v: V }
fn fin<X: ToV>(r: Result<X, ArrayError>) -> Out {
    match r { Ok(x) => Out { cls: "ok", v: x.to_v() }, Err(_) => Out { cls: "err", v: V::Nil } }
}
fn skip() -> Out { Out { cls: "skip", v: V::Nil } }

fn shape_of(v: &V) -> Option<Vec<usize>> {
    match v {
        V::I32(a) => a.get_shape().ok(), V::I64(a) => a.get_shape().ok(), V::U8(a) => a.get_shape().ok(), V::Us(a) => a.get_shape().ok(),
        V::F64(a) => a.get_shape().ok(), V::B(a) => a.get_shape().ok(), V::S(a) => a.get_shape().ok(), V::T2(a) => a.get_shape().ok(),
        V::Is(a) => a.get_shape().ok(), V::I8(a) => a.get_shape().ok(), V::Opq(s) => Some(s.clone()), _ => None,
    }
}
fn ty_of(v: &V) -> &'static str {
    match v { V::I32(_) => "i32", V::I64(_) => "i64", V::U8(_) => "u8", V::Us(_) => "usize", V::F64(_) => "f64", V::B(_) => "bool", V::S(_) => "str",
        V::T2(_) => "t2", V::Is(_) => "isize", V::I8(_) => "i8", V::L(_) => "list", V::Opq(_) => "opq", V::Nil => "nil" }
}
/// record of a step outcome in the format of the model driver
fn record(o: &Out) -> String {
    match o.cls {
        "err" => "E".into(), "panic" => "P".into(), "skip" => "S".into(),
        _ => match &o.v {
            V::L(l) => format!("L{}", l.iter().map(|x| show_list(&shape_of(x).unwrap_or_default())).collect::<Vec<_>>().join("/")),
            V::Nil => "N".into(),
            v => format!("A{}", show_list(&shape_of(v).unwrap_or_default())),
        },
    }
}

// ---------------------------------------------------------------- element construction

trait Elem: ArrayElement + 'static { fn tag(i: i64) -> Self; }
impl Elem for i32 { fn tag(i: i64) -> Self { i as i32 } }
impl Elem for i64 { fn tag(i: i64) -> Self { i } }
impl Elem for u8 { fn tag(i: i64) -> Self { i.rem_euclid(256) as u8 } }
impl Elem for i8 { fn tag(i: i64) -> Self { (i.rem_euclid(256) as u8) as i8 } }
impl Elem for usize { fn tag(i: i64) -> Self { i.unsigned_abs() as usize } }
impl Elem for isize { fn tag(i: i64) -> Self { i as isize } }
impl Elem for f64 { fn tag(i: i64) -> Self { i as f64 } }
impl Elem for bool { fn tag(i: i64) -> Self { i.rem_euclid(3) != 0 } }
impl Elem for String {
    fn tag(i: i64) -> Self {
        const W: [&str; 10] = ["ab", "", "Hello World", "a-b-c", "12", " x ", "line1\nline2", "ABC", "a1B2", "zz top"];
        format!("{}{}", W[i.rem_euclid(10) as usize], if i % 4 == 0 { String::new() } else { i.to_string() })
    }
}
impl Elem for T2 { fn tag(i: i64) -> Self { Tuple2(i as i32, -(i as i32)) } }
fn tags<T: Elem>(n: usize, off: i64) -> Vec<T> { (0..n as i64).map(|i| T::tag(i + off)).collect() }

// ---------------------------------------------------------------- argument parsing

fn rf(s: &str) -> Option<usize> { s.strip_prefix('@')?.parse().ok() }
fn get<'a>(st: &'a [V], s: &str) -> Option<&'a V> { st.get(rf(s)?) }
fn getl(st: &[V], s: &str) -> Option<Vec<V>> {
    if let Some(i) = s.strip_prefix("@L") { match st.get(i.parse::<usize>().ok()?)? { V::L(l) => Some(l.clone()), _ => None } }
    else if s == "@" { Some(vec![]) }
    else { s.strip_prefix('@')?.split(',').map(|x| st.get(x.parse::<usize>().ok()?).cloned()).collect() }
}
fn us(s: &str) -> usize { s.parse().unwrap() }
fn is(s: &str) -> isize { s.parse().unwrap() }
fn ousz(s: &str) -> Option<usize> { parse_opt(s) }
fn oisz(s: &str) -> Option<isize> { parse_opt(s) }
fn obool(s: &str) -> Option<bool> { parse_opt(s) }
fn ul(s: &str) -> Vec<usize> { parse_usize_list(s) }
fn il(s: &str) -> Vec<isize> { parse_isize_list(s) }
fn oil(s: &str) -> Option<Vec<isize>> { if s == "none" { None } else { Some(il(s)) } }

/// `$body` is a method call on the array binding `$a`.  It is evaluated on the plain receiver `&Array<T>` and — in exec mode —
/// a second time with `$a` rebound to `&Ok(array)`, i.e. through `impl … for Result<Array<T>, ArrayError>` (the chained form).
macro_rules! on_types {
    ($v:expr, [$($c:ident),*], |$a:ident| $body:expr) => { match $v { $(V::$c($a) => {
        let plain__ = fin($body);
        twin_run(|| { let r__ = Ok::<_, ArrayError>($a.clone()); let $a = &r__; fin($body) });
        plain__
    })* _ => skip() } };
}
/// plain receiver only (no Result-receiver impl exists for the call, or it is not a method call)
macro_rules! on_types_p {
    ($v:expr, [$($c:ident),*], |$a:ident| $body:expr) => { match $v { $(V::$c($a) => fin($body),)* _ => skip() } };
}
macro_rules! on_all { ($v:expr, |$a:ident| $body:expr) => { on_types!($v, [I32, I64, U8, Us, F64, B, S, T2, Is, I8], |$a| $body) }; }
macro_rules! on_all_p { ($v:expr, |$a:ident| $body:expr) => { on_types_p!($v, [I32, I64, U8, Us, F64, B, S, T2, Is, I8], |$a| $body) }; }
macro_rules! on_num { ($v:expr, |$a:ident| $body:expr) => { on_types!($v, [I32, I64, U8, Us, F64, Is, I8], |$a| $body) }; }
macro_rules! on_num_p { ($v:expr, |$a:ident| $body:expr) => { on_types_p!($v, [I32, I64, U8, Us, F64, Is, I8], |$a| $body) }; }
macro_rules! on_ops { ($v:expr, |$a:ident| $body:expr) => { on_types!($v, [I32, I64, F64], |$a| $body) }; }
macro_rules! on_types2 {
    ($v:expr, $w:expr, [$($c:ident),*], |$a:ident, $b:ident| $body:expr) => { match ($v, $w) { $((V::$c($a), V::$c($b)) => {
        let plain__ = fin($body);
        twin_run(|| { let r__ = Ok::<_, ArrayError>($a.clone()); let $a = &r__; fin($body) });
        plain__
    })* _ => skip() } };
}
macro_rules! on_all2_p { ($v:expr, $w:expr, |$a:ident, $b:ident| $body:expr) => { match ($v, $w) {
    (V::I32($a), V::I32($b)) => fin($body), (V::I64($a), V::I64($b)) => fin($body), (V::U8($a), V::U8($b)) => fin($body), (V::Us($a), V::Us($b)) => fin($body), (V::F64($a), V::F64($b)) => fin($body),
    (V::B($a), V::B($b)) => fin($body), (V::S($a), V::S($b)) => fin($body), (V::T2($a), V::T2($b)) => fin($body), (V::Is($a), V::Is($b)) => fin($body), (V::I8($a), V::I8($b)) => fin($body), _ => skip() } }; }
macro_rules! on_all2 { ($v:expr, $w:expr, |$a:ident, $b:ident| $body:expr) => { on_types2!($v, $w, [I32, I64, U8, Us, F64, B, S, T2, Is, I8], |$a, $b| $body) }; }
macro_rules! on_ops2 { ($v:expr, $w:expr, |$a:ident, $b:ident| $body:expr) => { on_types2!($v, $w, [I32, I64, F64], |$a, $b| $body) }; }

trait FromV: Sized + ArrayElement { fn from_v(v: &V) -> Option<&Array<Self>>; }
macro_rules! fromv { ($t:ty, $c:ident) => { impl FromV for $t { fn from_v(v: &V) -> Option<&Array<Self>> { if let V::$c(a) = v { Some(a) } else { None } } } }; }
fromv!(i32, I32); fromv!(i64, I64); fromv!(u8, U8); fromv!(usize, Us); fromv!(f64, F64); fromv!(bool, B); fromv!(String, S); fromv!(T2, T2); fromv!(isize, Is); fromv!(i8, I8);
fn arrs_of<T: FromV>(l: &[V]) -> Option<Vec<Array<T>>> { l.iter().map(|v| T::from_v(v).cloned()).collect() }
/// list-taking operations: every member must have the element type of the first one (an empty list is taken as i32)
macro_rules! on_list {
    ($l:expr, |$arrs:ident, $t:ident| $body:expr) => {{
        let l: &Vec<V> = $l;
        macro_rules! go { ($ty:ty) => {{ type $t = $ty; match arrs_of::<$ty>(l) { Some($arrs) => fin($body), None => skip() } }}; }
        match l.first() {
            None | Some(V::I32(_)) => go!(i32), Some(V::I64(_)) => go!(i64), Some(V::U8(_)) => go!(u8), Some(V::Us(_)) => go!(usize), Some(V::F64(_)) => go!(f64),
            Some(V::B(_)) => go!(bool), Some(V::S(_)) => go!(String), Some(V::T2(_)) => go!(T2), Some(V::Is(_)) => go!(isize), Some(V::I8(_)) => go!(i8), _ => skip(),
        }
    }};
}
/// constructors: element type named in the `#ty` field
macro_rules! on_ty {
    ($ty:expr, [$($n:literal => $t:ty),*], |$tt:ident| $body:expr) => { match $ty { $($n => { type $tt = $t; fin($body) })* _ => skip() } };
}
macro_rules! ctor_all { ($ty:expr, |$tt:ident| $body:expr) => { on_ty!($ty, ["i32" => i32, "i64" => i64, "u8" => u8, "usize" => usize, "f64" => f64, "bool" => bool, "str" => String, "t2" => T2, "isize" => isize, "i8" => i8], |$tt| $body) }; }
macro_rules! ctor_num { ($ty:expr, |$tt:ident| $body:expr) => { on_ty!($ty, ["i32" => i32, "i64" => i64, "u8" => u8, "usize" => usize, "f64" => f64, "isize" => isize, "i8" => i8], |$tt| $body) }; }

fn ty_field<'a>(args: &[&'a str]) -> &'a str { args.iter().find_map(|a| a.strip_prefix('#')).unwrap_or("i64") }
const AS_STR: &str = "with the option spelled as &str";
const AS_STRING: &str = "with the option spelled as String";
const AS_ENUM: &str = "with the option spelled as the enum value";
fn kind_enum(s: &str) -> Option<SortKind> {
    match s.to_lowercase().as_str() { "quicksort" => Some(SortKind::Quicksort), "mergesort" => Some(SortKind::Mergesort), "heapsort" => Some(SortKind::Heapsort), "stable" => Some(SortKind::Stable), _ => None }
}
fn sort_kind(s: &str) -> Option<Option<String>> {
    if s == "none" { Some(None) } else { s.strip_prefix("s:").map(|x| Some(x.to_string())) }
}

// ---------------------------------------------------------------- the modelled operations on the real crate

const FOLD_OPS: [&str; 4] = ["sum", "prod", "nansum", "nanprod"];
const EXTREME_OPS: [&str; 6] = ["max", "min", "amax", "amin", "nanmax", "nanmin"];
const SCAN_OPS: [&str; 4] = ["cumsum", "cumprod", "nancumsum", "nancumprod"];
/// one-operand math on every `Numeric` element type
const UNARY_NUM: [&str; 31] = ["reciprocal", "positive", "negative", "exp", "exp2", "exp_m1", "log", "log2", "log10", "log_1p", "sinh", "cosh", "tanh",
    "asinh", "acosh", "atanh", "sqrt", "cbrt", "square", "absolute", "abs", "fabs", "sign", "nan_to_num", "rint", "fix", "trunc", "floor", "ceil", "bitwise_not", "invert"];
/// one-operand math on the `NumericOps` element types
const UNARY_OPS: [&str; 12] = ["i0", "sinc", "sin", "cos", "tan", "asin", "acos", "atan", "degrees", "rad2deg", "radians", "deg2rad"];
const UNARY_FLT: [&str; 2] = ["signbit", "spacing"];
const BIN_NUM: [&str; 27] = ["add", "subtract", "multiply", "power", "float_power", "logn", "log_add_exp", "log_add_exp2", "divide", "true_divide", "fmod",
    "remainder", "mod", "floor_divide", "bitwise_and", "bitwise_or", "bitwise_xor", "left_shift", "right_shift", "maximum", "minimum", "fmax", "fmin",
    "heaviside", "gcd", "lcm", "_"];
const BIN_OPS: [&str; 2] = ["atan2", "hypot"];
const BIN_FLT: [&str; 2] = ["copysign", "nextafter"];
/// two-operand operations whose outcome depends on the VALUES of the second operand (zero-divisor guard)
const BIN_GUARD: [&str; 6] = ["divide", "true_divide", "fmod", "remainder", "mod", "floor_divide"];

/// a table of method calls, compiled twice: on the plain receiver `&Array<N>` and on the chained receiver `&Result<Array<N>, ArrayError>`
macro_rules! table2 {
    ($plain:ident, $chained:ident, [$($bound:tt)*], |$name:ident, $a:ident $(, $x:ident : $xt:ty)*| $body:block) => {
        fn $plain<N: $($bound)* + 'static>($name: &str, $a: &Array<N> $(, $x: $xt)*) -> Option<Out> $body
        fn $chained<N: $($bound)* + 'static>($name: &str, $a: &Result<Array<N>, ArrayError> $(, $x: $xt)*) -> Option<Out> $body
    };
}
/// the plain outcome of a table call, plus (exec mode) its chained twin
fn both(plain: Option<Out>, chained: impl FnOnce() -> Option<Out>) -> Option<Out> {
    let p = plain?;
    twin_run(|| chained().unwrap_or_else(skip));
    Some(p)
}
macro_rules! tbl { ($f:ident, $fr:ident, $name:expr, $x:expr $(, $e:expr)*) => { both($f($name, $x $(, $e)*), || $fr($name, &Ok($x.clone()) $(, $e)*))? } }

table2!(unary_num, unary_num_r, [Numeric], |name, a| {
    Some(match name {
        "reciprocal" => fin(a.reciprocal()), "positive" => fin(a.positive()), "negative" => fin(a.negative()),
        "exp" => fin(a.exp()), "exp2" => fin(a.exp2()), "exp_m1" => fin(a.exp_m1()), "log" => fin(a.log()), "log2" => fin(a.log2()),
        "log10" => fin(a.log10()), "log_1p" => fin(a.log_1p()),
        "sinh" => fin(a.sinh()), "cosh" => fin(a.cosh()), "tanh" => fin(a.tanh()), "asinh" => fin(a.asinh()), "acosh" => fin(a.acosh()), "atanh" => fin(a.atanh()),
        "sqrt" => fin(a.sqrt()), "cbrt" => fin(a.cbrt()), "square" => fin(a.square()), "absolute" => fin(a.absolute()), "abs" => fin(ArrayMathMisc::abs(a)),
        "fabs" => fin(a.fabs()), "sign" => fin(a.sign()), "nan_to_num" => fin(a.nan_to_num()),
        "rint" => fin(a.rint()), "fix" => fin(a.fix()), "trunc" => fin(a.trunc()), "floor" => fin(a.floor()), "ceil" => fin(a.ceil()),
        "bitwise_not" => fin(ArrayBinary::bitwise_not(a)), "invert" => fin(a.invert()),
        _ => return None,
    })
});
table2!(unary_ops, unary_ops_r, [NumericOps], |name, a| {
    Some(match name {
        "i0" => fin(a.i0()), "sinc" => fin(a.sinc()), "sin" => fin(a.sin()), "cos" => fin(a.cos()), "tan" => fin(a.tan()),
        "asin" => fin(a.asin()), "acos" => fin(a.acos()), "atan" => fin(a.atan()), "degrees" => fin(a.degrees()), "rad2deg" => fin(a.rad2deg()),
        "radians" => fin(a.radians()), "deg2rad" => fin(a.deg2rad()),
        _ => return None,
    })
});
table2!(bin_num, bin_num_r, [Numeric], |name, a, b: &Array<N>| {
    Some(match name {
        "add" => fin(ArrayArithmetic::add(a, b)), "subtract" => fin(a.subtract(b)), "multiply" => fin(ArrayArithmetic::multiply(a, b)),
        "power" => fin(a.power(b)), "float_power" => fin(a.float_power(b)), "logn" => fin(a.logn(b)), "log_add_exp" => fin(a.log_add_exp(b)),
        "log_add_exp2" => fin(a.log_add_exp2(b)), "divide" => fin(a.divide(b)), "true_divide" => fin(a.true_divide(b)), "fmod" => fin(a.fmod(b)),
        "remainder" => fin(a.remainder(b)), "mod" => fin(a.r#mod(b)), "floor_divide" => fin(a.floor_divide(b)),
        "bitwise_and" => fin(ArrayBinary::bitwise_and(a, b)), "bitwise_or" => fin(ArrayBinary::bitwise_or(a, b)), "bitwise_xor" => fin(ArrayBinary::bitwise_xor(a, b)),
        "left_shift" => fin(ArrayBinary::left_shift(a, b)), "right_shift" => fin(ArrayBinary::right_shift(a, b)),
        "maximum" => fin(a.maximum(b)), "minimum" => fin(a.minimum(b)), "fmax" => fin(a.fmax(b)), "fmin" => fin(a.fmin(b)), "heaviside" => fin(a.heaviside(b)),
        "gcd" => fin(a.gcd(b)), "lcm" => fin(a.lcm(b)),
        _ => return None,
    })
});
table2!(reduce_ops, reduce_ops_r, [NumericOps], |name, a, ax: Option<isize>| {
    Some(match name {
        "sum" => fin(a.sum(ax)), "prod" => fin(a.prod(ax)), "nansum" => fin(a.nansum(ax)), "nanprod" => fin(a.nanprod(ax)),
        "cumsum" => fin(a.cumsum(ax)), "cumprod" => fin(a.cumprod(ax)), "nancumsum" => fin(a.nancumsum(ax)), "nancumprod" => fin(a.nancumprod(ax)),
        _ => return None,
    })
});
table2!(extreme_num, extreme_num_r, [Numeric], |name, a, ax: Option<isize>| {
    Some(match name {
        "max" => fin(ArrayExtrema::max(a, ax)), "min" => fin(ArrayExtrema::min(a, ax)), "amax" => fin(a.amax(ax)), "amin" => fin(a.amin(ax)),
        "nanmax" => fin(a.nanmax(ax)), "nanmin" => fin(a.nanmin(ax)),
        _ => return None,
    })
});
fn operator_ops<N: NumericOps + 'static>(name: &str, a: &Array<N>, b: &Array<N>) -> Option<Out> {
    let (x, y) = (a.clone(), b.clone());
    macro_rules! fam { ($op:tt, $opa:tt, $base:literal) => {
        if name == concat!("op_", $base) { return Some(fin(Ok::<_, ArrayError>(x $op y))); }
        if name == concat!("op_", $base, "_s") { return Some(fin(x $op N::one())); }
        if name == concat!("op_", $base, "_assign") { let mut z = x; z $opa y; return Some(fin(Ok::<_, ArrayError>(z))); }
        if name == concat!("op_", $base, "_assign_s") { let mut z = x; z $opa N::one(); return Some(fin(Ok::<_, ArrayError>(z))); }
    }; }
    fam!(+, +=, "add"); fam!(-, -=, "sub"); fam!(*, *=, "mul"); fam!(/, /=, "div"); fam!(%, %=, "rem");
    None
}
fn operator_bits<N: Numeric + 'static + std::ops::BitAnd<Output = N> + std::ops::BitOr<Output = N> + std::ops::BitXor<Output = N>>(name: &str, a: &Array<N>, b: &Array<N>) -> Option<Out> {
    let (x, y) = (a.clone(), b.clone());
    macro_rules! fam { ($op:tt, $opa:tt, $base:literal) => {
        if name == concat!("op_", $base) { return Some(fin(Ok::<_, ArrayError>(x $op y))); }
        if name == concat!("op_", $base, "_s") { return Some(fin(Ok::<_, ArrayError>(x $op N::one()))); }
        if name == concat!("op_", $base, "_assign") { let mut z = x; z $opa y; return Some(fin(Ok::<_, ArrayError>(z))); }
        if name == concat!("op_", $base, "_assign_s") { let mut z = x; z $opa N::one(); return Some(fin(Ok::<_, ArrayError>(z))); }
    }; }
    fam!(&, &=, "bitand"); fam!(|, |=, "bitor"); fam!(^, ^=, "bitxor");
    None
}

fn nz_is_zero<T: ArrayElement>(e: &T) -> bool { *e == T::zero() }
fn lane<T: ArrayElement + 'static>(f: &str) -> Box<dyn FnMut(&Array<T>) -> Result<Array<T>, ArrayError>> {
    if let Some(b) = lane_st::<T>(f) { b }
    else if f == "rev" { Box::new(|x: &Array<T>| x.flip(None)) }
    else if let Some(k) = f.strip_prefix("ct") { let k: usize = k.parse().unwrap(); Box::new(move |x: &Array<T>| x.cycle_take(k)) }
    else { Box::new(|x: &Array<T>| Ok(x.clone())) }
}

/// the modelled public operations (names = method names of the crate).  `None` = not a modelled step name.
fn run_modelled(st: &[V], name: &str, a: &[&str], ty: &str) -> Option<Out> {
    macro_rules! g { ($i:expr) => { match get(st, a[$i]) { Some(v) => v, None => return Some(skip()) } }; }
    macro_rules! gl { ($i:expr) => { match getl(st, a[$i]) { Some(v) => v, None => return Some(skip()) } }; }
    // modelled since the store machine was extended; the calls live in `run_unmodelled` (shared with their `u.` spelling)
    if MODELLED_LATER.contains(&name) && !(name == "filter_map" && a.get(3) == Some(&"cnt")) { return run_unmodelled(st, name, a, ty); }
    Some(match name {
        // ---- constructors
        "new" => ctor_all!(ty, |T| Array::<T>::new(tags::<T>(us(a[0]), a[1].parse().unwrap()), ul(a[2]))),
        "create" => ctor_all!(ty, |T| Array::<T>::create(tags::<T>(us(a[0]), 0), ul(a[1]), ousz(a[2]))),
        "single" => ctor_all!(ty, |T| Array::<T>::single(T::tag(0))),
        "flat" => ctor_all!(ty, |T| Array::<T>::flat(tags::<T>(us(a[0]), 0))),
        "empty" => ctor_all!(ty, |T| Array::<T>::empty()),
        "zeros" => ctor_num!(ty, |T| Array::<T>::zeros(ul(a[0]))),
        "ones" => ctor_num!(ty, |T| Array::<T>::ones(ul(a[0]))),
        "full" => ctor_num!(ty, |T| Array::<T>::full(ul(a[0]), <T as Numeric>::from_usize(7))),
        "rand" => ctor_num!(ty, |T| Array::<T>::rand(ul(a[0]))),
        "zeros_like" => on_num_p!(g!(0), |x| Array::zeros_like(x)),
        "ones_like" => on_num_p!(g!(0), |x| Array::ones_like(x)),
        "full_like" => on_num_p!(g!(0), |x| Array::full_like(x, Numeric::from_usize(7))),
        "eye" => ctor_num!(ty, |T| Array::<T>::eye(us(a[0]), ousz(a[1]), ousz(a[2]))),
        "identity" => ctor_num!(ty, |T| Array::<T>::identity(us(a[0]))),
        "tri" => ctor_num!(ty, |T| Array::<T>::tri(us(a[0]), ousz(a[1]), oisz(a[2]))),
        "arange" => ctor_num!(ty, |T| Array::<T>::arange(<T as Numeric>::from_f64(a[0].parse().unwrap()), <T as Numeric>::from_f64(a[1].parse().unwrap()),
            parse_opt::<f64>(a[2]).map(<T as Numeric>::from_f64))),
        "linspace" => ctor_num!(ty, |T| Array::<T>::linspace(<T as Numeric>::from_f64(a[0].parse().unwrap()), <T as Numeric>::from_f64(a[1].parse().unwrap()), ousz(a[2]), obool(a[3]))),
        "diag" => on_num_p!(g!(0), |x| x.diag(oisz(a[1]))),
        "diagflat" => on_num_p!(g!(0), |x| x.diagflat(oisz(a[1]))),
        "tril" => on_num_p!(g!(0), |x| x.tril(oisz(a[1]))),
        "triu" => on_num_p!(g!(0), |x| x.triu(oisz(a[1]))),
        "vander" => on_num_p!(g!(0), |x| x.vander(ousz(a[1]), obool(a[2]))),
        // ---- axis / shape
        "transpose" => on_all!(g!(0), |x| x.transpose(oil(a[1]))),
        "moveaxis" => on_all!(g!(0), |x| x.moveaxis(il(a[1]), il(a[2]))),
        "rollaxis" => on_all!(g!(0), |x| x.rollaxis(is(a[1]), oisz(a[2]))),
        "swapaxes" => on_all!(g!(0), |x| x.swapaxes(is(a[1]), is(a[2]))),
        "expand_dims" => on_all!(g!(0), |x| x.expand_dims(il(a[1]))),
        "squeeze" => on_all!(g!(0), |x| x.squeeze(oil(a[1]))),
        "reshape" => on_all!(g!(0), |x| x.reshape(&ul(a[1]))),
        "resize" => on_all!(g!(0), |x| x.resize(&ul(a[1]))),
        "ravel" => on_all!(g!(0), |x| x.ravel()),
        "atleast" => on_all!(g!(0), |x| x.atleast(us(a[1]))),
        "cycle_take" => on_all!(g!(0), |x| x.cycle_take(us(a[1]))),
        "apply_along_axis" => on_all!(g!(0), |x| x.apply_along_axis(us(a[1]), lane(a[2]))),
        // ---- broadcasting
        "broadcast_to" => on_all!(g!(0), |x| x.broadcast_to(ul(a[1]))),
        "broadcast" => on_all2!(g!(0), g!(1), |x, y| x.broadcast(y)),
        "broadcast_arrays" => on_list!(&gl!(0), |arrs, T| Array::<T>::broadcast_arrays(arrs)),
        "zip" => on_all2_p!(g!(0), g!(1), |x, y| x.zip(y)),
        // ---- split / join
        "array_split" => on_all!(g!(0), |x| x.array_split(us(a[1]), ousz(a[2]))),
        "split" => on_all!(g!(0), |x| ArraySplit::split(x, us(a[1]), ousz(a[2]))),
        "split_axis" => on_all!(g!(0), |x| x.split_axis(us(a[1]))),
        "hsplit" => on_all!(g!(0), |x| x.hsplit(us(a[1]))),
        "vsplit" => on_all!(g!(0), |x| x.vsplit(us(a[1]))),
        "dsplit" => on_all!(g!(0), |x| x.dsplit(us(a[1]))),
        "member" => match g!(0) { V::L(l) => match l.get(us(a[1])) { Some(v @ (V::Opq(_) | V::Nil | V::L(_))) => { let _ = v; skip() } Some(v) => Out { cls: "ok", v: v.clone() }, None => skip() }, _ => skip() },
        "concatenate" => on_list!(&gl!(0), |arrs, T| Array::<T>::concatenate(arrs, ousz(a[1]))),
        "stack" => on_list!(&gl!(0), |arrs, T| Array::<T>::stack(arrs, ousz(a[1]))),
        "vstack" => on_list!(&gl!(0), |arrs, T| Array::<T>::vstack(arrs)),
        "hstack" => on_list!(&gl!(0), |arrs, T| Array::<T>::hstack(arrs)),
        "dstack" => on_list!(&gl!(0), |arrs, T| Array::<T>::dstack(arrs)),
        "column_stack" => on_list!(&gl!(0), |arrs, T| Array::<T>::column_stack(arrs)),
        "row_stack" => on_list!(&gl!(0), |arrs, T| Array::<T>::row_stack(arrs)),
        // ---- reorder
        "flip" => on_all!(g!(0), |x| x.flip(oil(a[1]))),
        "flipud" => on_all!(g!(0), |x| x.flipud()),
        "fliplr" => on_all!(g!(0), |x| x.fliplr()),
        "roll" => on_all!(g!(0), |x| x.roll(il(a[1]), oil(a[2]))),
        "rot90" => on_all!(g!(0), |x| x.rot90(us(a[1]), il(a[2]))),
        // ---- delete / insert / append / repeat / trim
        "delete" => on_all!(g!(0), |x| x.delete(&ul(a[1]), ousz(a[2]))),
        "insert" => on_all2!(g!(0), g!(2), |x, y| x.insert(&ul(a[1]), y, None)),
        "append" => on_all2!(g!(0), g!(1), |x, y| x.append(y, ousz(a[2]))),
        "repeat" => on_all!(g!(0), |x| x.repeat(&ul(a[1]), ousz(a[2]))),
        "trim_zeros" => on_all!(g!(0), |x| x.trim_zeros()),
        // ---- closures
        // the spellings with a last field `cnt` hand the operation a COUNTING closure (its answer depends on the number of earlier calls, not
        // on the index): called once per element in flat order it is the pure closure of the plain spelling, which is what the model runs
        "map" if a.get(1) == Some(&"cnt") => on_all_p!(g!(0), |x| { let mut k = 0usize; x.map(|e| { k += 1; e.clone() }) }),
        "map_e" if a.get(1) == Some(&"cnt") => on_all_p!(g!(0), |x| { let mut k = 0usize; x.map_e(|i, e| { if i != k { bad(format!("map_e offered index {i} at call {k}")); } k += 1; e.clone() }) }),
        "filter_e" | "filter" if a.get(3) == Some(&"cnt") => { let (m, t) = (us(a[1]).max(1), us(a[2]));
            if name == "filter" { on_all_p!(g!(0), |x| { let mut k = 0usize; x.filter(|_| { let r = k % m < t; k += 1; r }) }) } else { on_all_p!(g!(0), |x| { let mut k = 0usize; x.filter_e(|_, _| { let r = k % m < t; k += 1; r }) }) } }
        "filter_map_e" | "filter_map" if a.get(3) == Some(&"cnt") => { let (m, t) = (us(a[1]).max(1), us(a[2]));
            if name == "filter_map" { on_all_p!(g!(0), |x| { let mut k = 0usize; x.filter_map(|e| { let r = k % m < t; k += 1; if r { Some(e.clone()) } else { None } }) }) }
            else { on_all_p!(g!(0), |x| { let mut k = 0usize; x.filter_map_e(|_, e| { let r = k % m < t; k += 1; if r { Some(e.clone()) } else { None } }) }) } }
        "map" => on_all_p!(g!(0), |x| x.map(|e| e.clone())),
        "map_e" => on_all_p!(g!(0), |x| x.map_e(|_, e| e.clone())),
        "filter_e" => { let (m, t) = (us(a[1]), us(a[2])); on_all_p!(g!(0), |x| x.filter_e(|i, _| i % m.max(1) < t)) }
        "filter_map_e" => { let (m, t) = (us(a[1]), us(a[2])); on_all_p!(g!(0), |x| x.filter_map_e(|i, e| if i % m.max(1) < t { Some(e.clone()) } else { None })) }
        "filter" => on_all_p!(g!(0), |x| x.filter(|e| !nz_is_zero(e))),
        // ---- queries, sorting
        "count_nonzero" => on_all!(g!(0), |x| x.count_nonzero(oisz(a[1]), obool(a[2]))),
        "argmax" => on_all!(g!(0), |x| x.argmax(oisz(a[1]), obool(a[2]))),
        "argmin" => on_all!(g!(0), |x| x.argmin(oisz(a[1]), obool(a[2]))),
        "sort" => { let k = sort_kind(a[2])?; let (v, ax) = (g!(0), oisz(a[1])); let o = on_all!(v, |x| x.sort(ax, k.clone()));
            if let Some(ks) = &k { variant_run(AS_STR, || on_all_p!(v, |x| x.sort(ax, Some(ks.as_str())))); if let Some(e) = kind_enum(ks) { variant_run(AS_ENUM, || on_all_p!(v, |x| x.sort(ax, Some(e)))); } } o }
        "argsort" => { let k = sort_kind(a[2])?; let (v, ax) = (g!(0), oisz(a[1])); let o = on_all!(v, |x| x.argsort(ax, k.clone()));
            if let Some(ks) = &k { variant_run(AS_STR, || on_all_p!(v, |x| x.argsort(ax, Some(ks.as_str())))); if let Some(e) = kind_enum(ks) { variant_run(AS_ENUM, || on_all_p!(v, |x| x.argsort(ax, Some(e)))); } } o }
        "unique" => on_all!(g!(0), |x| x.unique(oisz(a[1]))),
        "clip" => { let (vlo, vhi) = (g!(1), g!(2)); on_num!(g!(0), |x| match (FromV::from_v(vlo), FromV::from_v(vhi)) { (Some(lo), Some(hi)) => x.clip(Some(Array::clone(lo)), Some(Array::clone(hi))), _ => Err(ArrayError::NotImplemented) }) }
        // ---- products
        "vdot" => on_ops2!(g!(0), g!(1), |x, y| x.vdot(y)),
        "outer" => on_ops2!(g!(0), g!(1), |x, y| x.outer(y)),
        "inner" => on_ops2!(g!(0), g!(1), |x, y| x.inner(y)),
        "matmul" => on_ops2!(g!(0), g!(1), |x, y| x.matmul(y)),
        "dot" => on_ops2!(g!(0), g!(1), |x, y| x.dot(y)),
        // ---- bits
        "unpack_bits" => { let v = g!(0); let o = on_types!(v, [U8], |x| x.unpack_bits(oisz(a[1]), oisz(a[2]), Some(a[3])));
            variant_run(AS_STRING, || on_types_p!(v, [U8], |x| x.unpack_bits(oisz(a[1]), oisz(a[2]), Some(a[3].to_string()))));
            if let Some(e) = match a[3] { "big" => Some(BitOrder::Big), "little" => Some(BitOrder::Little), _ => None } { variant_run(AS_ENUM, || on_types_p!(v, [U8], |x| x.unpack_bits(oisz(a[1]), oisz(a[2]), Some(e)))); } o }
        "pack_bits" => { let v = g!(0); let o = on_types!(v, [U8], |x| x.pack_bits(oisz(a[1]), Some(a[2])));
            variant_run(AS_STRING, || on_types_p!(v, [U8], |x| x.pack_bits(oisz(a[1]), Some(a[2].to_string()))));
            if let Some(e) = match a[2] { "big" => Some(BitOrder::Big), "little" => Some(BitOrder::Little), _ => None } { variant_run(AS_ENUM, || on_types_p!(v, [U8], |x| x.pack_bits(oisz(a[1]), Some(e)))); } o }
        "op_neg" => on_types_p!(g!(0), [I32, I64, F64], |x| Ok::<_, ArrayError>(-x.clone())),
        "op_not" => on_types_p!(g!(0), [B], |x| Ok::<_, ArrayError>(!x.clone())),
        _ => {
            if FOLD_OPS.contains(&name) || SCAN_OPS.contains(&name) { let ax = oisz(a[1]); return Some(match g!(0) { V::I32(x) => tbl!(reduce_ops, reduce_ops_r, name, x, ax), V::I64(x) => tbl!(reduce_ops, reduce_ops_r, name, x, ax), V::F64(x) => tbl!(reduce_ops, reduce_ops_r, name, x, ax), V::I8(x) => tbl!(reduce_ops, reduce_ops_r, name, x, ax), _ => skip() }); }
            if EXTREME_OPS.contains(&name) { let ax = oisz(a[1]); return Some(match g!(0) { V::I32(x) => tbl!(extreme_num, extreme_num_r, name, x, ax), V::I64(x) => tbl!(extreme_num, extreme_num_r, name, x, ax), V::U8(x) => tbl!(extreme_num, extreme_num_r, name, x, ax), V::Us(x) => tbl!(extreme_num, extreme_num_r, name, x, ax), V::F64(x) => tbl!(extreme_num, extreme_num_r, name, x, ax), V::Is(x) => tbl!(extreme_num, extreme_num_r, name, x, ax), V::I8(x) => tbl!(extreme_num, extreme_num_r, name, x, ax), _ => skip() }); }
            if UNARY_NUM.contains(&name) { return Some(match g!(0) { V::I32(x) => tbl!(unary_num, unary_num_r, name, x), V::I64(x) => tbl!(unary_num, unary_num_r, name, x), V::U8(x) => tbl!(unary_num, unary_num_r, name, x), V::Us(x) => tbl!(unary_num, unary_num_r, name, x), V::F64(x) => tbl!(unary_num, unary_num_r, name, x), V::Is(x) => tbl!(unary_num, unary_num_r, name, x), V::I8(x) => tbl!(unary_num, unary_num_r, name, x), _ => skip() }); }
            if UNARY_OPS.contains(&name) { return Some(match g!(0) { V::I32(x) => tbl!(unary_ops, unary_ops_r, name, x), V::I64(x) => tbl!(unary_ops, unary_ops_r, name, x), V::F64(x) => tbl!(unary_ops, unary_ops_r, name, x), V::I8(x) => tbl!(unary_ops, unary_ops_r, name, x), _ => skip() }); }
            if UNARY_FLT.contains(&name) { return Some(match name { "signbit" => on_types!(g!(0), [F64], |x| x.signbit()), _ => on_types!(g!(0), [F64], |x| x.spacing()) }); }
            if BIN_NUM.contains(&name) { return Some(match (g!(0), g!(1)) { (V::I32(x), V::I32(y)) => tbl!(bin_num, bin_num_r, name, x, y), (V::I64(x), V::I64(y)) => tbl!(bin_num, bin_num_r, name, x, y), (V::U8(x), V::U8(y)) => tbl!(bin_num, bin_num_r, name, x, y),
                (V::Us(x), V::Us(y)) => tbl!(bin_num, bin_num_r, name, x, y), (V::F64(x), V::F64(y)) => tbl!(bin_num, bin_num_r, name, x, y), (V::Is(x), V::Is(y)) => tbl!(bin_num, bin_num_r, name, x, y), (V::I8(x), V::I8(y)) => tbl!(bin_num, bin_num_r, name, x, y), _ => skip() }); }
            if BIN_OPS.contains(&name) { return Some(match name { "atan2" => on_ops2!(g!(0), g!(1), |x, y| x.atan2(y)), _ => on_ops2!(g!(0), g!(1), |x, y| x.hypot(y)) }); }
            if BIN_FLT.contains(&name) { return Some(match name { "copysign" => on_types2!(g!(0), g!(1), [F64], |x, y| x.copysign(y)), _ => on_types2!(g!(0), g!(1), [F64], |x, y| x.nextafter(y)) }); }
            if name == "ldexp" { return Some(match (g!(0), g!(1)) { (V::F64(x), V::I32(y)) => { let p = fin(x.ldexp(y)); twin_run(|| { let r: Result<Array<f64>, ArrayError> = Ok(x.clone()); fin(r.ldexp(y)) }); p } _ => skip() }); }
            if name.starts_with("op_bit") { let j = if a.len() > 1 { 1 } else { 0 }; return Some(match (g!(0), g!(j)) { (V::I32(x), V::I32(y)) => operator_bits(name, x, y)?, (V::I64(x), V::I64(y)) => operator_bits(name, x, y)?,
                (V::U8(x), V::U8(y)) => operator_bits(name, x, y)?, (V::I8(x), V::I8(y)) => operator_bits(name, x, y)?, (V::Us(x), V::Us(y)) => operator_bits(name, x, y)?, (V::Is(x), V::Is(y)) => operator_bits(name, x, y)?, (V::B(x), V::B(y)) => operator_bits(name, x, y)?, _ => skip() }); }
            if name == "round" || name == "around" { return run_unmodelled(st, name, a, ty); }
            if name.starts_with("op_") { let j = if a.len() > 1 { 1 } else { 0 }; return Some(match (g!(0), g!(j)) { (V::I32(x), V::I32(y)) => operator_ops(name, x, y)?, (V::I64(x), V::I64(y)) => operator_ops(name, x, y)?,
                (V::F64(x), V::F64(y)) => operator_ops(name, x, y)?, _ => skip() }); }
            return None;
        }
    })
}

// ---------------------------------------------------------------- public operations outside the modelled set (monitor only)

/// operations that joined the store machine later (names without prefix); the string operations joined as `s.<name>`
const MODELLED_LATER: [&str; 13] = ["slice", "indices_at", "filter_map", "clip0", "clip1", "clip2", "ediff1d", "diff", "insert_axis", "convolve", "modf", "divmod", "frexp"];
/// modelled operations whose element VALUES are compared with the model as well (i64 chains whose values are the model's tags: the
/// generator appends the field `v` to the step, the driver then answers `A<shape>:<values>`)
const VALUE_TIED: [&str; 4] = ["ediff1d", "diff", "insert_axis", "convolve"];
/// strip the `u.` (monitor-only) / `s.` (string-array operation, modelled) prefix of a step name
fn base_of(op: &str) -> &str { op.strip_prefix("u.").or_else(|| op.strip_prefix("s.")).unwrap_or(op) }
/// a string-array operation (modelled `s.<name>`, or monitor-only `u.zfill`)
fn is_str_op(op: &str) -> bool { let b = base_of(op); OPS_STR.contains(&op) || ((op.starts_with("u.") || op.starts_with("s.")) && (STR_UNARY.contains(&b) || STR_BINARY.contains(&b) || b == "compare")) }
const STR_UNARY: [&str; 13] = ["capitalize", "lower", "upper", "swapcase", "str_len", "is_alpha", "is_alnum", "is_decimal", "is_numeric", "is_digit", "is_space", "is_lower", "is_upper"];
const STR_BINARY: [&str; 20] = ["add", "join", "partition", "rpartition", "equal", "not_equal", "greater_equal", "less_equal", "greater", "less", "count",
    "starts_with", "ends_with", "find", "rfind", "index", "rindex", "strip", "lstrip", "rstrip"];

fn str_ops(st: &[V], name: &str, a: &[&str]) -> Option<Out> {
    let x = match get(st, a[0]) { Some(V::S(x)) => x, _ => return None };
    both(str_ops_on(st, name, a, x), || { let r: Result<Array<String>, ArrayError> = Ok(x.clone()); str_ops_on_r(st, name, a, &r) })
}
macro_rules! dual_fn {
    ($plain:ident, $chained:ident, $elem:ty, |$st:ident, $name:ident, $a:ident, $x:ident| $body:block) => {
        fn $plain($st: &[V], $name: &str, $a: &[&str], $x: &Array<$elem>) -> Option<Out> $body
        fn $chained($st: &[V], $name: &str, $a: &[&str], $x: &Result<Array<$elem>, ArrayError>) -> Option<Out> $body
    };
}
dual_fn!(str_ops_on, str_ops_on_r, String, |st, name, a, x| {
    let sarg = |i: usize| -> Option<&Array<String>> { match get(st, a.get(i)?) { Some(V::S(y)) => Some(y), _ => None } };
    let uarg = |i: usize| -> Option<&Array<usize>> { match get(st, a.get(i)?) { Some(V::Us(y)) => Some(y), _ => None } };
    Some(match name {
        "capitalize" => fin(x.capitalize()), "lower" => fin(x.lower()), "upper" => fin(x.upper()), "swapcase" => fin(x.swapcase()), "str_len" => fin(x.str_len()),
        "is_alpha" => fin(x.is_alpha()), "is_alnum" => fin(x.is_alnum()), "is_decimal" => fin(x.is_decimal()), "is_numeric" => fin(x.is_numeric()),
        "is_digit" => fin(x.is_digit()), "is_space" => fin(x.is_space()), "is_lower" => fin(x.is_lower()), "is_upper" => fin(x.is_upper()),
        "zfill" => fin(x.zfill(us(a[1]))),
        "translate" => fin(x.translate(vec![('a', 'A'), ('l', '1'), (' ', '_')])),
        "splitlines" => fin(x.splitlines(match a.get(1) { Some(&"true") => Some(Array::single(true).unwrap()), Some(&"false") => Some(Array::single(false).unwrap()), _ => None })),
        "multiply" => { let n = match uarg(1) { Some(n) => n, None => return Some(skip()) }; fin(ArrayStringManipulate::multiply(x, n)) }
        "center" | "ljust" | "rjust" => {
            let w = match uarg(1) { Some(w) => w, None => return Some(skip()) };
            let fill = match a.get(2) { Some(&"none") | None => None, Some(c) => Some(Array::single(c.chars().next().unwrap_or('*')).unwrap()) };
            match name { "center" => fin(x.center(w, fill)), "ljust" => fin(x.ljust(w, fill)), _ => fin(x.rjust(w, fill)) }
        }
        "split" | "rsplit" => {
            let sep = sarg(1).cloned();
            let ms = match a.get(2) { Some(&"none") | None => None, Some(m) => Some(Array::single(us(m)).unwrap()) };
            if name == "split" { fin(ArrayStringManipulate::split(x, sep, ms)) } else { fin(x.rsplit(sep, ms)) }
        }
        "replace" => { let (o, n) = match (sarg(1), sarg(2)) { (Some(o), Some(n)) => (o, n), _ => return Some(skip()) }; fin(x.replace(o, n, ousz(a[3]))) }
        "compare" => { let y = match sarg(1) { Some(y) => y, None => return Some(skip()) }; let op = a[2].strip_prefix("o:").unwrap_or(a[2]); variant_run(AS_STRING, || fin(x.compare(y, op.to_string()))); fin(x.compare(y, op)) }
        _ => {
            if !STR_BINARY.contains(&name) { return None; }
            let y = match sarg(1) { Some(y) => y, None => return Some(skip()) };
            match name {
                "add" => fin(ArrayStringManipulate::add(x, y)), "join" => fin(x.join(y)), "partition" => fin(x.partition(y)), "rpartition" => fin(x.rpartition(y)),
                "equal" => fin(x.equal(y)), "not_equal" => fin(x.not_equal(y)), "greater_equal" => fin(x.greater_equal(y)), "less_equal" => fin(x.less_equal(y)),
                "greater" => fin(x.greater(y)), "less" => fin(x.less(y)), "count" => fin(ArrayStringIndexing::count(x, y)),
                "starts_with" => fin(x.starts_with(y)), "ends_with" => fin(x.ends_with(y)), "find" => fin(x.find(y)), "rfind" => fin(x.rfind(y)),
                "index" => fin(ArrayStringIndexing::index(x, y)), "rindex" => fin(x.rindex(y)),
                "strip" => fin(x.strip(Some(y.clone()))), "lstrip" => fin(x.lstrip(Some(y.clone()))), _ => fin(x.rstrip(Some(y.clone()))),
            }
        }
    })
});

table2!(linalg_ops, linalg_ops_r, [NumericOps], |name, x, y: Option<&Array<N>>, a: &[&str]| {
    Some(match name {
        "det" => fin(x.det()), "qr" => fin(x.qr()), "eigvals" => fin(x.eigvals()), "eig" => fin(x.eig()),
        "solve" => fin(x.solve(y?)),
        "norm" => { let ord: Option<&str> = if a[1] == "none" { None } else { Some(a[1]) }; if ord.is_some() { variant_run(AS_STRING, || fin(x.norm(ord.map(str::to_string), oil(a[2]), obool(a[3])))); } fin(x.norm(ord, oil(a[2]), obool(a[3]))) }
        "unwrap_phase" => fin(x.unwrap_phase(None, oisz(a[1]), None)),
        _ => return None,
    })
});
// `ediff1d|@a|to_end|to_begin` and `diff|@a|n|axis|prepend|append` (optional array arguments: a store position or `none`)
table2!(diff_ops, diff_ops_r, [NumericOps + FromV], |name, x, st: &[V], a: &[&str]| {
    let opt = |i: usize| -> Option<Option<Array<N>>> { match a.get(i) { None | Some(&"none") => Some(None), Some(r) => N::from_v(get(st, r)?).map(|y| Some(y.clone())) } };
    Some(match name {
        "ediff1d" => match (opt(1), opt(2)) { (Some(e), Some(b)) => fin(x.ediff1d(e, b)), _ => skip() },
        "diff" => match (opt(3), opt(4)) { (Some(p), Some(q)) => fin(x.diff(us(a[1]), oisz(a[2]), p, q)), _ => skip() },
        _ => return None,
    })
});
fn num_static<N: Numeric + FromV + 'static>(name: &str, x: &Array<N>, st: &[V], a: &[&str]) -> Option<Out> {
    let other = |i: usize| -> Option<&Array<N>> { N::from_v(get(st, a.get(i)?)?) };
    Some(match name {
        "linspace_a" => fin(Array::linspace_a(x, other(1)?, ousz(a[2]), obool(a[3]))),
        "geomspace_a" => fin(Array::geomspace_a(x, other(1)?, ousz(a[2]), obool(a[3]))),
        "logspace_a" => fin(Array::logspace_a(x, other(1)?, ousz(a[2]), obool(a[3]), None)),
        _ => return None,
    })
}
table2!(num_ops, num_ops_r, [Numeric + FromV], |name, x, st: &[V], a: &[&str]| {
    let other = |i: usize| -> Option<&Array<N>> { N::from_v(get(st, a.get(i)?)?) };
    Some(match name {
        "clip0" => fin(x.clip(None, None)),
        "clip1" => fin(x.clip(Some(other(1)?.clone()), None)),
        "clip2" => fin(x.clip(None, Some(other(1)?.clone()))),
        "round" | "around" => { let d = match get(st, a[1]) { Some(V::Is(d)) => d, _ => return Some(skip()) }; if name == "round" { fin(x.round(d)) } else { fin(x.around(d)) } }
        "modf" => fin(x.modf()), "divmod" => fin(x.divmod()),
        "convolve" => { if a[2] != "none" { let o = other(1)?; variant_run(AS_STRING, || fin(x.convolve(o, Some(a[2].to_string())))); } fin(x.convolve(other(1)?, if a[2] == "none" { None } else { Some(a[2]) })) }
        _ => return None,
    })
});

// ---------------------------------------------------------------- robustness streams, part 2: std traits of `Array` (monitor + native expectation)

fn bad(msg: String) { BAD.with(|b| b.borrow_mut().push(msg)); }
fn same_elem<T: ArrayElement>(x: &T, y: &T) -> bool { x == y || (x.is_nan() && y.is_nan()) }
/// `got` must be the flat array of exactly the items the iterator yields
fn chk_collect<T: ArrayElement>(want: &[T], hint: (usize, Option<usize>), got: &Array<T>, how: &str) {
    let shape = got.get_shape().unwrap_or_default();
    let el = got.get_elements().unwrap_or_default();
    if shape != vec![want.len()] || el.len() != want.len() {
        bad(format!("{how} of an iterator that yields {} items (size hint {:?}) returned an array of shape {:?} holding {} elements", want.len(), hint, shape, el.len()));
    } else if !el.iter().zip(want).all(|(x, y)| same_elem(x, y)) {
        bad(format!("{how} of an iterator that yields {} items returned other elements than the iterator yields", want.len()));
    }
    chk(got);
}
/// run a std-trait call that must not fail; a panic is a finding of its own (it is then re-raised: outcome class `panic`)
fn must_not_panic<R>(what: &str, f: impl FnOnce() -> R) -> R {
    match catch_unwind(AssertUnwindSafe(f)) { Ok(r) => r, Err(p) => { bad(format!("{what} panicked")); std::panic::resume_unwind(p) } }
}
/// the same iterator three ways: into a `Vec` (the reference), `collect::<Array<_>>()` and `Array::from_iter`
macro_rules! it3 { ($e:expr) => {{
    let hint__ = { let i__ = $e; i__.size_hint() };
    let want__: Vec<_> = $e.collect();
    let got__ = must_not_panic("collect::<Array<_>>()", || $e.collect::<Array<_>>());
    let got2__ = must_not_panic("Array::from_iter", || Array::from_iter($e));
    chk_collect(&want__, hint__, &got2__, "Array::from_iter");
    chk_collect(&want__, hint__, &got__, "collect::<Array<_>>()");
    Ok::<_, ArrayError>(got__)
}}; }
/// `z` must be an exact copy of `src`
fn same_as<T: ArrayElement>(z: &Array<T>, src: &Array<T>, how: &str) {
    let (zs, ss) = (z.get_shape().unwrap_or_default(), src.get_shape().unwrap_or_default());
    let (ze, se) = (z.get_elements().unwrap_or_default(), src.get_elements().unwrap_or_default());
    if zs != ss || ze.len() != se.len() { bad(format!("{how}: the copy has shape {:?} with {} elements, the source shape {:?} with {} elements", zs, ze.len(), ss, se.len())); }
    else if !ze.iter().zip(&se).all(|(x, y)| same_elem(x, y)) { bad(format!("{how}: the copy of an array of shape {:?} holds other elements than the source", ss)); }
    chk(z);
}
/// every way std reaches `Clone::clone_from` of an `Array`: the target `t` is overwritten with the source `s`
fn clone_from_how<T: ArrayElement>(t: &Array<T>, s: &Array<T>, how: &str) -> Result<Array<T>, ArrayError> {
    let what = format!("clone_from ({how}) of a target of shape {:?} from a source of shape {:?}", t.get_shape().unwrap_or_default(), s.get_shape().unwrap_or_default());
    let z = must_not_panic(&what, || -> Result<Array<T>, ArrayError> { Ok(match how {
        "direct" => { let mut z = t.clone(); z.clone_from(s); z }
        "twice" => { let mut z = t.clone(); z.clone_from(s); z.clone_from(t); z.clone_from(s); z }
        "into" => { let mut z = t.clone(); s.clone_into(&mut z); z }
        "option" => { let mut o = Some(t.clone()); o.clone_from(&Some(s.clone())); o.ok_or(ArrayError::NotImplemented)? }
        "box" => { let mut b = Box::new(t.clone()); b.clone_from(&Box::new(s.clone())); *b }
        "result" => { let mut r: Result<Array<T>, ArrayError> = Ok(t.clone()); r.clone_from(&Ok(s.clone())); r? }
        "vec1" => { let mut v = vec![t.clone()]; v.clone_from(&vec![s.clone()]); v.pop().ok_or(ArrayError::NotImplemented)? }
        "slice" => { let mut v = vec![t.clone()]; v.clone_from_slice(&[s.clone()]); v.pop().ok_or(ArrayError::NotImplemented)? }
        // aliasing: the source is a copy of the target itself
        "self" => { let mut z = t.clone(); let c = z.clone(); z.clone_from(&c); z.clone_from(s); z }
        _ => return Err(ArrayError::NotImplemented),
    }) })?;
    same_as(&z, s, &what);
    Ok(z)
}
fn clone_from_list_how<T: ArrayElement>(t: &[Array<T>], s: &[Array<T>], how: &str) -> Result<Vec<Array<T>>, ArrayError> {
    let sh = |l: &[Array<T>]| l.iter().map(|x| show_list(&x.get_shape().unwrap_or_default())).collect::<Vec<_>>().join("/");
    let what = format!("clone_from ({how}) of a list of shapes {} from a list of shapes {}", sh(t), sh(s));
    let v = must_not_panic(&what, || -> Result<Vec<Array<T>>, ArrayError> { Ok(match how {
        "vec" => { let mut v = t.to_vec(); v.clone_from(&s.to_vec()); v }
        "into" => { let mut v = t.to_vec(); s.clone_into(&mut v); v }
        "slice" => { if t.len() != s.len() { return Err(ArrayError::NotImplemented); } let mut v = t.to_vec(); v.clone_from_slice(s); v }
        "deque" => { let mut d: std::collections::VecDeque<Array<T>> = t.iter().cloned().collect(); d.clone_from(&s.iter().cloned().collect()); d.into_iter().collect() }
        "boxed" => { if t.len() != s.len() { return Err(ArrayError::NotImplemented); } let mut b: Box<[Array<T>]> = t.to_vec().into_boxed_slice(); b.clone_from(&s.to_vec().into_boxed_slice()); b.into_vec() }
        _ => return Err(ArrayError::NotImplemented),
    }) })?;
    if v.len() != s.len() { bad(format!("{what}: {} members instead of {}", v.len(), s.len())); }
    for (k, (z, src)) in v.iter().zip(s).enumerate() { same_as(z, src, &format!("{what}, member {k}")); }
    Ok(v)
}
/// two lists of one element type
macro_rules! on_list2 {
    ($lt:expr, $ls:expr, |$t:ident, $s:ident| $body:expr) => {{
        let (lt, ls): (&Vec<V>, &Vec<V>) = ($lt, $ls);
        macro_rules! go { ($ty:ty) => {{ match (arrs_of::<$ty>(lt), arrs_of::<$ty>(ls)) { (Some($t), Some($s)) => fin($body), _ => skip() } }}; }
        match ls.first().or(lt.first()) {
            None | Some(V::I32(_)) => go!(i32), Some(V::I64(_)) => go!(i64), Some(V::U8(_)) => go!(u8), Some(V::Us(_)) => go!(usize), Some(V::F64(_)) => go!(f64),
            Some(V::B(_)) => go!(bool), Some(V::S(_)) => go!(String), Some(V::T2(_)) => go!(T2), Some(V::Is(_)) => go!(isize), Some(V::I8(_)) => go!(i8), _ => skip(),
        }
    }};
}
fn re_map<T: ArrayElement>(x: &Array<T>) -> Result<Array<T>, ArrayError> {
    let plain = x.map(|e| e.clone())?;
    let z = x.map_e(|i, e| { if i % 7 == 0 { if let Ok(inner) = x.map(|f| f.clone()) { chk(&inner); } } e.clone() })?;
    same_as(&z, &plain, "map_e whose closure calls map on the same array"); Ok(z)
}
fn re_filter<T: ArrayElement>(x: &Array<T>, m: usize, t: usize) -> Result<Array<T>, ArrayError> {
    let plain = x.filter_e(|i, _| i % m < t)?;
    let z = x.filter_e(|i, _| { if i % 5 == 0 { if let Ok(inner) = x.filter_e(|j, _| j % 2 == 0) { chk(&inner); } } i % m < t })?;
    same_as(&z, &plain, "filter_e whose closure calls filter_e on the same array"); Ok(z)
}
fn re_filter_map<T: ArrayElement>(x: &Array<T>, m: usize, t: usize) -> Result<Array<T>, ArrayError> {
    let plain: Array<T> = x.filter_map_e(|i, e| if i % m < t { Some(e.clone()) } else { None })?;
    let z: Array<T> = x.filter_map_e(|i, e| { if i % 5 == 0 { let inner: Result<Array<T>, ArrayError> = x.filter_map_e(|j, f| if j % 3 == 0 { Some(f.clone()) } else { None }); if let Ok(inner) = inner { chk(&inner); } } if i % m < t { Some(e.clone()) } else { None } })?;
    same_as(&z, &plain, "filter_map_e whose closure calls filter_map_e on the same array"); Ok(z)
}
fn re_apply<T: ArrayElement>(x: &Array<T>, ax: usize) -> Result<Array<T>, ArrayError> {
    let plain = x.apply_along_axis(ax, |l| l.flip(None))?;
    let mut calls = 0usize;
    let z = x.apply_along_axis(ax, |l| { calls += 1; if calls % 4 == 1 { if let Ok(inner) = x.apply_along_axis(ax, |m| m.flip(None)) { chk(&inner); } } l.flip(None) })?;
    same_as(&z, &plain, "apply_along_axis whose closure calls apply_along_axis on the same array"); Ok(z)
}
fn re_fold<T: ArrayElement>(x: &Array<T>) -> Result<Array<T>, ArrayError> {
    let total = x.get_elements()?.len();
    let n = x.fold(0usize, |acc, _| { if acc % 9 == 0 { let inner = x.fold(0usize, |b, _| b + 1).unwrap_or(usize::MAX); if inner != total { bad(format!("fold inside fold visits {inner} of {total} elements")); } } acc + 1 })?;
    if n != total { bad(format!("fold whose closure calls fold visits {n} of {total} elements")); }
    x.ravel()
}
// ---------------------------------------------------------------- robustness streams, part 5 (class 23): closures whose answers change between calls

/// A closure with memory (the closure parameters of the crate are `FnMut`).  `cnt`: true when (number of earlier calls) % p < q
/// (`cnt 2 1` = every other call); `first`: true for the first p calls; `seen`: true for the first occurrence of a value; `budget`: true
/// for at most p non-zero elements; `run`: true when the element differs from the one offered before; `toggle`: a flag that flips on
/// every non-zero element.  The state also records whether the indices it was offered were 0, 1, 2, ... (`order_ok`).
struct St<T: ArrayElement> { kind: String, p: usize, q: usize, calls: usize, order_ok: bool, seen: Vec<T>, prev: Option<T>, left: usize, flag: bool }
impl<T: ArrayElement> St<T> {
    fn new(kind: &str, p: usize, q: usize) -> Self { St { kind: kind.to_string(), p, q, calls: 0, order_ok: true, seen: vec![], prev: None, left: p, flag: false } }
    fn ask(&mut self, i: Option<usize>, e: &T) -> bool {
        let k = self.calls; self.calls += 1;
        if let Some(i) = i { if i != k { self.order_ok = false; } }
        match self.kind.as_str() {
            "cnt" => k % self.p.max(1) < self.q,
            "first" => k < self.p,
            "seen" => if self.seen.iter().any(|s| same_elem(s, e)) { false } else { self.seen.push(e.clone()); true },
            "budget" => if self.left > 0 && !nz_is_zero(e) { self.left -= 1; true } else { false },
            "run" => { let start = self.prev.as_ref().map_or(true, |p| !same_elem(p, e)); self.prev = Some(e.clone()); start }
            "toggle" => { if !nz_is_zero(e) { self.flag = !self.flag; } self.flag }
            _ => true,
        }
    }
    /// the mapping closure built on the predicate: the element itself when the predicate says so, else the element offered one call earlier
    fn pass(&mut self, i: Option<usize>, e: &T) -> T {
        let held = self.prev.clone();
        let keep = self.ask(i, e);
        if self.kind != "run" { self.prev = Some(e.clone()); }
        if keep { e.clone() } else { held.unwrap_or_else(|| e.clone()) }
    }
}
/// A closure-taking operation driven with a stateful closure.  The expectation is what ONE call of the closure per element in flat
/// order gives (computed here on the element list with a fresh copy of the same closure state - it is also what the store machine's
/// `filterE` / `mapE` … compute): result shape, result elements, number of calls, indices offered.
fn st_run<T: ArrayElement + 'static>(op: &str, x: &Array<T>, kind: &str, p: usize, q: usize) -> Result<Array<T>, ArrayError> {
    let els = x.get_elements()?;
    let (n, shape) = (els.len(), x.get_shape()?);
    let filtering = op.starts_with("st_filter");
    let mut w = St::<T>::new(kind, p, q);
    let indexed = op.ends_with("_e");
    let want: Vec<T> = if filtering { els.iter().enumerate().filter(|(i, e)| w.ask(if indexed { Some(*i) } else { None }, e)).map(|(_, e)| e.clone()).collect() }
        else { els.iter().enumerate().map(|(i, e)| w.pass(if indexed { Some(i) } else { None }, e)).collect() };
    let want_shape = if filtering { vec![want.len()] } else { shape.clone() };
    let mut s = St::<T>::new(kind, p, q);
    let what = format!("{} with a stateful closure ({kind} {p} {q}) on an array of shape {:?}", &op[3..], shape);
    let got: Result<Array<T>, ArrayError> = must_not_panic(&what, || match op {
        "st_filter" => x.filter(|e| s.ask(None, e)),
        "st_filter_e" => x.filter_e(|i, e| s.ask(Some(i), e)),
        "st_filter_map" => x.filter_map(|e| if s.ask(None, e) { Some(e.clone()) } else { None }),
        "st_filter_map_e" => x.filter_map_e(|i, e| if s.ask(Some(i), e) { Some(e.clone()) } else { None }),
        "st_map" => x.map(|e| s.pass(None, e)),
        "st_map_e" => x.map_e(|i, e| s.pass(Some(i), e)),
        _ => Err(ArrayError::NotImplemented),
    });
    if s.calls != n { bad(format!("{what}: the closure was called {} times for {n} elements", s.calls)); }
    if !s.order_ok { bad(format!("{what}: the closure was not offered the indices 0, 1, 2, ... in this order")); }
    match &got {
        Err(_) => bad(format!("{what}: refused")),
        Ok(z) => {
            let (zs, ze) = (z.get_shape().unwrap_or_default(), z.get_elements().unwrap_or_default());
            if zs != want_shape || ze.len() != want.len() { bad(format!("{what}: one call per element in flat order gives shape {:?} with {} elements, the crate returned shape {:?} holding {} elements", want_shape, want.len(), zs, ze.len())); }
            else if !ze.iter().zip(&want).all(|(a, b)| same_elem(a, b)) { bad(format!("{what}: the result holds other elements than one call per element in flat order gives")); }
        }
    }
    got
}
/// `fold` / `for_each` / `for_each_e` with observing closures and unusual seeds: every element visited once, in flat order; the seed is
/// handed to the first call bit for bit and returned untouched by an array without elements
fn st_visit<T: ArrayElement + 'static>(op: &str, x: &Array<T>, seed: &str) -> Result<NoArr, ArrayError> {
    let els = x.get_elements()?;
    let n = els.len();
    let what = format!("{} with an observing closure on an array of shape {:?}", &op[3..], x.get_shape()?);
    let mut seen: Vec<T> = vec![];
    let mut order_ok = true;
    match op {
        "st_for_each" => { must_not_panic(&what, || x.for_each(|e| seen.push(e.clone())))?; }
        "st_for_each_e" => { must_not_panic(&what, || x.for_each_e(|i, e| { if i != seen.len() { order_ok = false; } seen.push(e.clone()); }))?; }
        _ => {
            let s0: f64 = match seed { "nan" => f64::NAN, "inf" => f64::INFINITY, "-inf" => f64::NEG_INFINITY, "-0" => -0.0, "max" => f64::MAX, "tiny" => 5e-324, _ => 0.0 };
            let mut first: Option<u64> = None;
            let r = must_not_panic(&what, || x.fold(s0, |acc: &f64, e: &T| { if first.is_none() { first = Some(acc.to_bits()); } seen.push(e.clone()); *acc + 1.0 }))?;
            let want = els.iter().fold(s0, |a, _| a + 1.0);
            if r.to_bits() != want.to_bits() { bad(format!("{what}: seed {seed} folded with `acc + 1.0` over {n} elements gives {want:?}, the crate returned {r:?}")); }
            if let Some(f) = first { if f != s0.to_bits() { bad(format!("{what}: the first call received {:?} instead of the seed {seed}", f64::from_bits(f))); } }
            // the accumulator as a visit counter (S = usize)
            let mut k = 0usize;
            let c = x.fold(0usize, |acc: &usize, _| { if *acc != k { order_ok = false; } k += 1; *acc + 1 })?;
            if c != n || k != n { bad(format!("{what}: a counting fold visits {k} elements and returns {c}, the array holds {n}")); }
        }
    }
    if seen.len() != n { bad(format!("{what}: the closure was called {} times for {n} elements", seen.len())); }
    else if !seen.iter().zip(&els).all(|(a, b)| same_elem(a, b)) { bad(format!("{what}: the elements were not visited in flat order")); }
    if !order_ok { bad(format!("{what}: the indices / accumulators offered were not 0, 1, 2, ...")); }
    Ok(NoArr)
}
/// lane closures with memory for `apply_along_axis`: `alt` reverses every other lane, `grow<k>` answers with lanes of changing length
/// (`cycle_take(k + calls % 2)`), `once<k>` answers the FIRST lane with `k` elements and the others unchanged
fn lane_st<T: ArrayElement + 'static>(f: &str) -> Option<Box<dyn FnMut(&Array<T>) -> Result<Array<T>, ArrayError>>> {
    let mut calls = 0usize;
    if f == "alt" { return Some(Box::new(move |x: &Array<T>| { calls += 1; if calls % 2 == 0 { x.flip(None) } else { Ok(x.clone()) } })); }
    if let Some(k) = f.strip_prefix("grow") { let k: usize = k.parse().ok()?; return Some(Box::new(move |x: &Array<T>| { calls += 1; x.cycle_take(k + calls % 2) })); }
    if let Some(k) = f.strip_prefix("once") { let k: usize = k.parse().ok()?; return Some(Box::new(move |x: &Array<T>| { calls += 1; if calls == 1 { x.cycle_take(k) } else { Ok(x.clone()) } })); }
    None
}
/// `apply_along_axis` with a stateful lane closure: the closure is called once per lane with a rank-1 lane of the axis length
fn st_apply<T: ArrayElement + 'static>(x: &Array<T>, ax: usize, f: &str) -> Result<Array<T>, ArrayError> {
    let shape = x.get_shape()?;
    let n: usize = shape.iter().product();
    let what = format!("apply_along_axis({ax}) with a stateful lane closure ({f}) on an array of shape {:?}", shape);
    let mut inner = lane_st::<T>(f).ok_or(ArrayError::NotImplemented)?;
    let (mut calls, mut lanes_ok) = (0usize, true);
    let got = x.apply_along_axis(ax, |l: &Array<T>| { calls += 1; if l.get_shape().ok() != shape.get(ax).map(|&d| vec![d]) { lanes_ok = false; } chk(l); inner(l) });
    if ax < shape.len() && n > 0 {
        if calls != n / shape[ax] { bad(format!("{what}: the closure was called {calls} times for {} lanes", n / shape[ax])); }
        if !lanes_ok { bad(format!("{what}: a lane handed to the closure is not a rank-1 array of the axis length")); }
        if f == "alt" { match &got { Ok(z) if z.get_shape().ok() == Some(shape.clone()) => {} Ok(z) => bad(format!("{what}: result shape {:?}", z.get_shape().unwrap_or_default())), Err(_) => bad(format!("{what}: refused")) } }
    }
    got
}

/// std-trait steps: `FromIterator` from every kind of iterator (exact, filtered, chained, cut short, unbounded, empty), `IntoIterator` by
/// value and by reference, `Clone::clone` / `clone_from` through every std path, and closures that re-enter the operation
fn run_std_traits(st: &[V], name: &str, a: &[&str], ty: &str) -> Option<Out> {
    macro_rules! g { ($i:expr) => { match get(st, a[$i]) { Some(v) => v, None => return Some(skip()) } }; }
    macro_rules! gl { ($i:expr) => { match getl(st, a[$i]) { Some(v) => v, None => return Some(skip()) } }; }
    let p = |i: usize| -> usize { a.get(i).and_then(|s| s.parse().ok()).unwrap_or(0) };
    Some(match name {
        // ---- constructors from plain iterators
        "it_empty" => ctor_all!(ty, |T| it3!(std::iter::empty::<T>())),
        "it_once" => ctor_all!(ty, |T| it3!(std::iter::once(<T as Elem>::tag(3)))),
        "it_range" => { let n = p(0) as i64; ctor_all!(ty, |T| it3!((0..n).map(<T as Elem>::tag))) }
        "it_range_filter" => { let (n, m, t) = (p(0) as i64, p(1).max(1) as i64, p(2) as i64); ctor_all!(ty, |T| it3!((0..n).filter(|i| i % m < t).map(<T as Elem>::tag))) }
        "it_unbounded" => { let n = p(0) as i64; ctor_all!(ty, |T| it3!((0i64..).take_while(|i| *i < n).map(<T as Elem>::tag))) }
        "it_from_fn" => { let n = p(0) as i64; ctor_all!(ty, |T| it3!({ let mut c = 0i64; std::iter::from_fn(move || { c += 1; if c <= n { Some(<T as Elem>::tag(c)) } else { None } }) })) }
        "it_huge_hint" => { let n = p(0); ctor_all!(ty, |T| it3!((0..usize::MAX).filter(|i| i % 2 == 0).take_while(|i| *i < 2 * n).map(|i| <T as Elem>::tag(i as i64)))) }
        "it_repeat_take" => { let n = p(0); ctor_all!(ty, |T| it3!(std::iter::repeat(<T as Elem>::tag(1)).take(n))) }
        // ---- from an array, by value and by reference
        "it_collect" => on_all_p!(g!(0), |x| it3!(x.clone().into_iter())),
        "it_ref" => on_all_p!(g!(0), |x| it3!(x.into_iter().cloned())),
        "it_for" => on_all_p!(g!(0), |x| { let mut v = vec![]; for e in x { v.push(e.clone()); } let mut w = vec![]; for e in x.clone() { w.push(e); }
            if v.len() != w.len() { bad(format!("`for e in &array` visits {} elements, `for e in array` {}", v.len(), w.len())); } it3!(v.clone().into_iter().chain(w.clone()).skip(w.len())) }),
        "it_rev" => on_all_p!(g!(0), |x| it3!(x.clone().into_iter().rev())),
        "it_filter" => { let (m, t) = (p(1).max(1), p(2)); on_all_p!(g!(0), |x| it3!(x.clone().into_iter().enumerate().filter(|(i, _)| i % m < t).map(|q| q.1))) }
        "it_filter_ref" => { let (m, t) = (p(1).max(1), p(2)); on_all_p!(g!(0), |x| it3!(x.into_iter().enumerate().filter(|(i, _)| i % m < t).map(|q| q.1.clone()))) }
        "it_filter_map" => { let (m, t) = (p(1).max(1), p(2)); on_all_p!(g!(0), |x| it3!(x.into_iter().enumerate().filter_map(|(i, e)| if i % m < t { Some(e.clone()) } else { None }))) }
        "it_flatten" => { let (m, t) = (p(1).max(1), p(2)); on_all_p!(g!(0), |x| it3!(x.clone().into_iter().enumerate().map(|(i, e)| if i % m < t { Some(e) } else { None }).flatten())) }
        "it_take_while" => { let k = p(1); on_all_p!(g!(0), |x| it3!(x.clone().into_iter().enumerate().take_while(|(i, _)| *i < k).map(|q| q.1))) }
        "it_skip_while" => { let k = p(1); on_all_p!(g!(0), |x| it3!(x.clone().into_iter().enumerate().skip_while(|(i, _)| *i < k).map(|q| q.1))) }
        "it_map_while" => { let k = p(1); on_all_p!(g!(0), |x| it3!(x.clone().into_iter().enumerate().map_while(|(i, e)| if i < k { Some(e) } else { None }))) }
        "it_scan" => { let k = p(1); on_all_p!(g!(0), |x| it3!(x.clone().into_iter().scan(0usize, |c, e| { *c += 1; if *c > k { None } else { Some(e) } }))) }
        "it_skip" => { let k = p(1); on_all_p!(g!(0), |x| it3!(x.clone().into_iter().skip(k))) }
        "it_take" => { let k = p(1); on_all_p!(g!(0), |x| it3!(x.clone().into_iter().take(k))) }
        "it_step_by" => { let m = p(1).max(1); on_all_p!(g!(0), |x| it3!(x.clone().into_iter().step_by(m))) }
        "it_cycle_take" => { let k = p(1); on_all_p!(g!(0), |x| it3!(x.clone().into_iter().cycle().take(k))) }
        "it_flat_map" => { let k = p(1); on_all_p!(g!(0), |x| it3!(x.clone().into_iter().flat_map(|e| vec![e; k]))) }
        "it_peek_fuse" => { let k = p(1); on_all_p!(g!(0), |x| it3!({ let mut i = x.clone().into_iter().peekable(); for _ in 0..k { if i.peek().is_some() { i.next(); } } i.fuse() })) }
        "it_chain" => on_all2_p!(g!(0), g!(1), |x, y| it3!(x.clone().into_iter().chain(y.clone()))),
        "it_chain_filter" => { let (m, t) = (p(2).max(1), p(3)); on_all2_p!(g!(0), g!(1), |x, y| it3!(x.clone().into_iter().chain(y.into_iter().cloned()).enumerate().filter(|(i, _)| i % m < t).map(|q| q.1))) }
        "it_zip_first" => on_all2_p!(g!(0), g!(1), |x, y| it3!(x.clone().into_iter().zip(y.into_iter()).map(|q| q.0))),
        // ---- Clone
        "clone" => on_all_p!(g!(0), |x| { let z = must_not_panic("clone()", || x.clone()); same_as(&z, x, "clone()"); let w = z.clone(); same_as(&w, x, "clone() of a clone"); Ok::<_, ArrayError>(z) }),
        "clone_from" => on_all2_p!(g!(0), g!(1), |t, s| clone_from_how(t, s, a[2])),
        "clone_from_list" => on_list2!(&gl!(0), &gl!(1), |t, s| clone_from_list_how(&t, &s, a[2])),
        // ---- closures that call the operation under test themselves; the outer result must be the plain result
        "re_map" => on_all_p!(g!(0), |x| re_map(x)),
        "re_filter" => { let (m, t) = (p(1).max(1), p(2)); on_all_p!(g!(0), |x| re_filter(x, m, t)) }
        "re_filter_map" => { let (m, t) = (p(1).max(1), p(2)); on_all_p!(g!(0), |x| re_filter_map(x, m, t)) }
        "re_apply" => { let ax = p(1); on_all_p!(g!(0), |x| re_apply(x, ax)) }
        "re_fold" => on_all_p!(g!(0), |x| re_fold(x)),
        // ---- closures whose answers change between calls (class 23)
        "st_filter" | "st_filter_e" | "st_filter_map" | "st_filter_map_e" | "st_map" | "st_map_e" => { let (k, pp, q) = (a.get(1).copied().unwrap_or("cnt"), p(2), p(3)); on_all_p!(g!(0), |x| st_run(name, x, k, pp, q)) }
        "st_fold" | "st_for_each" | "st_for_each_e" => { let seed = a.get(1).copied().unwrap_or("0"); on_all_p!(g!(0), |x| st_visit(name, x, seed)) }
        "st_apply" => { let (ax, f) = (p(1), a.get(2).copied().unwrap_or("alt")); on_all_p!(g!(0), |x| st_apply(x, ax, f)) }
        _ => return None,
    })
}

fn run_unmodelled(st: &[V], name: &str, a: &[&str], ty: &str) -> Option<Out> {
    if name.starts_with("it_") || name.starts_with("clone") || name.starts_with("re_") || name.starts_with("st_") { return run_std_traits(st, name, a, ty); }
    if !a.is_empty() { if let Some(o) = str_ops(st, name, a) { return Some(o); } }
    macro_rules! g { ($i:expr) => { match get(st, a[$i]) { Some(v) => v, None => return Some(skip()) } }; }
    Some(match name {
        "slice" => on_all!(g!(0), |x| x.slice(us(a[1])..us(a[2]))),
        "indices_at" => on_all!(g!(0), |x| x.indices_at(&ul(a[1]))),
        "insert_axis" => on_all2!(g!(0), g!(2), |x, y| x.insert(&ul(a[1]), y, ousz(a[3]))),
        "for_each" => on_all_p!(g!(0), |x| { let mut n = 0usize; x.for_each(|_| n += 1).map(|_| NoArr) }),
        "fold" => on_all_p!(g!(0), |x| x.fold(0usize, |acc, _| acc + 1).map(|_| NoArr)),
        "filter_map" if a.get(3) != Some(&"cnt") => on_all_p!(g!(0), |x| x.filter_map(|e| if nz_is_zero(e) { None } else { Some(e.clone()) })),
        "frexp" => on_types!(g!(0), [F64], |x| x.frexp()),
        "logspace" => ctor_num!(ty, |T| Array::<T>::logspace(<T as Numeric>::from_f64(a[0].parse().unwrap()), <T as Numeric>::from_f64(a[1].parse().unwrap()), ousz(a[2]), obool(a[3]), None)),
        "geomspace" => ctor_num!(ty, |T| Array::<T>::geomspace(<T as Numeric>::from_f64(a[0].parse().unwrap()), <T as Numeric>::from_f64(a[1].parse().unwrap()), ousz(a[2]), obool(a[3]))),
        "diff" | "ediff1d" => {
            let r = match g!(0) {
                V::I32(x) => both(diff_ops(name, x, st, a), || diff_ops_r(name, &Ok(x.clone()), st, a)), V::I64(x) => both(diff_ops(name, x, st, a), || diff_ops_r(name, &Ok(x.clone()), st, a)),
                V::F64(x) => both(diff_ops(name, x, st, a), || diff_ops_r(name, &Ok(x.clone()), st, a)), V::I8(x) => both(diff_ops(name, x, st, a), || diff_ops_r(name, &Ok(x.clone()), st, a)), _ => Some(skip()) };
            r.unwrap_or_else(skip)
        }
        "det" | "qr" | "eigvals" | "eig" | "solve" | "norm" | "unwrap_phase" => {
            let r = match (g!(0), a.get(1).and_then(|s| get(st, s))) {
                (V::I32(x), y) => both(linalg_ops(name, x, y.and_then(FromV::from_v), a), || linalg_ops_r(name, &Ok(x.clone()), y.and_then(FromV::from_v), a)), (V::I64(x), y) => both(linalg_ops(name, x, y.and_then(FromV::from_v), a), || linalg_ops_r(name, &Ok(x.clone()), y.and_then(FromV::from_v), a)),
                (V::F64(x), y) => both(linalg_ops(name, x, y.and_then(FromV::from_v), a), || linalg_ops_r(name, &Ok(x.clone()), y.and_then(FromV::from_v), a)), _ => Some(skip()) };
            r.unwrap_or_else(skip)
        }
        "clip0" | "clip1" | "clip2" | "round" | "around" | "modf" | "divmod" | "convolve" | "linspace_a" | "geomspace_a" | "logspace_a" => {
            macro_rules! nn { ($x:ident) => { if name.ends_with("space_a") { num_static(name, $x, st, a) } else { both(num_ops(name, $x, st, a), || num_ops_r(name, &Ok($x.clone()), st, a)) } } }
            let r = match g!(0) { V::I32(x) => nn!(x), V::I64(x) => nn!(x), V::U8(x) => nn!(x), V::Us(x) => nn!(x), V::F64(x) => nn!(x), V::Is(x) => nn!(x), V::I8(x) => nn!(x), _ => Some(skip()) };
            r.unwrap_or_else(skip)
        }
        _ => return run_modelled(st, name, a, ty),
    })
}

/// run one step text on the real crate (panic -> class `panic`); the monitor findings of the step are appended to `bad`
fn run_step(st: &[V], step: &str, bad: &mut Vec<String>) -> Out {
    let fields: Vec<&str> = step.split('|').collect();
    let name = fields[0];
    let ty = ty_field(&fields[1..]);
    let a: Vec<&str> = fields[1..].iter().copied().filter(|f| !f.starts_with('#') && !f.starts_with('=')).collect();
    BAD.with(|b| b.borrow_mut().clear());
    TWIN.with(|t| t.borrow_mut().clear());
    IN_TWIN.with(|c| c.set(None));
    let r = catch_unwind(AssertUnwindSafe(|| match name.strip_prefix("u.").or_else(|| name.strip_prefix("s.")) { Some(n) => run_unmodelled(st, n, &a, ty), None => run_modelled(st, name, &a, ty) }));
    IN_TWIN.with(|c| c.set(None));
    // the property's own finding (an inconsistent array) is reported before the native expectations of the same step
    BAD.with(|b| { let mut m: Vec<String> = b.borrow_mut().drain(..).collect(); m.sort_by_key(|x| !x.contains("inconsistent array")); bad.extend(m); });
    let twins: Vec<(&'static str, String)> = TWIN.with(|t| t.borrow_mut().drain(..).collect());
    let o = match r { Ok(Some(o)) => o, Ok(None) => Out { cls: "unknown", v: V::Nil }, Err(_) => Out { cls: "panic", v: V::Nil } };
    // both receivers: the chained call on Ok(array) must answer like the plain call (outcome class and shapes)
    if o.cls == "ok" || o.cls == "err" {
        let plain = record(&o);
        for (how, t) in twins { if t != plain { bad.push(format!("answers {} but the same call {} answers {} (A/L = shapes, E = error, P = panic)", plain, how, t)); } }
    }
    o
}

// ---------------------------------------------------------------- gen: typed random chains, built by running them

const TYPES: [&str; 8] = ["i32", "i64", "u8", "usize", "f64", "bool", "str", "t2"];
/// the robustness stream adds the third byte-sized element type
const TYPES2: [&str; 10] = ["i32", "i64", "u8", "usize", "f64", "bool", "str", "t2", "i8", "u8"];
/// operations whose result VALUES are the model's values when the inputs' are (element type i64)
const FAITHFUL: [&str; 62] = ["ediff1d", "diff", "insert_axis", "convolve", "new", "create", "single", "flat", "empty", "zeros", "ones", "full", "zeros_like", "ones_like", "full_like", "eye", "identity", "tri",
    "diag", "diagflat", "tril", "triu", "transpose", "moveaxis", "rollaxis", "swapaxes", "expand_dims", "squeeze", "reshape", "resize", "ravel", "atleast",
    "cycle_take", "apply_along_axis", "broadcast_to", "broadcast_arrays", "array_split", "split", "split_axis", "hsplit", "vsplit", "dsplit", "member",
    "concatenate", "stack", "vstack", "hstack", "dstack", "column_stack", "row_stack", "flip", "flipud", "fliplr", "roll", "rot90", "delete", "insert", "append",
    "repeat", "trim_zeros", "filter_e", "filter_map_e"];
/// modelled operations whose outcome class / shape depends on element VALUES: modelled only on value-faithful inputs, `u.` otherwise
const VALDEP: [&str; 10] = ["filter_map", "trim_zeros", "filter", "unique", "divide", "true_divide", "fmod", "remainder", "mod", "floor_divide"];

const CTORS: [&str; 16] = ["new", "create", "single", "flat", "empty", "zeros", "ones", "full", "rand", "eye", "identity", "tri", "arange", "linspace", "u.logspace", "u.geomspace"];
const OPS_ALL: [&str; 56] = ["transpose", "moveaxis", "rollaxis", "swapaxes", "expand_dims", "squeeze", "reshape", "resize", "ravel", "atleast", "cycle_take",
    "apply_along_axis", "broadcast_to", "broadcast", "broadcast_arrays", "zip", "array_split", "split", "split_axis", "hsplit", "vsplit", "dsplit", "member",
    "concatenate", "stack", "vstack", "hstack", "dstack", "column_stack", "row_stack", "flip", "flipud", "fliplr", "roll", "rot90", "delete", "insert", "append",
    "repeat", "trim_zeros", "map", "map_e", "filter_e", "filter_map_e", "filter", "count_nonzero", "argmax", "argmin", "sort", "argsort", "unique",
    "slice", "indices_at", "insert_axis", "u.for_each", "filter_map"];
const OPS_NUM_EXTRA: [&str; 17] = ["zeros_like", "ones_like", "full_like", "diag", "diagflat", "tril", "triu", "vander", "clip", "clip0", "clip1", "clip2", "round", "modf",
    "divmod", "convolve", "u.linspace_a"];
const OPS_OPS_EXTRA: [&str; 16] = ["vdot", "outer", "inner", "matmul", "dot", "op_neg", "u.det", "u.qr", "u.eigvals", "u.eig", "u.solve", "u.norm", "diff", "ediff1d", "u.unwrap_phase", "u.fold"];
const OPS_STR: [&str; 10] = ["u.zfill", "s.translate", "s.splitlines", "s.multiply", "s.center", "s.ljust", "s.rjust", "s.split", "s.rsplit", "s.replace"];

/// robustness streams part 2: steps through the std traits of `Array` (`u.` = outside the modelled set: C01 monitor + native expectation)
const OPS_STD: [&str; 41] = ["u.it_empty", "u.it_once", "u.it_range", "u.it_range_filter", "u.it_unbounded", "u.it_from_fn", "u.it_huge_hint", "u.it_repeat_take",
    "u.it_collect", "u.it_ref", "u.it_for", "u.it_rev", "u.it_filter", "u.it_filter_ref", "u.it_filter_map", "u.it_flatten", "u.it_take_while", "u.it_skip_while", "u.it_map_while",
    "u.it_scan", "u.it_skip", "u.it_take", "u.it_step_by", "u.it_cycle_take", "u.it_flat_map", "u.it_peek_fuse", "u.it_chain", "u.it_chain_filter", "u.it_zip_first",
    "u.clone", "u.clone_from", "u.clone_from", "u.clone_from", "u.clone_from_list", "u.clone_from_list", "u.re_map", "u.re_filter", "u.re_filter_map", "u.re_apply", "u.re_fold", "u.it_filter"];
/// robustness streams part 5: closure-taking operations driven with closures that remember their earlier calls (`u.` = monitor + native expectation)
const OPS_ST: [&str; 10] = ["u.st_filter", "u.st_filter_e", "u.st_filter_map", "u.st_filter_map_e", "u.st_map", "u.st_map_e", "u.st_fold", "u.st_for_each", "u.st_for_each_e", "u.st_apply"];
/// operations that get long, unsorted, mixed-spelling argument lists in the part-2 streams
const OPS_LONG: [&str; 20] = ["transpose", "moveaxis", "expand_dims", "squeeze", "flip", "roll", "delete", "insert", "atleast", "array_split", "split", "concatenate", "stack",
    "vstack", "hstack", "dstack", "column_stack", "row_stack", "broadcast_arrays", "reshape"];

fn is_num(t: &str) -> bool { matches!(t, "i32" | "i64" | "u8" | "usize" | "f64" | "isize" | "i8") }
fn is_ops(t: &str) -> bool { matches!(t, "i32" | "i64" | "f64") }
fn is_int(t: &str) -> bool { matches!(t, "i32" | "i64" | "u8" | "usize" | "isize" | "bool" | "i8") }

struct G { rng: Rng, steps: Vec<String>, store: Vec<V>, faithful: Vec<bool>, ty: &'static str, wide: bool, big: bool,
    /// robustness streams part 2: ranks up to 8, long unsorted argument lists, aliased operands, the std-trait steps
    r3: bool,
    /// robustness streams part 5: closures with memory in place of the pure ones, axis lists that name one axis in both spellings
    r5: bool }

impl G {
    fn new(seed: u64, ty: &'static str) -> G { G { rng: Rng::new(seed), steps: vec![], store: vec![], faithful: vec![], ty, wide: false, big: false, r3: false, r5: false } }
    fn coin(&mut self, pct: usize) -> bool { self.rng.below(100) < pct }
    fn dim(&mut self) -> usize {
        // robustness stream: zero-length axes far more often (and in any position), axis lengths 6..17
        if self.wide { return match self.rng.below(20) { 0..=2 => 0, 3..=6 => 1, 7..=10 => 2, 11..=13 => 3, 14 => 4, 15 => 5, 16 => 6, 17 => 8, _ => 7 + self.rng.below(11) }; }
        match self.rng.below(20) { 0 => 0, 1..=4 => 1, 5..=10 => 2, 11..=15 => 3, 16..=18 => 4, _ => 5 }
    }
    fn shape(&mut self) -> Vec<usize> {
        if self.r3 {
            // ranks 5..8 with short axes; one axis of 65..130 (more than 64 parts); otherwise as usual
            match self.rng.below(10) {
                0..=2 => loop { let r = 5 + self.rng.below(4); let s: Vec<usize> = (0..r).map(|_| match self.rng.below(20) { 0 => 0, 1..=8 => 1, 9..=16 => 2, _ => 3 }).collect(); if s.iter().product::<usize>() <= 600 { return s; } },
                3 => { let l: [&[usize]; 8] = [&[70], &[130], &[2, 66], &[65, 2], &[67, 1, 2], &[1, 129], &[3, 65], &[66, 1, 1, 2]]; return l[self.rng.below(l.len())].to_vec(); }
                _ => {}
            }
        }
        if self.wide && self.coin(12) { let mut l = zero_shapes(); l.extend([vec![6, 6], vec![5, 7], vec![33], vec![2, 3, 7], vec![17, 2], vec![3, 0, 2], vec![1, 0, 1], vec![0, 3, 1]]); return l[self.rng.below(l.len())].clone(); }
        let r = match self.rng.below(20) { 0 => 0, 1..=5 => 1, 6..=12 => 2, 13..=17 => 3, _ => 4 };
        (0..r).map(|_| self.dim()).collect()
    }
    /// run the step on the real crate, record it (unmodelled steps get the observed result shape appended)
    fn push(&mut self, step: String) -> usize {
        if std::env::var_os("C01_TRACE").is_some() { eprintln!("{} || {}", self.steps.join(" "), step); }
        let mut bad = vec![];
        let t0 = std::time::Instant::now();
        let o = run_step(&self.store, &step, &mut bad);
        if std::env::var_os("C01_TIME").is_some() && t0.elapsed().as_millis() > 150 { eprintln!("{} ms  {}  (on {})", t0.elapsed().as_millis(), step, self.steps.first().map_or("", |s| s.as_str())); }
        let name = label_of(&step).to_string();
        let refs = step_refs(&step);
        let text = if name.starts_with("u.") { let r = record(&o); format!("{}|={}", step, if matches!(r.as_str(), "E" | "P" | "S" | "N") { "N".to_string() } else { ext_field(&r) }) } else { step };
        // (the lane closure `alt` reverses every other lane, the model's stand-in every lane: same shape, other values)
        let f = FAITHFUL.contains(&name.as_str()) && !(name == "apply_along_axis" && text.ends_with("|alt")) && refs.iter().all(|&r| self.faithful.get(r).copied().unwrap_or(false))
            && (matches!(&o.v, V::I64(_)) || matches!(&o.v, V::L(l) if l.iter().all(|x| matches!(x, V::I64(_)))));
        self.steps.push(text);
        self.store.push(if o.cls == "ok" { o.v } else { V::Nil });
        self.faithful.push(f);
        self.store.len() - 1
    }
    fn arrays(&self, pred: &dyn Fn(&str) -> bool) -> Vec<usize> {
        (0..self.store.len()).filter(|&i| match &self.store[i] { V::L(_) | V::Opq(_) | V::Nil => false,
            v => pred(ty_of(v)) && shape_of(v).map_or(false, |s| s.iter().product::<usize>() <= (if self.big { 10000 } else { 400 }) && s.len() <= (if self.r3 { 9 } else { 6 })) }).collect()
    }
    fn pick(&mut self, pred: &dyn Fn(&str) -> bool) -> Option<usize> {
        let c = self.arrays(pred);
        if c.is_empty() { return None; }
        if self.coin(65) { let k = c.len().min(3); Some(c[c.len() - 1 - self.rng.below(k)]) } else { Some(c[self.rng.below(c.len())]) }
    }
    fn sh(&self, i: usize) -> Vec<usize> { shape_of(&self.store[i]).unwrap_or_default() }
    fn tyi(&self, i: usize) -> &'static str { ty_of(&self.store[i]) }
    /// a fresh array of the element type of entry `i` with the given shape
    fn fresh(&mut self, ty: &str, shape: &[usize]) -> usize {
        let n: usize = shape.iter().product();
        let off = self.rng.range(-3, 20);
        self.push(format!("new|{}|{}|{}|#{}", n, off, show_list(shape), ty))
    }
    fn axis(&mut self, r: usize) -> isize {
        if r == 0 || self.coin(7) { return self.rng.range(-(r as i64) - 2, r as i64 + 1) as isize; }
        self.rng.range(-(r as i64), r as i64 - 1) as isize
    }
    fn uaxis(&mut self, r: usize) -> usize { if r == 0 || self.coin(7) { r + self.rng.below(2) } else { self.rng.below(r) } }
    fn oaxis(&mut self, r: usize) -> String { if self.coin(30) { "none".into() } else { self.axis(r).to_string() } }
    fn ouaxis(&mut self, r: usize) -> String { if self.coin(30) { "none".into() } else { self.uaxis(r).to_string() } }
    fn kd(&mut self) -> &'static str { *self.rng.pick(&["none", "true", "false"]) }
    /// a shape that broadcasts with `s` (mostly)
    fn compat(&mut self, s: &[usize]) -> Vec<usize> {
        match self.rng.below(10) {
            0..=3 => s.to_vec(),
            4..=5 => s.iter().map(|&d| if self.rng.below(2) == 0 { 1 } else { d }).collect(),
            6 => { let k = self.rng.below(s.len() + 1); s[k..].to_vec() }
            7 => vec![1],
            8 => { let mut t = vec![self.rng.below(3) + 1]; t.extend_from_slice(s); t }
            _ => self.shape(),
        }
    }
    fn partner(&mut self, i: usize, shape: Vec<usize>) -> usize {
        // aliasing: the SAME array on both sides of the operation
        if self.r3 && self.coin(18) { return i; }
        let ty = self.tyi(i);
        let c: Vec<usize> = self.arrays(&|t| t == ty).into_iter().filter(|&j| self.sh(j) == shape).collect();
        if !c.is_empty() && self.coin(50) { c[self.rng.below(c.len())] } else { self.fresh(ty, &shape) }
    }
    fn sublist(&mut self, n: usize, max: usize) -> Vec<usize> { let k = self.rng.below(max + 1); (0..k).map(|_| self.rng.below(n.max(1) + 1)).collect() }

    /// emit one step of operation `op` (plus helper constructor steps); false = not applicable now
    fn emit(&mut self, op: &str) -> bool {
        if OPS_STD.contains(&op) { return self.emit_std(op); }
        if OPS_ST.contains(&op) { return self.emit_st(op); }
        let base = base_of(op).to_string();
        let b = base.as_str();
        let ty = self.ty;
        // ----- constructors
        if CTORS.contains(&op) {
            let numeric = is_num(ty);
            let s = self.shape();
            let n: usize = s.iter().product();
            let step = match b {
                "new" => { let n2 = if self.coin(8) { n + 1 + self.rng.below(2) } else { n }; format!("new|{}|{}|{}|#{}", n2, self.rng.range(-3, 9), show_list(&s), ty) }
                "create" => { let n2 = if self.coin(8) { n + 1 } else { n }; let nd = if self.coin(40) { "none".to_string() } else { self.rng.below(6).to_string() }; format!("create|{}|{}|{}|#{}", n2, show_list(&s), nd, ty) }
                "single" => format!("single|#{}", ty),
                "flat" => format!("flat|{}|#{}", self.rng.below(9), ty),
                "empty" => format!("empty|#{}", ty),
                _ if !numeric => return false,
                "zeros" | "ones" | "full" | "rand" => format!("{}|{}|#{}", b, show_list(&s), ty),
                "eye" => { let m = if self.coin(40) { "none".to_string() } else { self.rng.below(5).to_string() }; let k = if self.coin(50) { "none".to_string() } else { self.rng.below(4).to_string() };
                    format!("eye|{}|{}|{}|#{}", self.rng.below(5), m, k, ty) }
                "identity" => format!("identity|{}|#{}", self.rng.below(5), ty),
                "tri" => { let m = if self.coin(40) { "none".to_string() } else { self.rng.below(5).to_string() }; let k = if self.coin(40) { "none".to_string() } else { self.rng.range(-3, 3).to_string() };
                    format!("tri|{}|{}|{}|#{}", self.rng.below(5), m, k, ty) }
                "arange" => { let a = self.rng.below(4); let st = if self.coin(40) { "none".to_string() } else { (1 + self.rng.below(3)).to_string() }; format!("arange|{}|{}|{}|#{}", a, a + self.rng.below(9), st, ty) }
                "linspace" => { let a = self.rng.below(4); let num = if self.coin(20) { "none".to_string() } else { (1 + self.rng.below(7)).to_string() };
                    format!("linspace|{}|{}|{}|{}|#{}", a, a + self.rng.below(9), num, self.kd(), ty) }
                _ => { let num = if self.coin(20) { "none".to_string() } else { (1 + self.rng.below(6)).to_string() }; format!("{}|{}|{}|{}|{}|#{}", op, 1 + self.rng.below(3), 1 + self.rng.below(4), num, self.kd(), ty) }
            };
            self.push(step);
            return true;
        }
        // ----- operand
        let class: &dyn Fn(&str) -> bool = if is_str_op(op) { &|t| t == "str" }
            else if OPS_ALL.contains(&op) { &|_| true }
            else if OPS_OPS_EXTRA.contains(&op) || FOLD_OPS.contains(&b) || SCAN_OPS.contains(&b) || UNARY_OPS.contains(&b) || BIN_OPS.contains(&b) || (b.starts_with("op_") && !b.starts_with("op_bit") && b != "op_not") { &is_ops }
            else if b.starts_with("op_bit") { &is_int }
            else if b == "op_not" { &|t| t == "bool" }
            else if UNARY_FLT.contains(&b) || BIN_FLT.contains(&b) || b == "ldexp" || b == "frexp" { &|t| t == "f64" }
            else if b == "unpack_bits" || b == "pack_bits" { &|t| t == "u8" }
            else { &is_num };
        if b == "member" {
            let ls: Vec<usize> = (0..self.store.len()).filter(|&i| matches!(&self.store[i], V::L(l) if !l.is_empty())).collect();
            if ls.is_empty() { return false; }
            let l = ls[self.rng.below(ls.len())];
            let n = if let V::L(x) = &self.store[l] { x.len() } else { 0 };
            let j = if self.coin(5) { n } else { self.rng.below(n) };
            self.push(format!("member|@{}|{}", l, j));
            return true;
        }
        let mut i = match self.pick(class) { Some(i) => i, None => return false };
        if ["det", "qr", "eigvals", "eig", "solve"].contains(&b) && self.coin(70) {
            // a square, non-singular matrix of the operand's element type (lower-triangular ones, sometimes flipped / stacked)
            let t = self.tyi(i); let n = 1 + self.rng.below(4);
            i = self.push(format!("tri|{}|none|none|#{}", n, t));
            if self.coin(30) { i = self.push(format!("flipud|@{}", i)); }
            if self.coin(15) { i = self.push(format!("stack|@{},{}|0", i, i)); }
        }
        let s = self.sh(i);
        // determinant by cofactor expansion / eigen iterations: keep the matrices small (cost, not correctness)
        if ["det", "qr", "eigvals", "eig", "solve", "norm"].contains(&b) && s.iter().any(|&d| d > 5) { return false; }
        let r = s.len();
        let n: usize = s.iter().product();
        let t = self.tyi(i);
        // value-dependent modelled operations are modelled only on value-faithful inputs
        let mut name = op.to_string();
        let step = match b {
            "split" | "rsplit" if op.starts_with("s.") => { let sep = if self.coin(40) { "none".to_string() } else { let ps = self.compat(&s); format!("@{}", self.partner(i, ps)) };
                format!("@{}|{}|{}", i, sep, *self.rng.pick(&["none", "0", "1", "2"])) }
            "transpose" => { let ax = if self.coin(35) { "none".to_string() } else { let p = self.rng.perm(r); let mut v: Vec<isize> = p.iter().map(|&x| if self.rng.below(4) == 0 { x as isize - r as isize } else { x as isize }).collect();
                    if self.coin(6) && r > 0 { v[0] = r as isize; } show_list(&v) }; format!("@{}|{}", i, ax) }
            "moveaxis" => { let k = if r == 0 { 0 } else { 1 + self.rng.below(r.min(2)) }; let p = self.rng.perm(r); let q = self.rng.perm(r);
                let src: Vec<isize> = p[..k].iter().map(|&x| x as isize).collect(); let mut dst: Vec<isize> = q[..k].iter().map(|&x| if self.rng.below(4) == 0 { x as isize - r as isize } else { x as isize }).collect();
                if self.coin(5) { dst.push(0); } format!("@{}|{}|{}", i, show_list(&src), show_list(&dst)) }
            "rollaxis" => { let st = if self.coin(40) { "none".to_string() } else { self.axis(r).to_string() }; format!("@{}|{}|{}", i, self.axis(r), st) }
            "swapaxes" => format!("@{}|{}|{}", i, self.axis(r), self.axis(r)),
            "expand_dims" => { let k = 1 + self.rng.below(2); let mut ax: Vec<isize> = vec![]; for _ in 0..k { let extra = if self.coin(6) { 3 } else { 0 }; let c = self.rng.range(-(r as i64) - 1, r as i64 + extra) as isize; if !ax.contains(&c) { ax.push(c); } } format!("@{}|{}", i, show_list(&ax)) }
            "squeeze" => { let ones: Vec<isize> = (0..r).filter(|&k| s[k] == 1).map(|k| k as isize).collect();
                let ax = if self.coin(40) { "none".to_string() } else if !ones.is_empty() && self.coin(85) { let k = 1 + self.rng.below(ones.len()); show_list(&ones[..k]) } else { self.axis(r).to_string() }; format!("@{}|{}", i, ax) }
            "reshape" => { let ns = self.reshape_target(&s); format!("@{}|{}", i, show_list(&ns)) }
            "resize" => { let ns = self.shape(); format!("@{}|{}", i, show_list(&ns)) }
            "ravel" | "flipud" | "fliplr" | "map" | "map_e" | "zeros_like" | "ones_like" | "full_like" | "op_neg" | "op_not" | "for_each" | "fold" | "filter_map" | "modf" | "divmod" | "frexp"
                | "det" | "qr" | "eigvals" | "eig" | "clip0" | "translate" => format!("@{}", i),
            "ediff1d" => { let mut f = vec![]; for _ in 0..2 { f.push(if self.coin(60) { "none".to_string() } else { let ps = if self.coin(80) { vec![self.rng.below(4)] } else { self.shape() }; format!("@{}", self.partner(i, ps)) }); }
                format!("@{}|{}|{}", i, f[0], f[1]) }
            "trim_zeros" | "filter" => format!("@{}", i),
            "atleast" => format!("@{}|{}", i, self.rng.below(5)),
            "cycle_take" => format!("@{}|{}", i, self.rng.below(2 * n + 3)),
            "apply_along_axis" => { let f = match self.rng.below(3) { 0 => "id".to_string(), 1 => "rev".to_string(), _ => format!("ct{}", self.rng.below(5)) }; format!("@{}|{}|{}", i, self.uaxis(r), f) }
            "broadcast_to" => { let mut ns: Vec<usize> = s.iter().map(|&d| if d == 1 && self.rng.below(2) == 0 { 1 + self.rng.below(3) } else { d }).collect();
                if self.coin(40) { ns.insert(0, 1 + self.rng.below(3)); } if self.coin(10) { ns = self.shape(); } format!("@{}|{}", i, show_list(&ns)) }
            "broadcast" | "zip" | "clip1" | "clip2" => { let ps = self.compat(&s); let j = self.partner(i, ps); format!("@{}|@{}", i, j) }
            "linspace_a" | "geomspace_a" | "logspace_a" => { let j = self.partner(i, s.clone()); format!("@{}|@{}|{}|{}", i, j, 1 + self.rng.below(4), self.kd()) }
            "clip" => { let p1 = self.compat(&s); let p2 = self.compat(&s); let j = self.partner(i, p1); let k = self.partner(i, p2); format!("@{}|@{}|@{}", i, j, k) }
            "broadcast_arrays" => { let p1 = self.compat(&s); let j = self.partner(i, p1); if self.coin(50) { let p2 = self.compat(&s); let k = self.partner(i, p2); format!("@{},{},{}", i, j, k) } else { format!("@{},{}", i, j) } }
            "array_split" | "split" => { let ax = self.ouaxis(r); let d = s.get(ax.parse::<usize>().unwrap_or(0)).copied().unwrap_or(1);
                let parts = if self.coin(70) { let divs: Vec<usize> = (1..=d.max(1)).filter(|k| d % k == 0).collect(); *self.rng.pick(&divs) } else { self.rng.below(5) }; format!("@{}|{}|{}", i, parts, ax) }
            "split_axis" => format!("@{}|{}", i, self.uaxis(r)),
            "hsplit" | "vsplit" | "dsplit" => { let k = match b { "hsplit" => if r == 1 { 0 } else { 1 }, "vsplit" => 0, _ => 2 }; let d = s.get(k).copied().unwrap_or(1);
                let parts = if self.coin(75) { let divs: Vec<usize> = (1..=d.max(1)).filter(|k| d % k == 0).collect(); *self.rng.pick(&divs) } else { self.rng.below(4) }; format!("@{}|{}", i, parts) }
            "concatenate" | "stack" | "vstack" | "hstack" | "dstack" | "column_stack" | "row_stack" => {
                // a stored list of same-typed arrays (a split result) or explicit positions
                let ls: Vec<usize> = (0..self.store.len()).filter(|&k| matches!(&self.store[k], V::L(l) if !l.is_empty() && l.len() <= 6 && l.iter().all(|x| !matches!(x, V::Opq(_) | V::L(_) | V::Nil) && ty_of(x) == ty_of(&l[0])))).collect();
                let refs = if !ls.is_empty() && self.coin(35) { format!("@L{}", ls[self.rng.below(ls.len())]) } else {
                    let cnt = if self.coin(6) { 0 } else { 1 + self.rng.below(3) };
                    let ax = if r == 0 { 0 } else { self.rng.below(r) };
                    let mut ids = vec![i];
                    for _ in 1..cnt.max(1) {
                        let mut ps = s.clone();
                        let vary = match b { "concatenate" => Some(ax), "vstack" | "row_stack" => Some(0), "hstack" => if r == 1 { Some(0) } else { None }, "column_stack" => if r == 2 { Some(1) } else { None }, _ => None };
                        if let Some(k) = vary { if k < ps.len() && self.coin(60) { ps[k] = self.rng.below(4); } }
                        if self.coin(8) { ps = self.shape(); }
                        ids.push(self.partner(i, ps));
                    }
                    if cnt == 0 { "@".to_string() } else { format!("@{}", show_list(&ids)) }
                };
                match b { "concatenate" | "stack" => format!("{}|{}", refs, self.ouaxis(r)), _ => refs }
            }
            "flip" => { let ax = if self.coin(35) { "none".to_string() } else { let k = 1 + self.rng.below(2); show_list(&(0..k).map(|_| self.axis(r)).collect::<Vec<_>>()) }; format!("@{}|{}", i, ax) }
            "roll" => { let k = 1 + self.rng.below(2); let sh: Vec<isize> = (0..k).map(|_| self.rng.range(-7, 7) as isize).collect();
                let ax = if self.coin(35) { "none".to_string() } else { let m = if self.coin(70) { k } else { 1 }; show_list(&(0..m).map(|_| self.axis(r)).collect::<Vec<_>>()) }; format!("@{}|{}|{}", i, show_list(&sh), ax) }
            "rot90" => { let ax = if self.coin(10) { vec![0] } else { vec![self.axis(r), self.axis(r)] }; format!("@{}|{}|{}", i, self.rng.below(6), show_list(&ax)) }
            "delete" => { let ax = self.ouaxis(r); let lim = if ax == "none" { n } else { s.get(ax.parse::<usize>().unwrap_or(0)).copied().unwrap_or(1) };
                let k = self.rng.below(3); let ix: Vec<usize> = (0..k).map(|_| if self.coin(7) { lim + 1 } else { self.rng.below(lim.max(1)) }).collect(); format!("@{}|{}|{}", i, show_list(&ix), ax) }
            "insert" => { let k = 1 + self.rng.below(2); let ix: Vec<usize> = (0..k).map(|_| if self.coin(6) { n + 2 } else { self.rng.below(n + 1) }).collect();
                let vs = if self.coin(50) { vec![1] } else if self.coin(80) { vec![k] } else { self.shape() }; let j = self.partner(i, vs); format!("@{}|{}|@{}", i, show_list(&ix), j) }
            "insert_axis" => { let ax = self.uaxis(r); let d = s.get(ax).copied().unwrap_or(1);
                // the number of indices must broadcast against the FIRST axis length (that is what the code checks): mostly 1 or s[0]
                let k = match self.rng.below(10) { 0..=4 => 1, 5..=7 => s.first().copied().unwrap_or(1).min(4), 8 => 2, _ => self.rng.below(4) };
                let ix: Vec<usize> = (0..k).map(|_| if self.coin(5) { d + 1 + self.rng.below(2) } else { self.rng.below(d + 1) }).collect();
                let mut vs = s.clone(); if ax < vs.len() { vs[ax] = 1; }
                let vs = match self.rng.below(10) { 0..=2 => vs, 3..=4 => vec![1], 5 => { if ax < vs.len() { vs[ax] = k; } vs } 6 => vs.iter().map(|&d| if self.rng.below(2) == 0 { 1 } else { d }).collect(),
                    7 => { let c = self.rng.below(vs.len() + 1); vs[c..].to_vec() } 8 => vec![k.max(1)], _ => self.shape() };
                let j = self.partner(i, vs); format!("@{}|{}|@{}|{}", i, show_list(&ix), j, ax) }
            "append" => { let ax = self.ouaxis(r); let mut ps = s.clone(); if let Ok(k) = ax.parse::<usize>() { if k < ps.len() { ps[k] = self.rng.below(4); } } else if self.coin(60) { ps = self.shape(); }
                if self.coin(6) { ps = self.shape(); } let j = self.partner(i, ps); format!("@{}|@{}|{}", i, j, ax) }
            "repeat" => { let ax = self.ouaxis(r); let lim = if ax == "none" { n } else { s.get(ax.parse::<usize>().unwrap_or(0)).copied().unwrap_or(1) };
                let reps: Vec<usize> = if self.coin(55) { vec![self.rng.below(4)] } else if lim <= 12 && self.coin(85) { (0..lim).map(|_| self.rng.below(3)).collect() } else { vec![1, 2] }; format!("@{}|{}|{}", i, show_list(&reps), ax) }
            "filter_e" | "filter_map_e" => { let m = 1 + self.rng.below(4); format!("@{}|{}|{}", i, m, self.rng.below(m + 1)) }
            "count_nonzero" | "argmax" | "argmin" => format!("@{}|{}|{}", i, self.oaxis(r), self.kd()),
            "sort" | "argsort" => { let k = if self.coin(4) { "s:bogus" } else { *self.rng.pick(&["none", "s:quicksort", "s:mergesort", "s:heapsort", "s:stable", "s:QuickSort"]) }; format!("@{}|{}|{}", i, self.oaxis(r), k) }
            "unique" | "unwrap_phase" => format!("@{}|{}", i, self.oaxis(r)),
            "diag" | "diagflat" | "tril" | "triu" => { let k = if self.coin(40) { "none".to_string() } else { self.rng.range(-3, 3).to_string() }; format!("@{}|{}", i, k) }
            "vander" => { let k = if self.coin(40) { "none".to_string() } else { self.rng.below(5).to_string() }; format!("@{}|{}|{}", i, k, self.kd()) }
            "vdot" => { let ps = if self.coin(85) { vec![n] } else { self.shape() }; let j = self.partner(i, ps); format!("@{}|@{}", i, j) }
            "outer" => { let ps = self.shape(); let j = self.partner(i, ps); format!("@{}|@{}", i, j) }
            "inner" => { let mut ps = self.shape(); if self.coin(85) { if let (Some(l), Some(&d)) = (ps.last_mut(), s.last()) { *l = d; } else if let Some(&d) = s.last() { ps = vec![d]; } } let j = self.partner(i, ps); format!("@{}|@{}", i, j) }
            "solve" if r >= 2 && self.coin(85) => { let ps = if self.coin(50) { vec![s[r - 1]] } else { vec![s[r - 1], 1 + self.rng.below(3)] }; let j = self.partner(i, ps); format!("@{}|@{}", i, j) }
            "matmul" | "dot" | "solve" => { let ps = match (r, self.rng.below(10)) { (0, _) => self.shape(), (1, 0..=4) => vec![s[0]], (1, _) => vec![s[0], self.dim()], (_, 0..=1) => vec![s[r - 1]], (_, 2..=6) => vec![s[r - 1], self.dim()],
                    (_, 7..=8) => { let mut p = s.clone(); p[r - 2] = s[r - 1]; p[r - 1] = self.dim(); p } _ => self.shape() }; let j = self.partner(i, ps); format!("@{}|@{}", i, j) }
            "unpack_bits" => { let c = if self.coin(50) { "none".to_string() } else { self.rng.range(-9, 20).to_string() }; format!("@{}|{}|{}|{}", i, self.oaxis(r), c, *self.rng.pick(&["big", "little", "big", "little", "middle"])) }
            "pack_bits" => format!("@{}|{}|{}", i, self.oaxis(r), *self.rng.pick(&["big", "little"])),
            "slice" => { let lo = self.rng.below(n + 2); format!("@{}|{}|{}", i, lo, lo + self.rng.below(n + 2)) }
            "indices_at" => { let k = self.rng.below(4); let lim = s.first().copied().unwrap_or(1); format!("@{}|{}", i, show_list(&(0..k).map(|_| self.rng.below(lim + 1)).collect::<Vec<_>>())) }
            "round" | "around" => { let ps = self.compat(&s); let nn: usize = ps.iter().product(); let j = self.push(format!("new|{}|{}|{}|#isize", nn, -1, show_list(&ps))); format!("@{}|@{}", i, j) }
            "convolve" => { let j = if self.coin(80) { let m = 1 + self.rng.below(4); self.fresh(t, &[m]) } else { let ps = self.shape(); self.partner(i, ps) }; format!("@{}|@{}|{}", i, j, *self.rng.pick(&["none", "full", "valid", "same", "bogus"])) }
            "norm" => { let ord = *self.rng.pick(&["none", "fro", "nuc", "inf", "-inf", "1", "2", "-1", "0", "bogus"]);
                let ax = if self.coin(50) { "none".to_string() } else if self.coin(50) { self.axis(r).to_string() } else { show_list(&[self.axis(r), self.axis(r)]) }; format!("@{}|{}|{}|{}", i, ord, ax, self.kd()) }
            "diff" => { let ax = self.oaxis(r); let k = match ax.parse::<isize>() { Ok(x) if x < 0 => (x + r as isize).max(0) as usize, Ok(x) => x as usize, Err(_) => r.saturating_sub(1) };
                let mut f = vec![]; for _ in 0..2 { f.push(if self.coin(60) { "none".to_string() } else {
                    let mut ps = s.clone(); if k < ps.len() { ps[k] = if self.coin(85) { 1 + self.rng.below(2) } else { self.rng.below(2) * 3 }; } if self.coin(12) { ps = self.compat(&s); }
                    format!("@{}", self.partner(i, ps)) }); }
                format!("@{}|{}|{}|{}|{}", i, self.rng.below(4), ax, f[0], f[1]) }
            "ldexp" => { let ps = self.compat(&s); let nn: usize = ps.iter().product(); let j = self.push(format!("new|{}|{}|{}|#i32", nn, -1, show_list(&ps))); format!("@{}|@{}", i, j) }
            "zfill" => format!("@{}|{}", i, self.rng.below(9)),
            "splitlines" => format!("@{}|{}", i, self.kd()),
            "multiply" if t == "str" => { let ps = self.compat(&s); let nn: usize = ps.iter().product(); let j = self.push(format!("new|{}|{}|{}|#usize", nn, 0, show_list(&ps))); format!("@{}|@{}", i, j) }
            "center" | "ljust" | "rjust" => { let ps = self.compat(&s); let nn: usize = ps.iter().product(); let j = self.push(format!("new|{}|{}|{}|#usize", nn, 2, show_list(&ps))); format!("@{}|@{}|{}", i, j, *self.rng.pick(&["none", "*", "-"])) }
            "replace" => { let p1 = self.compat(&s); let p2 = self.compat(&s); let j = self.partner(i, p1); let k = self.partner(i, p2); format!("@{}|@{}|@{}|{}", i, j, k, *self.rng.pick(&["none", "0", "1", "2"])) }
            "compare" => { let ps = self.compat(&s); let j = self.partner(i, ps); format!("@{}|@{}|{}", i, j, *self.rng.pick(&["o:==", "!=", ">", "<", ">=", "<=", "equals", "bogus", "o:==", "Not_Equals", "GREATER_EQUAL", "less_equal", "less"])) }
            _ => {
                if FOLD_OPS.contains(&b) || EXTREME_OPS.contains(&b) || SCAN_OPS.contains(&b) { format!("@{}|{}", i, self.oaxis(r)) }
                else if UNARY_NUM.contains(&b) || UNARY_OPS.contains(&b) || UNARY_FLT.contains(&b) || STR_UNARY.contains(&b) { format!("@{}", i) }
                else if b.starts_with("op_") {
                    if b.ends_with("_s") { format!("@{}", i) } else { let ps = if self.coin(88) { s.clone() } else { self.compat(&s) }; let j = if self.coin(30) { i } else { self.partner(i, ps) }; format!("@{}|@{}", i, j) }
                }
                else if BIN_NUM.contains(&b) || BIN_OPS.contains(&b) || BIN_FLT.contains(&b) || STR_BINARY.contains(&b) { let ps = self.compat(&s); let j = self.partner(i, ps); format!("@{}|@{}", i, j) }
                else { return false; }
            }
        };
        let mut step = step;
        if self.r5 {
            // class 23: the counting / remembering closure in place of the pure one (same model step: one call per element in flat order)
            if self.coin(45) { match b {
                "filter_e" | "filter_map_e" => step.push_str("|cnt"),
                "filter" | "filter_map" if !op.starts_with("u.") => { let m = 1 + self.rng.below(4); step = format!("@{}|{}|{}|cnt", i, m, self.rng.below(m + 1)); }
                "map" | "map_e" => step.push_str("|cnt"),
                "apply_along_axis" => { let f: Vec<&str> = step.split('|').collect(); step = format!("{}|{}|alt", f[0], f[1]); }
                _ => {}
            } }
            // class 24: one axis named twice, in the two spellings
            if self.coin(30) { step = self.mix_step(b, step, r); }
        }
        if ["vdot", "outer", "inner", "matmul", "dot"].contains(&b) && !op.starts_with("u.") {
            // the products model (C14) does not speak about operands without elements: monitor only there
            if step_refs(&format!("x|{}", step)).iter().any(|&k| self.sh(k).iter().product::<usize>() == 0) { name = format!("u.{}", b); }
        }
        if VALDEP.contains(&b) && !op.starts_with("u.") && !step.ends_with("|cnt") {
            let all_f = step_refs(&format!("x|{}", step)).iter().all(|&k| self.faithful.get(k).copied().unwrap_or(false));
            if !all_f { name = format!("u.{}", b); }
        }
        // the value tie: on an i64 chain whose values are the model's tags the step asks the driver for the element values too
        if VALUE_TIED.contains(&name.as_str()) && t == "i64" {
            let rs = step_refs(&format!("x|{}", step));
            if rs.iter().all(|&k| self.faithful.get(k).copied().unwrap_or(false) && matches!(&self.store[k], V::I64(_))) { step.push_str("|v"); }
        }
        self.push(format!("{}|{}", name, step));
        true
    }

    /// class 24: one axis of a rank-`r` array named twice in the two spellings (k and k - r) at a random pair of positions
    fn mix_list(&mut self, v: &mut Vec<isize>, r: usize) {
        if r == 0 || v.is_empty() { return; }
        if v.len() == 1 { v.push(0); }
        let a = self.rng.below(v.len());
        let mut c = self.rng.below(v.len() - 1); if c >= a { c += 1; }
        v[c] = if v[a] >= 0 { v[a] - r as isize } else { v[a] + r as isize };
    }
    fn mix_step(&mut self, b: &str, step: String, r: usize) -> String {
        let mut f: Vec<String> = step.split('|').map(str::to_string).collect();
        let islist = |x: &str| x != "none" && x != "-" && x.split(',').all(|y| y.parse::<isize>().is_ok());
        let k = match b { "transpose" | "expand_dims" | "squeeze" | "flip" => 1, "moveaxis" => 1 + self.rng.below(2), "roll" | "rot90" | "norm" => 2, _ => return step };
        if k >= f.len() || !islist(&f[k]) { return step; }
        let mut v = il(&f[k]);
        if v.len() < 2 && (b == "moveaxis" || b == "roll" || b == "norm") { return step; }
        let rank = if b == "expand_dims" { r + v.len().max(2) } else { r };
        self.mix_list(&mut v, rank);
        f[k] = show_list(&v);
        f.join("|")
    }
    /// a closure state for the `u.st_*` steps
    fn st_kind(&mut self, n: usize, small_alphabet: bool) -> String {
        match self.rng.below(8) {
            0 | 1 => { let m = 2 + self.rng.below(4); format!("cnt|{}|{}", m, self.rng.below(m + 1)) }
            2 => format!("first|{}|0", *self.rng.pick(&[0, 1, 2, n / 2, n.saturating_sub(1), n, n + 1])),
            3 | 4 => if n <= 2000 || small_alphabet { "seen|0|0".to_string() } else { "first|1000|0".to_string() },
            5 => format!("budget|{}|0", *self.rng.pick(&[0usize, 1, 3, 7])),
            6 => "run|0|0".to_string(),
            _ => "toggle|0|0".to_string(),
        }
    }
    /// the steps with stateful closures (see `st_run`, `st_visit`, `st_apply`)
    fn emit_st(&mut self, op: &str) -> bool {
        let i = match self.pick(&|_| true) { Some(i) => i, None => return false };
        let s = self.sh(i);
        let (r, n) = (s.len(), s.iter().product::<usize>());
        let step = match &op[2..] {
            "st_fold" => format!("@{i}|{}", *self.rng.pick(&["nan", "inf", "-inf", "-0", "0", "max", "tiny"])),
            "st_for_each" | "st_for_each_e" => format!("@{i}"),
            "st_apply" => { if n > 600 { return false; } let d = s.get(0).copied().unwrap_or(1);
                let f = match self.rng.below(6) { 0 | 1 => "alt".to_string(), 2 => format!("grow{}", self.rng.below(3)), 3 => format!("grow{}", d), 4 => format!("once{}", self.rng.below(4)), _ => format!("once{}", d + 1) };
                format!("@{i}|{}|{}", self.uaxis(r), f) }
            _ => { let small = matches!(self.tyi(i), "u8" | "i8" | "bool"); format!("@{i}|{}", self.st_kind(n, small)) }
        };
        self.push(format!("{op}|{step}"));
        true
    }
    fn count(&mut self) -> usize { *self.rng.pick(&[0usize, 1, 2, 3, 5, 8, 10, 17, 33, 100, 257]) }
    /// the std-trait steps (see `run_std_traits`)
    fn emit_std(&mut self, op: &str) -> bool {
        let b = &op[2..];
        let ty = self.ty;
        match b {
            "it_empty" | "it_once" => { self.push(format!("{op}|#{ty}")); return true; }
            "it_range" | "it_unbounded" | "it_from_fn" | "it_huge_hint" | "it_repeat_take" => { let n = self.count(); self.push(format!("{op}|{n}|#{ty}")); return true; }
            "it_range_filter" => { let n = self.count(); let m = 1 + self.rng.below(4); let t = self.rng.below(m + 1); self.push(format!("{op}|{n}|{m}|{t}|#{ty}")); return true; }
            _ => {}
        }
        let i = match self.pick(&|_| true) { Some(i) => i, None => return false };
        let s = self.sh(i);
        let (r, n) = (s.len(), s.iter().product::<usize>());
        let step = match b {
            "it_collect" | "it_ref" | "it_for" | "it_rev" | "clone" | "re_map" | "re_fold" => format!("@{i}"),
            "it_filter" | "it_filter_ref" | "it_filter_map" | "it_flatten" | "re_filter" | "re_filter_map" => { let m = 1 + self.rng.below(4); format!("@{i}|{m}|{}", self.rng.below(m + 1)) }
            "it_take_while" | "it_skip_while" | "it_map_while" | "it_scan" | "it_skip" | "it_take" | "it_peek_fuse" => format!("@{i}|{}", self.rng.below(n + 3)),
            "it_cycle_take" => format!("@{i}|{}", self.rng.below(2 * n + 3)),
            "it_step_by" => format!("@{i}|{}", 1 + self.rng.below(4)),
            "it_flat_map" => format!("@{i}|{}", self.rng.below(4)),
            "it_chain" | "it_zip_first" => { let ps = if self.coin(50) { self.shape() } else { self.compat(&s) }; let j = self.partner(i, ps); format!("@{i}|@{j}") }
            "it_chain_filter" => { let ps = self.shape(); let j = self.partner(i, ps); let m = 1 + self.rng.below(4); format!("@{i}|@{j}|{m}|{}", self.rng.below(m + 1)) }
            "re_apply" => { if n > 600 { return false; } format!("@{i}|{}", self.uaxis(r)) }
            "clone_from" => {
                let how = *self.rng.pick(&["direct", "direct", "direct", "twice", "into", "option", "box", "result", "vec1", "slice", "self"]);
                // the other array: the same element type, a shape of lower / equal / higher rank
                let os: Vec<usize> = match self.rng.below(7) {
                    0 => vec![n],
                    1 => { let mut q = s.clone(); let k = self.rng.below(r + 1); q.insert(k, 1 + self.rng.below(2)); q }
                    2 => { let mut q = s.clone(); q.push(2); q.insert(0, 1); q }
                    3 => if r >= 2 { s[1..].to_vec() } else { vec![] },
                    4 => s.iter().map(|&d| (d + 1) % 4).collect(),
                    5 => s.clone(),
                    _ => self.shape(),
                };
                let j = self.partner(i, os);
                if self.coin(50) { format!("@{i}|@{j}|{how}") } else { format!("@{j}|@{i}|{how}") }
            }
            "clone_from_list" => {
                if r == 0 { return false; }
                let t = self.tyi(i);
                let (ax, p) = (self.rng.below(r), 1 + self.rng.below(4));
                let ls = self.push(format!("array_split|@{i}|{p}|{ax}"));
                // the target list: pieces of an array of another (mostly lower) rank
                let os: Vec<usize> = match self.rng.below(5) { 0 | 1 => vec![n.max(p) + self.rng.below(3)], 2 => vec![p + self.rng.below(3), 2], 3 => { let mut q = s.clone(); q.insert(0, 2); q } _ => self.shape() };
                let j = self.fresh(t, &os);
                let q = if self.coin(60) { p } else { 1 + self.rng.below(5) };
                let lt = self.push(format!("array_split|@{j}|{q}|0"));
                let how = *self.rng.pick(&["vec", "vec", "vec", "into", "slice", "deque", "boxed"]);
                if self.coin(75) { format!("@L{lt}|@L{ls}|{how}") } else { format!("@L{ls}|@L{lt}|{how}") }
            }
            _ => return false,
        };
        self.push(format!("{op}|{step}"));
        true
    }
    /// long, unsorted argument lists with mixed (negative / non-negative) spellings, many parts, many arrays, high `ndmin`
    fn emit_long(&mut self, op: &str) -> bool {
        let i = match self.pick(&|_| true) { Some(i) => i, None => return false };
        let s = self.sh(i);
        let (r, n) = (s.len(), s.iter().product::<usize>());
        fn neg(g: &mut G, x: usize, r: usize) -> isize { if g.rng.below(3) == 0 { x as isize - r as isize } else { x as isize } }
        let step = match op {
            "transpose" => { if r < 3 { return false; } let p = self.rng.perm(r); let v: Vec<isize> = p.iter().map(|&x| neg(self, x, r)).collect(); format!("@{i}|{}", show_list(&v)) }
            "moveaxis" => { if r < 3 { return false; } let k = (2 + self.rng.below(4)).min(r); let (p, q) = (self.rng.perm(r), self.rng.perm(r));
                let src: Vec<isize> = p[..k].iter().map(|&x| neg(self, x, r)).collect(); let dst: Vec<isize> = q[..k].iter().map(|&x| neg(self, x, r)).collect(); format!("@{i}|{}|{}", show_list(&src), show_list(&dst)) }
            "expand_dims" => { let k = 3 + self.rng.below(3); let fr = r + k; let p = self.rng.perm(fr); let mut v: Vec<isize> = p[..k].iter().map(|&x| neg(self, x, fr)).collect();
                if self.coin(6) { v.push(v[0]); } format!("@{i}|{}", show_list(&v)) }
            "squeeze" => { let ones: Vec<usize> = (0..r).filter(|&k| s[k] == 1).collect(); if ones.len() < 2 { return false; }
                let p = self.rng.perm(ones.len()); let k = 2 + self.rng.below(ones.len() - 1); let v: Vec<isize> = p[..k].iter().map(|&x| neg(self, ones[x], r)).collect(); format!("@{i}|{}", show_list(&v)) }
            "flip" => { if r == 0 { return false; } let k = 3 + self.rng.below(3); let v: Vec<isize> = (0..k).map(|_| { let x = self.rng.below(r); neg(self, x, r) }).collect(); format!("@{i}|{}", show_list(&v)) }
            "roll" => { if r == 0 { return false; } let k = 3 + self.rng.below(3); let sh: Vec<isize> = (0..k).map(|_| self.rng.range(-9, 9) as isize).collect();
                let ax = if self.coin(15) { "none".to_string() } else { show_list(&(0..k).map(|_| { let x = self.rng.below(r); neg(self, x, r) }).collect::<Vec<_>>()) }; format!("@{i}|{}|{}", show_list(&sh), ax) }
            "delete" => { let ax = self.ouaxis(r); let lim = if ax == "none" { n } else { s.get(ax.parse::<usize>().unwrap_or(0)).copied().unwrap_or(1) };
                let k = 3 + self.rng.below(4); let ix: Vec<usize> = (0..k).map(|_| if self.coin(3) { lim + 1 } else { self.rng.below(lim.max(1)) }).collect(); format!("@{i}|{}|{}", show_list(&ix), ax) }
            "insert" => { let k = 3 + self.rng.below(3); let ix: Vec<usize> = (0..k).map(|_| self.rng.below(n + 1)).collect(); let vs = if self.coin(50) { vec![1] } else { vec![k] }; let j = self.partner(i, vs); format!("@{i}|{}|@{}", show_list(&ix), j) }
            "atleast" => format!("@{i}|{}", 5 + self.rng.below(5)),
            "array_split" | "split" => { if r == 0 { return false; } let ax = (0..r).max_by_key(|&k| s[k]).unwrap_or(0); let d = s[ax];
                let parts = if op == "split" { let divs: Vec<usize> = (1..=d.max(1)).filter(|k| d % k == 0).collect(); divs[divs.len() - 1 - self.rng.below(divs.len().min(2))] }
                    else if d >= 65 && self.coin(70) { 65 + self.rng.below(d - 63) } else { d + self.rng.below(3) };
                format!("@{i}|{}|{}", parts, ax) }
            "concatenate" | "stack" | "vstack" | "hstack" | "dstack" | "column_stack" | "row_stack" => {
                if n > 64 { return false; }
                let cnt = 5 + self.rng.below(4); let ax = if r == 0 { 0 } else { self.rng.below(r) };
                let mut ids = vec![i];
                for _ in 1..cnt { let mut ps = s.clone(); if op == "concatenate" && ax < ps.len() && self.coin(50) { ps[ax] = self.rng.below(4); } ids.push(self.partner(i, ps)); }
                match op { "concatenate" => format!("@{}|{}", show_list(&ids), if r == 0 || self.coin(15) { "none".to_string() } else { ax.to_string() }), "stack" => format!("@{}|{}", show_list(&ids), self.ouaxis(r + 1)), _ => format!("@{}", show_list(&ids)) } }
            "broadcast_arrays" => { if n > 64 { return false; } let cnt = 4 + self.rng.below(3); let mut ids = vec![i]; for _ in 1..cnt { let ps = self.compat(&s); ids.push(self.partner(i, ps)); } format!("@{}", show_list(&ids)) }
            "reshape" => { // the full prime factorisation in random order, padded with unit axes up to rank 8
                let mut rest = n; let mut f = vec![]; let mut d = 2; while rest > 1 && d <= rest { if rest % d == 0 { f.push(d); rest /= d; } else { d += 1; } }
                if n == 0 { f = s.clone(); }
                while f.len() < 5 + self.rng.below(4) { let k = self.rng.below(f.len() + 1); f.insert(k, 1); }
                if f.len() > 9 { return false; }
                let p = self.rng.perm(f.len()); let t: Vec<usize> = p.iter().map(|&k| f[k]).collect(); format!("@{i}|{}", show_list(&t)) }
            _ => return self.emit(op),
        };
        let step = if self.r5 && self.coin(30) { self.mix_step(op, step, r) } else { step };
        self.push(format!("{op}|{step}"));
        true
    }
    fn reshape_target(&mut self, s: &[usize]) -> Vec<usize> {
        let n: usize = s.iter().product();
        let mut t: Vec<usize> = match self.rng.below(8) {
            0 => vec![n],
            1 => { let mut p = s.to_vec(); let k = self.rng.below(p.len() + 1); p.insert(k, 1); p }
            2 => { let p = self.rng.perm(s.len()); p.iter().map(|&k| s[k]).collect() }
            3 | 4 => { // factorise
                let mut rest = n; let mut out = vec![];
                while rest > 1 && out.len() < 3 { let divs: Vec<usize> = (2..=rest).filter(|d| rest % d == 0).collect(); let d = *self.rng.pick(&divs); out.push(d); rest /= d; }
                if rest > 1 || out.is_empty() { out.push(rest); } out }
            5 => if s.len() >= 2 { let mut p = s.to_vec(); let k = self.rng.below(p.len() - 1); let m = p[k] * p[k + 1]; p[k] = m; p.remove(k + 1); p } else { vec![1, n] },
            6 => s.to_vec(),
            _ => vec![n, 1],
        };
        if self.coin(10) { let k = self.rng.below(t.len().max(1)); if t.is_empty() { t.push(2) } else { t[k] += 1; } }   // refusal stream
        t
    }
}

fn all_ops() -> Vec<String> {
    let mut v: Vec<String> = vec![];
    v.extend(CTORS.iter().map(|s| s.to_string()));
    v.extend(OPS_ALL.iter().map(|s| s.to_string()));
    v.extend(OPS_NUM_EXTRA.iter().map(|s| s.to_string()));
    v.extend(OPS_OPS_EXTRA.iter().map(|s| s.to_string()));
    for l in [&FOLD_OPS[..], &EXTREME_OPS[..], &SCAN_OPS[..], &UNARY_NUM[..], &UNARY_OPS[..], &UNARY_FLT[..], &BIN_OPS[..], &BIN_FLT[..]] { v.extend(l.iter().map(|s| s.to_string())); }
    v.extend(BIN_NUM.iter().filter(|s| **s != "_").map(|s| s.to_string()));
    v.extend(["ldexp", "unpack_bits", "pack_bits", "frexp", "around", "u.geomspace_a", "u.logspace_a", "s.compare"].iter().map(|s| s.to_string()));
    for o in ["add", "sub", "mul", "div", "rem", "bitand", "bitor", "bitxor"] { for sfx in ["", "_s", "_assign", "_assign_s"] { v.push(format!("op_{}{}", o, sfx)); } }
    v.push("op_not".into());
    v.extend(OPS_STR.iter().map(|s| s.to_string()));
    v.extend(STR_UNARY.iter().map(|s| format!("s.{}", s)));
    v.extend(STR_BINARY.iter().map(|s| format!("s.{}", s)));
    v
}
/// element types an operation applies to
fn types_for(op: &str) -> Vec<&'static str> {
    let b = base_of(op);
    let all9 = ["i32", "i64", "u8", "usize", "f64", "bool", "str", "t2", "isize", "i8"];
    if OPS_STD.contains(&op) || OPS_ST.contains(&op) { return all9.to_vec(); }
    if is_str_op(op) { return vec!["str"]; }
    if ["new", "create", "single", "flat", "empty"].contains(&op) || OPS_ALL.contains(&op) { return all9.to_vec(); }
    if b == "unpack_bits" || b == "pack_bits" { return vec!["u8"]; }
    if b == "op_not" { return vec!["bool"]; }
    if b.starts_with("op_bit") { return all9.iter().copied().filter(|t| is_int(t)).collect(); }
    if UNARY_FLT.contains(&b) || BIN_FLT.contains(&b) || b == "ldexp" || b == "frexp" { return vec!["f64"]; }
    if OPS_OPS_EXTRA.contains(&op) || FOLD_OPS.contains(&b) || SCAN_OPS.contains(&b) || UNARY_OPS.contains(&b) || BIN_OPS.contains(&b) || b.starts_with("op_") { return vec!["i32", "i64", "f64"]; }
    all9.iter().copied().filter(|t| is_num(t)).collect()
}

fn emit_chain(g: &G, out: &mut dyn FnMut(String)) {
    if g.steps.is_empty() { return; }
    let label = label_of(g.steps.last().unwrap()).to_string();
    out(format!("{} {}", label, g.steps.join(" ")));
}

/// the chains are built by RUNNING them on the real crate; the crate's quicksort recurses once per element on sorted input, so the
/// generator runs on a thread with a large stack (like the executor's worker thread)
fn gen(tier: &str, seed: u64, out: &mut dyn FnMut(String)) {
    let tier = tier.to_string();
    let lines = std::thread::Builder::new().stack_size(256 << 20).spawn(move || { let mut v: Vec<String> = vec![]; gen_all(&tier, seed, &mut |l| v.push(l)); v }).unwrap().join().unwrap();
    for l in lines { out(l); }
}
fn gen_all(tier: &str, seed: u64, out: &mut dyn FnMut(String)) {
    let thorough = tier == "thorough";
    // (i) corpus of past failures / hand-written chains that hit the value-dependent and the bypass operations
    for c in [
        "trim_zeros zeros|2|#i64 new|3|1|3|#i64 zeros|1|#i64 concatenate|@0,1,2|none trim_zeros|@3",
        "filter new|6|-2|2,3|#i64 filter|@0",
        "unique new|6|0|2,3|#i64 resize|@0|3,4 unique|@1|none",
        "divide new|6|1|2,3|#i64 new|3|0|3|#i64 divide|@0|@1",
        "divide new|6|1|2,3|#i64 new|3|1|3|#i64 divide|@0|@1",
        "op_bitand new|6|0|2,3|#u8 new|6|3|2,3|#u8 op_bitand|@0|@1 op_bitand_s|@2 op_bitand_assign|@2|@0 transpose|@4|none op_bitand|@5|@0",
        "op_add new|6|0|2,3|#i32 new|6|3|3,2|#i32 op_add|@0|@1",
        "add new|6|0|2,3|#i32 new|1|5|1|#i32 add|@0|@1 transpose|@2|none sum|@3|1",
        "sum new|24|0|2,3,2,2|#f64 sum|@0|1 cumsum|@0|2 max|@0|-1",
        "new new|5|0|2,3|#str", "create create|5|2,3|4|#bool", "reshape new|6|0|2,3|#t2 reshape|@0|4,2", "broadcast_to new|3|0|3|#usize broadcast_to|@0|2,4",
        "resize new|0|0|0|#i64 resize|@0|2,2",
    ] { out(c.to_string()); }
    // (ii) exhaustive small scope: every operation of the inventory as a chain on base arrays of every applicable element type and shape
    let bases: Vec<Vec<usize>> = vec![vec![], vec![0], vec![1], vec![4], vec![8], vec![2, 3], vec![3, 3], vec![1, 3], vec![3, 1], vec![2, 0], vec![2, 2, 2], vec![2, 1, 3], vec![2, 3, 4], vec![2, 0, 3], vec![2, 3, 2, 2], vec![1, 2, 1, 2],
        // robustness streams: zero-length axes in every position; >= 32 elements (not a multiple of 8) for the byte-sized element types; axis lengths 7..17
        vec![0, 0], vec![0, 2], vec![1, 0], vec![0, 1], vec![0, 0, 2], vec![2, 3, 0],
        vec![6, 6], vec![5, 7], vec![33], vec![2, 3, 7], vec![17, 2]];
    let reps = if thorough { 3 } else { 1 };
    for (oi, op) in all_ops().iter().enumerate() {
        for ty in types_for(op) {
            for (bi, base) in bases.iter().enumerate() {
                if CTORS.contains(&op.as_str()) && bi >= 6 { continue; }
                if bi >= 16 && ty == "t2" { continue; }
                if bi >= 22 && !["u8", "i8", "bool", "i64", "f64"].contains(&ty) { continue; }
                for rep in 0..(if bi >= 16 { 1 } else { reps }) {
                    let mut g = G::new(0xC01 + (oi * 1000 + bi * 10 + rep) as u64, if ty == "isize" { "i64" } else { ty });
                    if !CTORS.contains(&op.as_str()) { g.fresh(ty, base); }
                    if g.emit(op) { emit_chain(&g, out); }
                }
            }
        }
    }
    // (ii-b) the operations of `ArrModel/C01Diff.lean` (ediff1d, diff, insert with an axis, convolve): every arm of their models -
    //        each base shape, several argument draws (order of the difference 0..3, every axis spelling incl. out of range,
    //        prepend / append present / absent / non-fitting, 0..4 insert positions, values of every broadcastable and
    //        non-broadcastable shape, the three convolve modes and a bad one) on i64 (values compared too) and two further types
    for (oi, op) in ["ediff1d", "diff", "insert_axis", "convolve"].iter().enumerate() {
        let tys: &[&'static str] = match *op { "insert_axis" => &["i64", "str", "u8", "bool"], "convolve" => &["i64", "u8", "f64"], _ => &["i64", "i32", "f64"] };
        for (ti, ty) in tys.iter().enumerate() {
            for (bi, base) in bases.iter().enumerate() {
                let reps = if ti == 0 { if thorough { 24 } else { 10 } } else if thorough { 8 } else { 3 };
                for rep in 0..reps {
                    let mut g = G::new(0xD1FF + (oi * 100000 + ti * 10000 + bi * 100 + rep) as u64, ty);
                    // tag values are an arithmetic progression (all second differences 0): two draws in three work on a sawtooth
                    // (a short array cycled into the base shape) or on a rolled / transposed array instead
                    match rep % 3 {
                        1 => { let k = 2 + g.rng.below(4); let off = g.rng.range(-3, 9); g.push(format!("new|{}|{}|{}|#{}", k, off, k, ty)); g.push(format!("resize|@0|{}", show_list(base))); }
                        2 => { g.fresh(ty, base); let k = g.rng.range(1, 5); g.push(format!("roll|@0|{}|none", k)); if base.len() >= 2 && g.coin(50) { g.push("transpose|@1|none".to_string()); } }
                        _ => { g.fresh(ty, base); }
                    }
                    if g.emit(op) { if g.coin(30) { g.emit(op); } emit_chain(&g, out); }
                }
            }
        }
    }
    // (iii) the refusal stream: element count that does not fit the requested shape
    for ty in TYPES { for s in [vec![2usize, 3], vec![0], vec![], vec![1, 1], vec![2, 0, 2], vec![3]] {
        let p: usize = s.iter().product();
        for n in [p + 1, p + 2, p.saturating_sub(1), 0] { if n == p { continue; }
            out(format!("new new|{}|0|{}|#{}", n, show_list(&s), ty));
            out(format!("create create|{}|{}|3|#{}", n, show_list(&s), ty));
            out(format!("reshape new|{}|0|{}|#{} reshape|@0|{}", n, n, ty, show_list(&s)));
            if n > 0 && p != 0 { out(format!("broadcast_to new|{}|0|{}|#{} broadcast_to|@0|{}", n, n, ty, show_list(&s))); }
        }
    } }
    // (iii-b) refusals around zero-length axes, on every element type: dropping / adding / replacing a zero-length axis changes
    //         the element count, so the reshape must be refused (on both receivers); the valid spellings must be accepted
    for ty in TYPES2.iter().take(9) {
        let mut zs = zero_shapes(); zs.extend([vec![3, 0], vec![0, 3, 1], vec![1, 0, 1], vec![0, 1, 1]]);
        for s in &zs {
            let dropped: Vec<usize> = s.iter().copied().filter(|&d| d != 0).collect();
            let ones: Vec<usize> = s.iter().map(|&d| if d == 0 { 1 } else { d }).collect();
            let mut swapped = s.clone(); swapped.reverse();
            for t in [dropped, ones, vec![1], vec![], vec![0], vec![1, 0], swapped, vec![1, 1]] {
                out(format!("reshape new|0|0|{}|#{} reshape|@0|{}", show_list(s), ty, show_list(&t)));
                out(format!("resize new|0|0|{}|#{} resize|@0|{} ravel|@1", show_list(s), ty, show_list(&t)));
            }
        }
        for t in [vec![1usize], vec![], vec![1, 1], vec![0], vec![0, 1], vec![2, 0]] { out(format!("reshape empty|#{} reshape|@0|{} ravel|@1", ty, show_list(&t))); }
        for (n, t) in [(4usize, vec![4usize, 0]), (4, vec![0, 4]), (4, vec![4, 1, 0]), (4, vec![0]), (1, vec![0]), (1, vec![1, 0]), (6, vec![2, 0, 3]), (33, vec![33, 0]), (36, vec![6, 0, 6])] {
            out(format!("reshape flat|{}|#{} reshape|@0|{}", n, ty, show_list(&t)));
            out(format!("reshape new|{}|0|{}|#{} ravel|@0 reshape|@1|{} atleast|@2|3", n, n, ty, show_list(&t)));
        }
    }
    // (iv) seeded random chains
    let (n_chains, max_len) = if thorough { (60000, 40) } else { (20000, 12) };
    let ops = all_ops();
    let mut top = Rng::new(seed ^ 0x5EED_C01);
    for c in 0..n_chains {
        let ty = TYPES[top.below(TYPES.len())];
        let mut g = G::new(top.next() ^ c as u64, ty);
        let len = 1 + g.rng.below(max_len);
        let s0 = g.shape(); g.fresh(ty, &s0);
        let mut tries = 0;
        while g.steps.len() < len && tries < 4 * max_len {
            tries += 1;
            let op = if g.coin(8) { CTORS[g.rng.below(CTORS.len())].to_string() } else if g.coin(45) { OPS_ALL[g.rng.below(OPS_ALL.len())].to_string() } else { ops[g.rng.below(ops.len())].clone() };
            g.emit(&op);
        }
        emit_chain(&g, out);
    }
    // (vi) robustness stream, sizes: one-step chains on arrays beyond the small scope (axis lengths 7..17 in every position, element
    //      counts > 256, > 1024, > 4096).  The store machine is quadratic in the element count for several operations, so the
    //      shapes above 1000 elements get fewer operations / element types (quick), the full inventory runs up to 700 elements.
    {
        let heavy = ["vdot", "outer", "inner", "matmul", "dot", "vander", "convolve", "u.linspace_a", "u.geomspace_a", "u.logspace_a", "u.det", "u.qr", "u.eigvals", "u.eig", "u.solve", "u.norm"];
        let cheap = ["reshape", "ravel", "flip", "roll", "op_bitand", "op_bitxor_assign", "op_bitor_s", "broadcast_to", "atleast", "expand_dims", "squeeze", "repeat", "argmax", "count_nonzero",
            "transpose", "resize", "cycle_take", "map", "op_add", "negative", "max", "sum", "cumsum", "array_split", "concatenate", "sort", "delete", "append", "slice", "op_not"];
        let medium: Vec<Vec<usize>> = vec![vec![300], vec![17, 16], vec![5, 5, 5, 5], vec![1, 16, 1, 17], vec![9, 9], vec![7, 1, 9], vec![3, 2, 8], vec![16, 17], vec![2, 8, 3], vec![8, 2, 3], vec![2, 3, 4, 5, 2], vec![64], vec![100]];
        let large: Vec<Vec<usize>> = vec![vec![1030], vec![40, 30], vec![4100], vec![70, 70]];
        for (oi, op) in all_ops().iter().enumerate() {
            if CTORS.contains(&op.as_str()) || heavy.contains(&op.as_str()) || is_str_op(op) { continue; }
            let tys = types_for(op);
            for (si, shape) in medium.iter().enumerate() {
                let picks: Vec<&str> = if thorough { let c: Vec<&str> = tys.iter().copied().filter(|t| ["u8", "i8", "bool", "i64", "f64"].contains(t)).collect(); (0..c.len().min(2)).map(|k| c[(oi + si + k) % c.len()]).collect() }
                    else { let c: Vec<&str> = tys.iter().copied().filter(|t| ["u8", "i8", "bool", "i64", "f64"].contains(t)).collect(); if c.is_empty() || (si >= 7 && (oi + si) % 4 != 0) { vec![] } else { vec![c[(oi + si) % c.len()]] } };
                for ty in picks {
                    let mut g = G::new(0xB16 + (oi * 100 + si) as u64, ty); g.big = true;
                    g.fresh(ty, shape);
                    if g.emit(op) { emit_chain(&g, out); }
                }
            }
            for (si, shape) in large.iter().enumerate() {
                let n: usize = shape.iter().product();
                if n > 2000 && !(cheap.contains(&op.as_str()) && (thorough || (oi + si) % 3 == 0)) { continue; }
                if n <= 2000 && !thorough && !cheap.contains(&op.as_str()) && oi % 3 != 0 { continue; }
                let c: Vec<&str> = tys.iter().copied().filter(|t| ["u8", "i8", "bool", "i64"].contains(t)).collect();
                if c.is_empty() { continue; }
                let ty = c[(oi + si) % c.len()];
                let mut g = G::new(0xB17 + (oi * 100 + si) as u64, ty); g.big = true;
                g.fresh(ty, shape);
                if g.emit(op) { emit_chain(&g, out); }
            }
        }
    }
    // (v) robustness stream: seeded random chains over shapes with zero-length axes in any position, axis lengths up to 17 and
    //     the three byte-sized element types with >= 32 elements
    let n_wide = if thorough { 8000 } else { 3500 };
    let mut top = Rng::new(seed ^ 0x3A5E_C01);
    for c in 0..n_wide {
        let ty = TYPES2[top.below(TYPES2.len())];
        let mut g = G::new(top.next() ^ c as u64, ty);
        g.wide = true;
        let len = 1 + g.rng.below(max_len);
        let s0 = g.shape(); g.fresh(ty, &s0);
        let mut tries = 0;
        while g.steps.len() < len && tries < 4 * max_len {
            tries += 1;
            let op = if g.coin(8) { CTORS[g.rng.below(CTORS.len())].to_string() } else if g.coin(45) { OPS_ALL[g.rng.below(OPS_ALL.len())].to_string() } else { ops[g.rng.below(ops.len())].clone() };
            g.emit(&op);
        }
        emit_chain(&g, out);
    }
    gen_part2(thorough, seed, out);
    gen_part5(thorough, seed, out);
    // the last case reports (and demands) the validations of the native shape oracle against the model and the A-B-A re-runs
    out("oracle_validations single|#i64".to_string());
}

/// groups of shapes that collide under a key a cache could plausibly use (weak polynomial hashes, element count, sorted axes)
fn c01_collision_groups() -> Vec<Vec<Vec<usize>>> {
    let mut g: Vec<Vec<Vec<usize>>> = collision_shape_pairs().into_iter().map(|(a, b)| vec![a, b]).collect();
    for &m in &[31usize, 131] { g.push(vec![vec![1, 3], vec![m + 3]]); g.push(vec![vec![1, 2, 3], vec![m + 2, 3], vec![0, 2 + m, 3]]); }
    g.push(vec![vec![2, 3], vec![2, 259], vec![258, 3]]);
    g.push(vec![vec![2, 6], vec![3, 4], vec![4, 3], vec![6, 2], vec![12], vec![1, 12], vec![12, 1], vec![2, 2, 3], vec![2, 3, 2], vec![3, 2, 2]]);
    g.push(vec![vec![2, 3, 4], vec![4, 3, 2], vec![3, 4, 2], vec![2, 4, 3], vec![24], vec![4, 6], vec![6, 4]]);
    g.push(vec![vec![2, 3], vec![3, 2], vec![6], vec![1, 6], vec![6, 1], vec![1, 2, 3], vec![2, 3, 1], vec![2, 1, 3]]);
    g.push(vec![vec![16, 17], vec![17, 16], vec![272], vec![2, 136], vec![136, 2]]);
    g
}

/// robustness streams, part 2 (after the third round of seeded changes)
fn gen_part2(thorough: bool, seed: u64, out: &mut dyn FnMut(String)) {
    let prod = |s: &[usize]| s.iter().product::<usize>();
    // (vii) the std-trait steps (FromIterator / IntoIterator / Clone / re-entrant closures) as chains on base arrays of every element type
    let bases: Vec<Vec<usize>> = vec![vec![], vec![0], vec![1], vec![4], vec![10], vec![2, 3], vec![3, 1], vec![2, 0], vec![2, 2, 2], vec![2, 3, 4], vec![1, 2, 1, 2], vec![0, 0], vec![2, 3, 0], vec![33], vec![5, 7], vec![17, 2], vec![2, 1, 2, 1, 2, 1], vec![300]];
    let all9 = ["i32", "i64", "u8", "usize", "f64", "bool", "str", "t2", "isize", "i8"];
    let mut std_ops: Vec<&str> = OPS_STD.to_vec(); std_ops.sort(); std_ops.dedup();
    for (oi, op) in std_ops.iter().enumerate() {
        for (ti, ty) in all9.iter().enumerate() {
            for (bi, base) in bases.iter().enumerate() {
                let ctor = ["u.it_empty", "u.it_once", "u.it_range", "u.it_range_filter", "u.it_unbounded", "u.it_from_fn", "u.it_huge_hint", "u.it_repeat_take"].contains(op);
                if ctor && bi >= 8 { continue; }
                if bi >= 11 && (ti + bi + oi) % 3 != 0 && !thorough { continue; }
                let reps = if op.starts_with("u.clone_from") { 4 } else if thorough { 2 } else { 1 };
                for rep in 0..reps {
                    let mut g = G::new(0x57D + (oi * 10000 + ti * 1000 + bi * 10 + rep) as u64, if *ty == "isize" { "i64" } else { ty }); g.r3 = true; g.big = true;
                    if !ctor { g.fresh(ty, base); }
                    if g.emit(op) { emit_chain(&g, out); }
                }
            }
        }
    }
    // the literal shapes of the std documentation examples, every element type
    for ty in all9 {
        out(format!("u.it_range_filter u.it_range_filter|10|2|1|#{ty}|=A5 reshape|@0|5 transpose|@1|none"));
        out(format!("u.clone_from flat|6|#{ty} new|6|1|2,3|#{ty} u.clone_from|@0|@1|direct|=A2,3 transpose|@2|none reshape|@2|3,2 u.clone_from|@1|@0|direct|=A6 ravel|@5"));
        out(format!("u.clone_from_list new|12|0|3,4|#{ty} new|4|0|4|#{ty} array_split|@0|2|1 array_split|@1|2|0 u.clone_from_list|@L3|@L2|vec|=L3,2/3,2 member|@4|0 transpose|@5|none"));
    }
    // (viii) hidden state: colliding shapes back to back through the count-checking constructors and reshapes, both orders,
    //        failing calls directly followed by valid ones, and the same arguments through different element types
    let tys = ["i64", "u8", "f64", "i32", "bool", "i8", "str", "usize"];
    for (gi, grp) in c01_collision_groups().iter().enumerate() {
        for order in 0..2 {
            let g: Vec<Vec<usize>> = if order == 0 { grp.clone() } else { grp.iter().rev().cloned().collect() };
            let m = g.len();
            let mut steps: Vec<String> = vec![];
            for (k, s) in g.iter().enumerate() { steps.push(format!("new|{}|0|{}|#{}", prod(s), show_list(s), tys[(gi + k) % tys.len()])); }
            // every member asked for the shape of its neighbour (refused unless the counts agree), then for its own again
            for k in 0..m { let nb = &g[(k + 1) % m]; steps.push(format!("reshape|@{}|{}", k, show_list(nb))); steps.push(format!("new|{}|0|{}|#{}", prod(&g[k]), show_list(nb), tys[(gi + k) % tys.len()])); steps.push(format!("reshape|@{}|{}", k, show_list(&g[k]))); }
            for (k, s) in g.iter().enumerate() { steps.push(format!("zeros|{}|#{}", show_list(s), ["i64", "u8", "f64", "i32"][(gi + k) % 4])); steps.push(format!("create|{}|{}|none|#{}", prod(s), show_list(s), tys[(gi + k + 1) % tys.len()])); }
            for k in 0..m { steps.push(format!("ravel|@{}", k)); let last = steps.len() - 1; steps.push(format!("reshape|@{}|{}", last, show_list(&g[k]))); steps.push(format!("resize|@{}|{}", k, show_list(&g[(k + 1) % m]))); steps.push(format!("broadcast_to|@{}|{}", k, show_list(&g[k]))); }
            out(format!("reshape {}", steps.join(" ")));
            // shape-keyed plans of other operations: the same operation on every member in turn, twice
            if order == 0 && prod(&g[0]) <= 300 {
                for (oi, opt) in ["transpose|@{}|none", "flip|@{}|none", "atleast|@{}|3", "expand_dims|@{}|0", "squeeze|@{}|none", "roll|@{}|1|none", "roll|@{}|1|0", "flip|@{}|0", "map|@{}", "repeat|@{}|2|none", "cycle_take|@{}|5", "array_split|@{}|2|0", "u.it_filter|@{}|2|1", "u.clone|@{}", "sort|@{}|-1|none", "argmax|@{}|0|none", "count_nonzero|@{}|none|none", "delete|@{}|0|0"].iter().enumerate() {
                    let ty = tys[(gi + oi) % 6];
                    // (the models of these five are quadratic: members of up to 600 elements)
                    if ["transpose", "array_split", "sort", "argmax", "delete"].iter().any(|h| opt.starts_with(h)) && g.iter().any(|t| prod(t) > 600) { continue; }
                    let mut gg = G::new(0x41D + (gi * 100 + oi) as u64, "i64"); gg.r3 = false; gg.big = true;
                    for s in &g { gg.push(format!("new|{}|0|{}|#{}", prod(s), show_list(s), ty)); }
                    for _round in 0..2 { for k in 0..m { gg.push(opt.replace("{}", &k.to_string())); } }
                    emit_chain(&gg, out);
                }
            }
        }
    }
    // (ix) huge arrays: 16 384 .. 140 000 elements.  Operations whose model is linear are modelled steps; the ones whose model is
    //      quadratic are `u.` steps judged by the native shape oracle (`native_rec`), which the same run validates against the model
    let mut huge = huge_shapes();
    huge.extend(vec![vec![65537], vec![3, 65537], vec![4, 181, 181], vec![2; 14]]);
    if thorough { huge.extend(vec![vec![140001], vec![7, 131, 151], vec![1, 66000, 2, 1]]); }
    let hty = ["i64", "u8", "bool", "i8", "f64", "i32", "usize"];
    for (hi, s) in huge.iter().enumerate() {
        let (n, r) = (prod(s), s.len());
        let ty = hty[hi % hty.len()];
        let mut rev = s.clone(); rev.reverse();
        let mut g = G::new(0x406E + hi as u64, "i64"); g.big = true;
        g.push(format!("new|{}|0|{}|#{}", n, show_list(s), ty));
        g.push(format!("new|{}|0|{}|#{}", n + 1, show_list(s), ty));
        for st in [format!("reshape|@0|{}", show_list(&rev)), "ravel|@0".to_string(), format!("reshape|@3|{}", show_list(s)), "flip|@0|none".to_string(), "map_e|@0".to_string(), "expand_dims|@0|0,-1".to_string(),
                   "squeeze|@7|none".to_string(), "map|@0".to_string(), "roll|@0|3|none".to_string(), "repeat|@0|2|none".to_string(), "filter_e|@0|3|1".to_string(), "append|@0|@0|none".to_string(),
                   format!("reshape|@0|{}", n + 1), format!("reshape|@0|{},2", n / 2 + 1), "atleast|@0|6".to_string(), "count_nonzero|@0|none|none".to_string(),
                   "u.it_collect|@0".to_string(), "u.it_filter|@0|2|1".to_string(), "u.it_ref|@0".to_string(), "u.clone|@0".to_string(), "u.clone_from|@3|@0|direct".to_string(), "u.clone_from|@0|@3|direct".to_string(),
                   "u.it_take_while|@0|16385".to_string(), "u.it_chain|@0|@3".to_string(),
                   // part 5: closures with memory on the huge arrays (the counting closure is a modelled step; `seen` only where the alphabet is small)
                   "filter_e|@0|7|3|cnt".to_string(), "filter|@0|5|2|cnt".to_string(), "filter_map_e|@0|3|1|cnt".to_string(), "map_e|@0|cnt".to_string(), "u.st_filter_e|@0|first|1000|0".to_string(),
                   format!("u.st_filter|@0|{}", if ["u8", "bool", "i8"].contains(&ty) { "seen|0|0" } else { "budget|77|0" }), format!("u.st_filter_map_e|@0|first|{}|0", n - 1), "u.st_map|@0|cnt|3|1".to_string(), "u.st_fold|@0|-0".to_string()] { g.push(st); }
        // (the model of broadcast_to is quadratic in the SOURCE size: a one-element source)
        let one = g.push(format!("new|1|5|{}|#{}", show_list(&vec![1; r.min(3)]), ty));
        g.push(format!("broadcast_to|@{}|{}", one, show_list(s)));
        g.push(format!("u.it_filter_ref|@{}|3|2", one + 1));
        emit_chain(&g, out);
        // the quadratic-model operations: `u.` steps, native oracle
        let ity = ["i64", "i32", "f64"][hi % 3];
        let mut g = G::new(0x406F + hi as u64, "i64"); g.big = true;
        g.push(format!("new|{}|0|{}|#{}", n, show_list(s), ity));
        // the crate's by-axis operations are quadratic in the number of lanes (some also in the lane length): by-axis calls only where
        // both are moderate (cost, not correctness); whole-array calls on every huge shape
        let kb = (0..r).max_by_key(|&k| s[k]).unwrap_or(0);
        let (lanes, alen) = (n / s[kb], s[kb]);
        let mut sts = vec!["u.transpose|@0|none".to_string(), "u.min|@0|none".to_string(), "u.sum|@0|none".to_string(), "u.cumsum|@0|none".to_string(), "u.sort|@0|none|s:mergesort".to_string(),
            "u.concatenate|@0,0|none".to_string(), "u.concatenate|@0,0,0|none".to_string()];
        if r >= 2 { sts.push(format!("u.transpose|@0|{}", show_list(&(0..r as isize).map(|k| { let v = (k + 1) % r as isize; if k % 2 == 1 { v - r as isize } else { v } }).collect::<Vec<_>>()))); sts.push("u.swapaxes|@0|0|-1".to_string()); }
        if lanes <= 400 {
            let heavy_kind = if alen > 400 { "s:heapsort" } else { "none" };
            sts.extend(vec![format!("u.sum|@0|{kb}"), format!("u.max|@0|{}", kb as isize - r as isize), format!("u.cumsum|@0|{kb}"), format!("u.sort|@0|{kb}|{heavy_kind}"), format!("u.array_split|@0|{}|{kb}", alen.min(70)), format!("u.array_split|@0|7|{kb}")]);
            if alen <= 400 && r >= 2 {
                sts.extend(vec![format!("u.argsort|@0|{kb}|none"), format!("u.argmax|@0|{kb}|none"), format!("u.argmin|@0|{}|true", kb as isize - r as isize), format!("u.count_nonzero|@0|{kb}|false"),
                    format!("u.concatenate|@0,0,0|{kb}"), format!("u.concatenate|@0,0|{}", (kb + 1) % r), format!("u.delete|@0|1,0|{kb}"), format!("u.delete|@0|0|{}", (kb + 1) % r)]);
            }
        }
        for st in sts { g.push(st); }
        emit_chain(&g, out);
    }
    // (x) seeded random chains: ranks up to 8, long unsorted argument lists, > 64 parts, aliased operands, the std-trait steps in between
    let (n_chains, max_len) = if thorough { (9000, 30) } else { (2600, 12) };
    let ops = all_ops();
    let mut top = Rng::new(seed ^ 0x0A11_A5ED);
    for c in 0..n_chains {
        let ty = TYPES2[top.below(TYPES2.len())];
        let mut g = G::new(top.next() ^ c as u64, ty); g.r3 = true;
        let len = 2 + g.rng.below(max_len);
        let s0 = g.shape(); g.fresh(ty, &s0);
        let mut tries = 0;
        while g.steps.len() < len && tries < 4 * max_len {
            tries += 1;
            match g.rng.below(10) {
                0..=2 => { let op = OPS_STD[g.rng.below(OPS_STD.len())]; g.emit(op); }
                3..=5 => { let op = OPS_LONG[g.rng.below(OPS_LONG.len())]; g.emit_long(op); }
                6 => { let op = if g.coin(30) { CTORS[g.rng.below(CTORS.len())].to_string() } else { OPS_ALL[g.rng.below(OPS_ALL.len())].to_string() }; g.emit(&op); }
                _ => { let op = ops[g.rng.below(ops.len())].clone(); g.emit(&op); }
            }
        }
        emit_chain(&g, out);
    }
}

/// robustness streams, part 5 (after the fifth round of seeded changes): (23) closures whose answers change between calls,
/// (24) axis lists that name one axis twice in the two spellings (k and k - rank) or hold an invalid entry next to valid ones
fn gen_part5(thorough: bool, seed: u64, out: &mut dyn FnMut(String)) {
    let prod = |s: &[usize]| s.iter().product::<usize>();
    let all10 = ["i64", "u8", "f64", "str", "bool", "i32", "t2", "i8", "usize", "isize"];
    let gty = |ty: &'static str| -> &'static str { if ty == "isize" { "i64" } else { ty } };
    // (xi) every closure-taking operation x every kind of closure memory, on a sawtooth array (repeated values: a short array cycled into
    //      the base shape) and on an array of distinct values; ten element types x base shapes incl. rank 0, zero-length axes, 300 elements
    let bases: Vec<Vec<usize>> = vec![vec![], vec![0], vec![1], vec![4], vec![8], vec![2, 3], vec![3, 3], vec![2, 0], vec![2, 2, 2], vec![2, 3, 4], vec![1, 2, 1, 2], vec![0, 0], vec![33], vec![5, 7], vec![300]];
    let st_ops = ["st_filter", "st_filter_e", "st_filter_map", "st_filter_map_e", "st_map", "st_map_e"];
    for (ti, ty) in all10.iter().enumerate() {
        for (bi, base) in bases.iter().enumerate() {
            let (n, r) = (prod(base), base.len());
            let kinds: Vec<(&str, usize, usize)> = vec![("cnt", 2, 1), ("cnt", 3, 2), ("cnt", 3, 0), ("cnt", 4, 3), ("first", 0, 0), ("first", 1, 0), ("first", n / 2, 0), ("first", n, 0), ("first", n + 1, 0),
                ("seen", 0, 0), ("budget", 1, 0), ("budget", 3, 0), ("run", 0, 0), ("toggle", 0, 0)];
            let start = |g: &mut G| { let k = 2 + g.rng.below(3); let off = g.rng.range(-2, 3); g.push(format!("new|{k}|{off}|{k}|#{ty}")); g.push(format!("resize|@0|{}", show_list(base))); g.fresh(ty, base); };
            // (a) monitor + native expectation (`u.st_*`)
            let mut g = G::new(0x5EA7 + (ti * 100 + bi) as u64, gty(ty)); g.big = true; g.r5 = true;
            start(&mut g);
            for src in [1usize, 2] {
                for (oi, op) in st_ops.iter().enumerate() { for (ki, (k, p, q)) in kinds.iter().enumerate() {
                    if src == 2 && (oi + ki + ti) % 3 != 0 { continue; }
                    g.push(format!("u.{op}|@{src}|{k}|{p}|{q}"));
                } }
                for sd in ["nan", "inf", "-inf", "-0", "0", "max", "tiny"] { if src == 1 || sd == "nan" { g.push(format!("u.st_fold|@{src}|{sd}")); } }
                g.push(format!("u.st_for_each|@{src}")); g.push(format!("u.st_for_each_e|@{src}"));
                if src == 1 { for ax in 0..=r { let d = base.get(ax).copied().unwrap_or(1); for f in ["alt".to_string(), "grow0".to_string(), "grow1".to_string(), format!("grow{d}"), "once0".to_string(), format!("once{}", d + 1)] { g.push(format!("u.st_apply|@1|{ax}|{f}")); } } }
            }
            // the results travel on through the chain
            let last = g.store.len();
            for k in [3usize, 8, 12, 13, 20, 40] { if k < last && !matches!(g.store[k], V::Nil | V::L(_) | V::Opq(_)) { g.push(format!("ravel|@{k}")); g.push(format!("atleast|@{k}|2")); g.push(format!("transpose|@{}|none", g.store.len() - 1)); } }
            emit_chain(&g, out);
            // (b) the counting closure through the modelled steps: the store machine predicts the shape
            let mut g = G::new(0x5EA8 + (ti * 100 + bi) as u64, gty(ty)); g.big = true; g.r5 = true;
            start(&mut g);
            for src in [1usize, 2] {
                for (m, t) in [(2usize, 1usize), (3, 1), (3, 2), (4, 3), (1, 0), (1, 1), (n + 1, n / 2), (n + 1, n), (5, 2), (7, 3)] {
                    for op in ["filter_e", "filter", "filter_map_e", "filter_map"] { g.push(format!("{op}|@{src}|{m}|{t}|cnt")); }
                }
                g.push(format!("map|@{src}|cnt")); g.push(format!("map_e|@{src}|cnt"));
                for ax in 0..=r { g.push(format!("apply_along_axis|@{src}|{ax}|alt")); }
            }
            let last = g.store.len();
            for k in [3usize, 5, 9, 14, 30] { if k < last && !matches!(g.store[k], V::Nil | V::L(_) | V::Opq(_)) { g.push(format!("reshape|@{k}|{}", show_list(&g.sh(k)))); g.push(format!("expand_dims|@{k}|0")); } }
            emit_chain(&g, out);
        }
    }
    // (xii) axis lists: for ranks 2..5 (two shapes each, one with all axes equal: a wrong permutation is then still consistent and only the
    //       shape tie sees it), EVERY ordered pair of positions of the list names one axis in both spellings; an out-of-range entry
    //       (rank, -rank-1) at every position next to valid ones; transpose, moveaxis (source, destination), flip, roll, rot90,
    //       expand_dims, squeeze, norm; and every value -rank-2 ..= rank+1 for the single-axis arguments
    let shapes: Vec<Vec<usize>> = vec![vec![2, 3], vec![3, 3], vec![2, 3, 4], vec![2, 2, 2], vec![2, 3, 1, 2], vec![2, 2, 2, 2], vec![2, 1, 3, 2, 2], vec![2, 2, 2, 2, 2], vec![1, 3, 1], vec![1, 1], vec![2, 1, 1, 3], vec![1, 2, 1, 1, 2], vec![2, 0, 3]];
    let sp = |x: usize, neg: bool, r: usize| -> isize { if neg { x as isize - r as isize } else { x as isize } };
    for (si, s) in shapes.iter().enumerate() {
        let r = s.len();
        let tys: Vec<&'static str> = if thorough { all10.to_vec() } else { vec![all10[si % 10], all10[(si + 3) % 10], all10[(si + 6) % 10]] };
        for (ti, ty) in tys.iter().enumerate() {
            let perms: Vec<Vec<usize>> = { let id: Vec<usize> = (0..r).collect(); let mut rev = id.clone(); rev.reverse(); let mut rot = id.clone(); rot.rotate_left(1); let mut v = vec![id, rev, rot]; v.dedup(); v.sort(); v.dedup(); v };
            // transpose
            let mut g = G::new(0xD0B1 + (si * 10 + ti) as u64, gty(ty)); g.r3 = true; g.r5 = true;
            g.fresh(ty, s);
            for (pi, p) in perms.iter().enumerate() {
                for a in 0..r { for b in 0..r { if a == b { continue; } for var in 0..3 {
                    // var 0: the others non-negative, position b = p[a] - r; var 1: position a negative, b non-negative; var 2: the others in random spellings
                    let mut v: Vec<isize> = (0..r).map(|k| sp(p[k], var == 2 && (k + pi + a) % 2 == 0, r)).collect();
                    match var { 0 => { v[a] = sp(p[a], false, r); v[b] = sp(p[a], true, r); } 1 => { v[a] = sp(p[a], true, r); v[b] = sp(p[a], false, r); } _ => { v[b] = if v[a] >= 0 { v[a] - r as isize } else { v[a] + r as isize }; } }
                    g.push(format!("transpose|@0|{}", show_list(&v)));
                } } }
                for b in 0..r { for bad_entry in [r as isize, -(r as isize) - 1] { let mut v: Vec<isize> = (0..r).map(|k| sp(p[k], (k + b) % 2 == 0, r)).collect(); v[b] = bad_entry; g.push(format!("transpose|@0|{}", show_list(&v))); } }
                g.push(format!("transpose|@0|{}", show_list(&p.iter().enumerate().map(|(k, &x)| sp(x, k % 2 == 1, r)).collect::<Vec<_>>())));
            }
            let ok: Vec<usize> = (1..g.store.len()).filter(|&k| !matches!(g.store[k], V::Nil)).collect();
            if let Some(&k) = ok.last() { g.push(format!("ravel|@{k}")); g.push(format!("transpose|@{k}|none")); }
            emit_chain(&g, out);
            // moveaxis / flip / roll / rot90 / expand_dims / squeeze / norm
            let mut g = G::new(0xD0B2 + (si * 10 + ti) as u64, gty(ty)); g.r3 = true; g.r5 = true;
            g.fresh(ty, s);
            for x in 0..r { for y in 0..r {
                let (xn, xp, yn, yp) = (sp(x, true, r), sp(x, false, r), sp(y, true, r), sp(y, false, r));
                if x == y {
                    // the same axis twice: both spellings in both orders, then the single spellings
                    for (u, w) in [(xp, xn), (xn, xp), (xp, xp), (xn, xn)] {
                        g.push(format!("flip|@0|{u},{w}")); g.push(format!("roll|@0|1,2|{u},{w}")); g.push(format!("rot90|@0|1|{u},{w}")); g.push(format!("squeeze|@0|{u},{w}"));
                        let z = (x + 1) % r;
                        g.push(format!("moveaxis|@0|{u},{w}|{},{}", z, sp(x, false, r))); g.push(format!("moveaxis|@0|{},{}|{u},{w}", z, sp(x, true, r)));
                        g.push(format!("moveaxis|@0|{u},{w}|{u},{w}"));
                    }
                } else {
                    // three entries: x, y and x again in the other spelling, at every position of the repeat
                    for (l, sh3) in [(vec![xp, yp, xn], "1,2,3"), (vec![xn, yn, xp], "1,2,3"), (vec![xp, xn, yp], "3,1,2"), (vec![yn, xp, xn], "2,2,2")] {
                        g.push(format!("flip|@0|{}", show_list(&l))); g.push(format!("roll|@0|{sh3}|{}", show_list(&l))); g.push(format!("squeeze|@0|{}", show_list(&l)));
                        if r >= 3 { let z = (0..r).find(|&k| k != x && k != y).unwrap(); g.push(format!("moveaxis|@0|{}|{},{},{}", show_list(&l), y, z, x)); g.push(format!("moveaxis|@0|{},{},{}|{}", z, x, y, show_list(&l))); }
                    }
                    // valid mixed spellings next to them
                    g.push(format!("squeeze|@0|{xp},{yn}")); g.push(format!("squeeze|@0|{yn},{xp}")); g.push(format!("flip|@0|{xp},{yn}")); g.push(format!("roll|@0|1,-1|{xn},{yp}")); g.push(format!("rot90|@0|1|{xp},{yn}")); g.push(format!("rot90|@0|3|{xn},{yp}")); g.push(format!("moveaxis|@0|{xp},{yn}|{yp},{xn}"));
                    // an out-of-range entry next to a valid one
                    for bad_entry in [r as isize, -(r as isize) - 1] { g.push(format!("flip|@0|{xp},{bad_entry}")); g.push(format!("roll|@0|1,1|{bad_entry},{yn}")); g.push(format!("rot90|@0|1|{xn},{bad_entry}")); g.push(format!("squeeze|@0|{bad_entry},{yp}")); g.push(format!("moveaxis|@0|{xp},{bad_entry}|{yp},{xn}")); g.push(format!("moveaxis|@0|{xp},{yn}|{bad_entry},{xn}")); }
                }
            } }
            // expand_dims: positions of the RESULT rank (r + number of entries)
            for cnt in [2usize, 3] { let fr = r + cnt; for x in 0..fr { for y in 0..fr {
                if cnt == 2 && x == y { for (u, w) in [(sp(x, false, fr), sp(x, true, fr)), (sp(x, true, fr), sp(x, false, fr))] { g.push(format!("expand_dims|@0|{u},{w}")); } }
                if cnt == 2 && x != y && (x + y) % 2 == 0 { g.push(format!("expand_dims|@0|{},{}", sp(x, true, fr), sp(y, false, fr))); }
                if cnt == 3 && x != y && (x + 2 * y + si) % 3 == 0 { g.push(format!("expand_dims|@0|{},{},{}", sp(x, false, fr), sp(y, true, fr), sp(x, true, fr))); g.push(format!("expand_dims|@0|{},{},{}", sp(y, false, fr), sp(x, true, fr), sp(x, false, fr))); }
            } }
                for bad_entry in [fr as isize, -(fr as isize) - 1] { g.push(format!("expand_dims|@0|0,{bad_entry}")); if cnt == 3 { g.push(format!("expand_dims|@0|{bad_entry},-1,1")); } }
            }
            emit_chain(&g, out);
            // norm (monitor-only) and the single-axis arguments
            let nty = ["i64", "f64", "i32"][(si + ti) % 3];
            let mut g = G::new(0xD0B3 + (si * 10 + ti) as u64, nty); g.r3 = true; g.r5 = true;
            g.fresh(nty, s);
            for x in 0..r { for y in 0..r { let (xn, xp, yn) = (sp(x, true, r), sp(x, false, r), sp(y, true, r));
                if x == y { for ord in ["none", "fro", "1"] { for kd in ["none", "true"] { g.push(format!("u.norm|@0|{ord}|{xp},{xn}|{kd}")); g.push(format!("u.norm|@0|{ord}|{xn},{xp}|{kd}")); } } }
                else { g.push(format!("u.norm|@0|none|{xp},{yn}|none")); g.push(format!("u.norm|@0|fro|{xn},{yn}|true")); g.push(format!("u.norm|@0|1|{xp},{}|false", r)); }
            } }
            for ax in -(r as isize) - 2..=r as isize + 1 {
                // (max / min of an array without elements: the model panics where the crate refuses - recorded, not judged, and the comparison of the chain would stop there)
                for op in ["sum", "prod", "nansum", "max", "min", "amax", "nanmin", "cumsum", "cumprod", "nancumsum"] { if prod(s) == 0 && ["max", "min", "amax", "nanmin"].contains(&op) { continue; } g.push(format!("{op}|@0|{ax}")); }
                for kd in ["none", "true", "false"] { g.push(format!("count_nonzero|@0|{ax}|{kd}")); g.push(format!("argmax|@0|{ax}|{kd}")); g.push(format!("argmin|@0|{ax}|{kd}")); }
                g.push(format!("sort|@0|{ax}|none")); g.push(format!("argsort|@0|{ax}|s:mergesort")); g.push(format!("unique|@0|{ax}")); g.push(format!("rollaxis|@0|{ax}|none")); g.push(format!("rollaxis|@0|0|{ax}"));
                g.push(format!("swapaxes|@0|{ax}|0")); g.push(format!("swapaxes|@0|-1|{ax}")); g.push(format!("u.norm|@0|none|{ax}|none")); g.push(format!("diff|@0|1|{ax}|none|none")); g.push(format!("u.unwrap_phase|@0|{ax}"));
            }
            emit_chain(&g, out);
        }
    }
    // (xiv) class 20, sizes above 2^24 (where `as f32` arithmetic on a count stops being exact) for the cheap operations: byte-sized element
    //       types, a few steps per chain (every chain well under a second), `u.` steps judged by the monitor and the native shape oracle
    //       (validated against the model on the modelled steps of the run); the model store keeps no entry for these results (`=G`).
    //       (broadcast_to is not among them: the crate needs 2.7 s for 2^24 elements - cost, see the TIMING RULE)
    let big = (1usize << 24) + 1;
    let mut giant: Vec<(&str, Vec<String>)> = vec![
        ("u8", vec!["new|2|0|2|#u8".into(), format!("u.resize|@0|{big}"), "u.resize|@1|3".into()]),
        ("u8", vec!["new|3|1|3|#u8".into(), format!("u.cycle_take|@0|{big}"), "u.ravel|@1".into()]),
        ("u8", vec!["new|2|0|2|#u8".into(), format!("u.repeat|@0|{}|none", big / 2 + 1), format!("u.reshape|@1|2,{}", big / 2 + 1)]),
        ("u8", vec![format!("u.zeros|{big}|#u8"), format!("u.reshape|@0|1,{big}"), format!("u.reshape|@0|{}", big - 1)]),
        ("u8", vec![format!("u.ones|{big}|#u8"), "u.flip|@0|none".into()]),
        ("u8", vec![format!("u.full|{big}|#u8"), "u.map|@0".into(), "u.filter_e|@0|2|1|cnt".into()]),
        ("u8", vec![format!("u.new|{big}|0|{big}|#u8"), format!("u.reshape|@0|{big},1"), "u.filter_map_e|@0|3|1".into()]),
    ];
    if thorough { for ty in ["bool", "i8"] { let b3 = big + 2;
        giant.push((ty, vec![format!("new|2|0|2|#{ty}"), format!("u.resize|@0|{b3}"), "u.ravel|@1".into()]));
        giant.push((ty, vec![format!("new|1|1|1,1|#{ty}"), format!("u.cycle_take|@0|{b3}"), format!("u.reshape|@1|{b3},1,1")]));
        giant.push((ty, vec![format!("u.new|{b3}|0|1,{b3}|#{ty}"), "u.map_e|@0".into(), "u.filter_e|@0|5|2".into()]));
    } }
    for (gi, (ty, steps)) in giant.into_iter().enumerate() {
        let mut g = G::new(0x61A7 + gi as u64, gty(ty)); g.big = true;
        for st in steps { g.push(st); }
        emit_chain(&g, out);
    }
    // (xiii) seeded random chains in which the closure-taking steps carry closures with memory and a third of the axis lists name an axis twice
    let (n_chains, max_len) = if thorough { (12000, 30) } else { (3000, 12) };
    let ops = all_ops();
    let closure_ops = ["filter_e", "filter_map_e", "filter", "filter_map", "map", "map_e", "apply_along_axis"];
    let axis_ops = ["transpose", "moveaxis", "flip", "roll", "rot90", "expand_dims", "squeeze", "u.norm"];
    let mut top = Rng::new(seed ^ 0x57A7_E5);
    for c in 0..n_chains {
        let ty = TYPES2[top.below(TYPES2.len())];
        let mut g = G::new(top.next() ^ c as u64, ty); g.r5 = true; g.r3 = c % 3 == 0;
        let len = 2 + g.rng.below(max_len);
        let s0 = g.shape(); g.fresh(ty, &s0);
        // a second base with repeated values
        if g.coin(50) { let s1 = g.shape(); g.push(format!("resize|@0|{}", show_list(&s1))); }
        let mut tries = 0;
        while g.steps.len() < len && tries < 4 * max_len {
            tries += 1;
            match g.rng.below(10) {
                0..=2 => { let op = OPS_ST[g.rng.below(OPS_ST.len())]; g.emit(op); }
                3..=4 => { let op = closure_ops[g.rng.below(closure_ops.len())]; g.emit(op); }
                5..=7 => { let op = axis_ops[g.rng.below(axis_ops.len())]; if g.coin(50) { g.emit_long(op); } else { g.emit(op); } }
                _ => { let op = ops[g.rng.below(ops.len())].clone(); g.emit(&op); }
            }
        }
        emit_chain(&g, out);
    }
}

// ---------------------------------------------------------------- exec: re-run the chain, monitor, compare with the model

fn step_refs(step: &str) -> Vec<usize> {
    let mut out = vec![];
    for f in step.split('|').skip(1) {
        if let Some(r) = f.strip_prefix("@L") { if let Ok(i) = r.parse() { out.push(i); } }
        else if let Some(r) = f.strip_prefix('@') { for x in r.split(',') { if let Ok(i) = x.parse() { out.push(i); } } }
    }
    out
}
/// the sub-chain step `k` depends on (transitively), renumbered: the failing chain with every irrelevant step dropped
fn shrink(steps: &[&str], k: usize) -> Vec<String> {
    let mut need = vec![false; k + 1];
    need[k] = true;
    for i in (0..=k).rev() { if need[i] { for r in step_refs(steps[i]) { if r < i { need[r] = true; } } } }
    let mut newidx = vec![usize::MAX; k + 1];
    let mut n = 0;
    for i in 0..=k { if need[i] { newidx[i] = n; n += 1; } }
    let ren = |i: usize| -> String { newidx.get(i).copied().filter(|&x| x != usize::MAX).map_or("999".into(), |x| x.to_string()) };
    (0..=k).filter(|&i| need[i]).map(|i| {
        steps[i].split('|').map(|f| {
            if let Some(r) = f.strip_prefix("@L") { r.parse().map_or(f.to_string(), |x: usize| format!("@L{}", ren(x))) }
            else if let Some(r) = f.strip_prefix('@') { if r.is_empty() { f.to_string() } else { format!("@{}", r.split(',').map(|x| x.parse().map_or(x.to_string(), |y: usize| ren(y))).collect::<Vec<_>>().join(",")) } }
            else { f.to_string() }
        }).collect::<Vec<_>>().join("|")
    }).collect()
}
// ---------------------------------------------------------------- harness-native shape oracle (huge arrays)

/// Operations whose Lean model is quadratic in the element count (one list `drop` per lane / piece) are, on arrays of 16 384 ..
/// 140 000 elements, emitted as `u.` steps and judged by this oracle: the result shape written down directly from the
/// operation's documented meaning.  The oracle is VALIDATED AGAINST THE MODEL on every modelled step of the same run it
/// applies to (thousands of smaller cases; counted, and the run fails if the count is zero or any validation disagrees).
/// `None` = the oracle does not speak about this call (invalid arguments, empty arrays, rank-1 reductions, ...); where it speaks, a
/// REFUSAL of the crate is a disagreement as well (and a refusal of the model on a modelled step a failed validation).
fn native_rec(st: &[V], name: &str, a: &[&str]) -> Option<String> {
    let sh = |k: usize| -> Option<Vec<usize>> { let v = get(st, a.get(k)?)?; if matches!(v, V::L(_) | V::Nil) { None } else { shape_of(v) } };
    let norm = |ax: isize, r: usize| -> Option<usize> { let x = if ax < 0 { ax + r as isize } else { ax }; if x >= 0 && (x as usize) < r { Some(x as usize) } else { None } };
    let arr = |t: &[usize]| format!("A{}", show_list(t));
    // constructors (part 5, sizes above 2^24)
    if ["zeros", "ones", "full"].contains(&name) { let t = ul(a[0]); return if t.iter().product::<usize>() == 0 { None } else { Some(arr(&t)) }; }
    if name == "new" { let (n, t) = (us(a[0]), ul(a[2])); return if n == 0 || n != t.iter().product::<usize>() { None } else { Some(arr(&t)) }; }
    let s = if name == "concatenate" { vec![] } else { sh(0)? };
    let (r, n) = (s.len(), s.iter().product::<usize>());
    if name != "concatenate" && n == 0 { return None; }
    let without = |k: usize| -> Vec<usize> { let mut t = s.clone(); t.remove(k); t };
    match name {
        "transpose" => match oil(a[1]) {
            None => { let mut t = s.clone(); t.reverse(); Some(arr(&t)) }
            Some(p) => { if p.len() != r { return None; } let q: Vec<usize> = p.iter().map(|&x| norm(x, r)).collect::<Option<_>>()?;
                let mut seen = vec![false; r]; for &k in &q { if seen[k] { return None; } seen[k] = true; } Some(arr(&q.iter().map(|&k| s[k]).collect::<Vec<_>>())) }
        },
        "swapaxes" => { let (i, j) = (norm(is(a[1]), r)?, norm(is(a[2]), r)?); let mut t = s.clone(); t.swap(i, j); Some(arr(&t)) }
        // the cheap operations that run above 2^24 elements (part 5)
        "resize" => { let t = ul(a[1]); if t.iter().product::<usize>() == 0 { None } else { Some(arr(&t)) } }
        "reshape" => { let t = ul(a[1]); if t.iter().product::<usize>() != n { None } else { Some(arr(&t)) } }
        "ravel" => Some(arr(&[n])),
        "cycle_take" => { let k = us(a[1]); if k == 0 { None } else { Some(arr(&[k])) } }
        "repeat" => { if a[2] != "none" { return None; } let reps = ul(a[1]); if reps.len() != 1 || reps[0] == 0 { return None; } Some(arr(&[n * reps[0]])) }
        "broadcast_to" => { let t = ul(a[1]); if t.len() < r || t.iter().product::<usize>() == 0 { return None; } let off = t.len() - r;
            if (0..r).any(|k| s[k] != t[off + k] && s[k] != 1) { return None; } Some(arr(&t)) }
        "flip" => { if a[1] != "none" { return None; } Some(arr(&s)) }
        "map" | "map_e" => Some(arr(&s)),
        "filter_e" | "filter_map_e" => { let (m, t) = (us(a[1]).max(1), us(a[2])); let c = (n / m) * t.min(m) + (n % m).min(t); if c == 0 { None } else { Some(arr(&[c])) } }
        "sum" | "prod" | "max" | "min" | "amax" | "amin" => match oisz(a[1]) { None => Some(arr(&[1])), Some(ax) => { if r < 2 { return None; } Some(arr(&without(norm(ax, r)?))) } },
        "cumsum" | "cumprod" => match oisz(a[1]) { None => Some(arr(&[n])), Some(ax) => { norm(ax, r)?; Some(arr(&s)) } },
        "sort" | "argsort" => { if a[2] != "none" && kind_enum(a[2].strip_prefix("s:")?).is_none() { return None; } match oisz(a[1]) { None => Some(arr(&[n])), Some(ax) => { norm(ax, r)?; Some(arr(&s)) } } }
        "argmax" | "argmin" | "count_nonzero" => { if r < 2 { return None; } let k = norm(oisz(a[1])?, r)?; match obool(a[2]) { Some(true) => { let mut t = s.clone(); t[k] = 1; Some(arr(&t)) } _ => Some(arr(&without(k))) } }
        "concatenate" => {
            if a[0].starts_with("@L") { return None; }
            let ids: Vec<usize> = a[0].strip_prefix('@')?.split(',').map(|x| x.parse().ok()).collect::<Option<_>>()?;
            let shapes: Vec<Vec<usize>> = ids.iter().map(|&k| { let v = st.get(k)?; if matches!(v, V::L(_) | V::Nil) { None } else { shape_of(v) } }).collect::<Option<_>>()?;
            if shapes.len() < 2 || shapes.iter().any(|t| t.iter().product::<usize>() == 0) { return None; }
            match ousz(a[1]) {
                None => Some(arr(&[shapes.iter().map(|t| t.iter().product::<usize>()).sum()])),
                Some(k) => { let f = &shapes[0]; if k >= f.len() || f.len() < 2 { return None; }
                    if shapes.iter().any(|t| t.len() != f.len() || (0..f.len()).any(|d| d != k && t[d] != f[d])) { return None; }
                    let mut t = f.clone(); t[k] = shapes.iter().map(|x| x[k]).sum(); Some(arr(&t)) }
            }
        }
        "array_split" => { let p = us(a[1]); let k = ousz(a[2]).unwrap_or(0); if k >= r || p == 0 || p > s[k] { return None; }
            let (d, m) = (s[k] / p, s[k] % p);
            Some(format!("L{}", (0..p).map(|j| { let mut t = s.clone(); t[k] = if j < m { d + 1 } else { d }; show_list(&t) }).collect::<Vec<_>>().join("/"))) }
        "delete" => { let k = ousz(a[2])?; if k >= r || r < 2 { return None; } let mut ix = ul(a[1]); ix.sort(); ix.dedup(); if ix.iter().any(|&x| x >= s[k]) || ix.len() >= s[k] { return None; }
            let mut t = s.clone(); t[k] -= ix.len(); Some(arr(&t)) }
        _ => None,
    }
}
static ORACLE_VALIDATED: std::sync::atomic::AtomicUsize = std::sync::atomic::AtomicUsize::new(0);
static ORACLE_JUDGED: std::sync::atomic::AtomicUsize = std::sync::atomic::AtomicUsize::new(0);
static ABA_RERUNS: std::sync::atomic::AtomicUsize = std::sync::atomic::AtomicUsize::new(0);

fn run_chain(steps: &[&str]) -> (Vec<String>, Vec<(usize, String)>, Vec<Option<String>>) {
    let mut store: Vec<V> = vec![];
    let mut recs = vec![];
    let mut bad = vec![];
    let mut natives = vec![];
    for (i, st) in steps.iter().enumerate() {
        let mut b = vec![];
        let fields: Vec<&str> = st.split('|').filter(|f| !f.starts_with('#') && !f.starts_with('=')).collect();
        natives.push(catch_unwind(AssertUnwindSafe(|| native_rec(&store, fields[0].strip_prefix("u.").unwrap_or(fields[0]), &fields[1..]))).unwrap_or(None));
        let o = run_step(&store, st, &mut b);
        for m in b { bad.push((i, m)); }
        let mut rec = if o.cls == "unknown" { "?".to_string() } else { record(&o) };
        // a value-tied step (last field `v`): the element values are part of the record
        if st.ends_with("|v") && VALUE_TIED.contains(&fields[0]) { if let (true, V::I64(arr)) = (o.cls == "ok", &o.v) { rec = format!("{}:{}", rec, show_list(&arr.get_elements().unwrap_or_default())); } }
        recs.push(rec);
        store.push(if o.cls == "ok" { o.v } else { V::Nil });
    }
    (recs, bad, natives)
}
fn label_of(step: &str) -> &str { step.split('|').next().unwrap_or("") }
/// the result record of a `u.` step as it is written into the case line: an array above 2^22 elements is written `G<shape>` - the
/// model store keeps no entry for it (the driver answers `X`), so that the Lean side never builds a list of 16 million tags
fn ext_field(rec: &str) -> String {
    if let Some(sh) = rec.strip_prefix('A') { if sh != "-" && sh.split(',').filter_map(|x| x.parse::<usize>().ok()).product::<usize>() > (1 << 22) { return format!("G{sh}"); } }
    rec.to_string()
}

thread_local! {
    static PREV_CHAIN: RefCell<Option<(String, Vec<String>)>> = const { RefCell::new(None) };
    static ABA_TICK: Cell<usize> = const { Cell::new(0) };
}

fn exec(_op: &str, args: &[&str], expected: &str) -> Option<Verdict> {
    let exp: Vec<&str> = expected.strip_prefix("ok ")?.split(';').collect();
    if exp.len() != args.len() { return None; }
    TWIN_ON.with(|c| c.set(true));
    let (recs, bad, natives) = run_chain(args);
    if recs.iter().any(|r| r == "?") { return None; }
    let observed = format!("ok {}", recs.join(";"));
    // A-B-A (hidden state): every fourth chain, the previous chain is run again after this one and must answer as before
    let aba = PREV_CHAIN.with(|p| {
        let mut p = p.borrow_mut();
        let mut finding = None;
        if let Some((line, old)) = p.as_ref() {
            if ABA_TICK.with(|c| { c.set(c.get() + 1); c.get() % 4 == 0 }) && !line.split(' ').any(|st| st.starts_with("rand|")) {
                let steps: Vec<&str> = line.split(' ').collect();
                let (again, bad_again, _) = run_chain(&steps);
                ABA_RERUNS.fetch_add(1, std::sync::atomic::Ordering::Relaxed);
                if &again != old { finding = Some(format!("A-B-A: the previous chain `C01.{} {}` answered {} before this chain and {} after it (hidden state)", label_of(steps[steps.len() - 1]), truncate(line, 300), old.join(";"), again.join(";"))); }
                else if let Some((k, m)) = bad_again.first() { finding = Some(format!("A-B-A: the previous chain `{}` re-run after this chain: step {} {}", truncate(line, 300), k, m)); }
            }
        }
        // only a chain that was clean itself serves as the `A` of the next A-B-A (its own findings are reported on its own line)
        *p = if bad.is_empty() { Some((args.join(" "), recs.clone())) } else { None };
        finding
    });
    // 1. the property itself: an inconsistent array was RETURNED by some step
    if let Some((k, msg)) = bad.first() {
        let small = shrink(args, *k);
        let small_refs: Vec<&str> = small.iter().map(String::as_str).collect();
        let (_, bad2, _) = run_chain(&small_refs);
        let chain = if bad2.is_empty() { args[..=*k].join(" ") } else { small.join(" ") };
        return Some(Verdict::Mismatch { observed, detail: format!("C01 monitor: step {} `{}` {}; shortest failing chain: C01.{} {}", k, args[*k], msg, label_of(args[*k]), chain) });
    }
    if let Some(f) = aba { return Some(Verdict::Mismatch { observed, detail: f }); }
    // 2. the tie: modelled steps must agree with the store machine on outcome class and shape
    let mut open: Option<String> = None;
    for k in 0..args.len() {
        let (e, o) = (exp[k], recs[k].as_str());
        let name = label_of(args[k]);
        if name.starts_with("u.") {
            // recorded at generation time; a different shape now means the real run is not reproducible -> stop comparing
            let want = args[k].rsplit('|').next().unwrap_or("");
            let now = match o { "E" | "P" | "S" | "N" => "=N".to_string(), x => format!("={}", ext_field(x)) };
            if want != now { open = Some(format!("step {} `{}`: unmodelled call answered {} now, {} when generated", k, args[k], now, want)); break; }
            // the native shape oracle judges the `u.` forms of the operations whose model is quadratic (huge arrays)
            if let Some(nr) = &natives[k] { if o.starts_with('A') || o.starts_with('L') || o == "E" {
                ORACLE_JUDGED.fetch_add(1, std::sync::atomic::Ordering::Relaxed);
                if o != nr { return Some(Verdict::Mismatch { observed, detail: format!("step {} `{}`: real crate {} , native shape oracle {} (oracle validated against the model on {} steps so far)", k, args[k], o, nr, ORACLE_VALIDATED.load(std::sync::atomic::Ordering::Relaxed)) }); }
            } }
            continue;
        }
        if e == o {
            // ... and is itself validated against the model on every modelled step it speaks about
            if let Some(nr) = &natives[k] { if e.starts_with('A') || e.starts_with('L') || e == "E" {
                ORACLE_VALIDATED.fetch_add(1, std::sync::atomic::Ordering::Relaxed);
                if e != nr { return Some(Verdict::Mismatch { observed, detail: format!("step {} `{}`: the harness-native shape oracle says {} but the model {} (the oracle is wrong: fix the harness)", k, args[k], nr, e) }); }
            } }
            continue;
        }
        if o == "P" || e == "P" {
            // a panic / refusal class difference is C09's subject, not C01's: noted, comparison stops (stores diverge)
            open = Some(format!("step {} `{}`: real {} vs model {} (panic class, not judged by C01)", k, args[k], o, e)); break;
        }
        if e == "S" && name == "dot" {
            open = Some(format!("step {} `{}`: an arm of dot (an operand of rank >= 3) that the products model does not cover", k, args[k])); break;
        }
        if o == "E" && e.starts_with('A') && (name == "hstack" || name == "dot") {
            open = Some(format!("step {} `{}`: refusal pinned by the crate's own tests (open finding of C11/C14)", k, args[k])); break;
        }
        let small = shrink(args, k);
        return Some(Verdict::Mismatch { observed, detail: format!("step {} `{}`: real crate {} , model {} ; minimal chain: C01.{} {}", k, args[k], o, e, name, small.join(" ")) });
    }
    if _op == "oracle_validations" {
        let (v, j, r) = (ORACLE_VALIDATED.load(std::sync::atomic::Ordering::Relaxed), ORACLE_JUDGED.load(std::sync::atomic::Ordering::Relaxed), ABA_RERUNS.load(std::sync::atomic::Ordering::Relaxed));
        let text = format!("ok native-oracle-validated-against-model={v};judged-by-oracle={j};aba-reruns={r}");
        if std::env::var_os("C01_STATS").is_some() { eprintln!("{text}"); }
        return Some(if v == 0 || r == 0 { Verdict::Mismatch { observed: text, detail: "the native shape oracle was not validated against the model in this run".into() } } else { Verdict::Match(text) });
    }
    if std::env::var_os("C01_OPEN").is_some() { if let Some(r) = &open { eprintln!("open: {r}"); } }
    Some(match open { Some(_) => Verdict::Open(observed), None => Verdict::Match(observed) })
}

/// non-trivial: a real chain — some step consumes the result of an earlier step that itself consumed an earlier result
fn nontrivial(_op: &str, args: &[&str]) -> bool {
    let has_ref: Vec<bool> = args.iter().map(|s| !step_refs(s).is_empty()).collect();
    args.iter().any(|s| step_refs(s).iter().any(|&r| r < has_ref.len() && has_ref[r]))
}

fn main() {
    harness_main(Spec { prop: "C01", gen, exec, nontrivial, hang_secs: 30,
        rule: "one case = one chain of public operations on earlier results. Enumerated: every operation of the inventory (modelled and `u.` = monitor-only) as a one-step chain on base arrays of every applicable element type and shapes incl. rank 0..4, unit axes, zero-length axes; the refusal stream (new/create/reshape/resize/broadcast_to with non-fitting counts); then seeded random chains (length 1..12 quick, 1..40 thorough) typed so that most steps apply. After EVERY step the real result (each member of a Vec/tuple) is checked: elements.len()==product(shape), len(), ndim(), is_empty() agree. Modelled steps are also compared with the store machine on outcome class and shape (ediff1d / diff / insert with an axis / convolve on value-faithful i64 chains also on the element values; a dedicated stream draws their arguments on every base shape). Robustness streams: every step with a Result-receiver impl is also called on Ok(array) (monitored, same class and shapes required); len/ndim/is_empty/get_shape/get_elements are also asked through Ok(array) for every returned array; option arguments as String / &str / enum; i8 as third byte-sized type; base shapes with zero-length axes in every position and >= 32 elements; refusal stream around zero-length axes; one-step chains on shapes up to 4900 elements; random chains over zero-length / long axes. PART 2: std-trait steps (FromIterator from 29 kinds of exact / over-estimating / unbounded / empty iterators collected three ways, IntoIterator by value and by reference, clone, clone_from through every std path with targets of lower / equal / higher rank, Vec / slice / VecDeque / boxed-slice clone_from between split results, re-entrant closures) with the monitor and a native expectation, on ten element types x 18 base shapes and inside random chains; aliased operands; hidden state: colliding shape groups back to back in both orders through the count-checking constructors / reshapes and 18 further operations, and an A-B-A re-run of every fourth chain's predecessor; ranks 5..8, argument lists of 3..6 unsorted mixed-spelling entries, 65..130 parts, 5..8 arrays; huge arrays (16 384..196 611 elements): linear-model operations as modelled steps, quadratic-model operations as `u.` steps judged by a harness-native shape oracle that the same run validates against the model on every modelled step it speaks about (last case line reports the counts). PART 5: closures with memory (counting, first-k, first-occurrence, budget, run-start, toggle) through every closure-taking operation - as modelled steps (`…|cnt`, lane `alt`: the store machine predicts the shape) and as `u.st_*` steps with a native expectation (one call per element in flat order: shape, elements, number and order of the calls; fold seeds NaN / inf / -0.0; stateful lane closures) on ten element types x 15 base shapes, on the huge arrays and in 3 000 random chains; axis lists that name one axis in both spellings (k and k - rank) at every ordered pair of positions, out-of-range entries next to valid ones and every value -rank-2..=rank+1 of the single-axis arguments, ranks 2..5, transpose / moveaxis / flip / roll / rot90 / expand_dims / squeeze / norm / reductions / scans / sorts; seven chains above 2^24 elements (u8: resize, cycle_take, repeat, zeros / ones / full, new, reshape, ravel, flip, map, filter_e) judged by the monitor and the native shape oracle. distinct = distinct chains; non-trivial = some step consumes the result of a step that consumed an earlier result" });
}
