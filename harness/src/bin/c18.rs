//! C18 — array literals and text forms carry shape and elements faithfully.
//!
//! Compile-time programs: `c18_gen/` (written by `harness/gen_c18_literals.py`, deterministic, committed) holds one
//! `#[inline(never)]` function per literal that expands the REAL `array!`/`array_flat!`/`array_single!`/constructor
//! macros, paired with the nested structure it was generated from.  Every run recompiles them against the crate.
//! Run-time streams: the exported front-end macros (`array_parse_shape!`, `array_tuple!`, `array_list!`,
//! `array_char!`, `array_string!`) take a run-time `String`, so they are also driven on Debug texts of random nested
//! structures and exhaustively on short malformed texts; `Display` on every shape rank<=4 len<=3; the text forms of
//! `Tuple2/Tuple3/List` exhaustively over a small alphabet.
//! Robustness streams (FRAMEWORK.md): every `disp` case is rendered through BOTH receivers (`Array<T>` and the `PrintableResult` wrapper of
//! `Result<Array<T>, ArrayError>`) under the same one of `{}` `{:#}` `{:.N}` `{:#.N}`; 16 element types incl. value classes; `disp_big_shapes()`
//! (rows of 1001..2000 elements, more than 1000 rows, totals above 1000 from short rows) and `zero_shapes()`; typed value -> text -> value
//! round trips of Tuple2/Tuple3/List over every primitive component type; literals of every primitive element type and of big shapes in `c18_gen`.
//! Part-2 robustness streams (FRAMEWORK.md 6-10): `seq <case> | <case> | …` = cases executed back to back on one thread, each judged like a
//! single case (an array followed by a same-shape rearrangement of its elements, colliding shapes, different element types, a refused
//! text followed by a valid one); every case A is re-run after the next case B (A-B-A); every array is rendered twice and once more after
//! being rebuilt through `FromIterator`/`reshape`/`clone_from`; precisions 0..20 and 31 … 65535 (256, 300, 1074 …); rows of 8191 … 70000
//! elements and `huge_shapes()` (the model's `display` and literal parse-back are linear: 120 000 elements in about 1 s, so the model itself
//! answers these); ranks 5..8; every printable ASCII character as char / String element and tuple / list component.
//! Round-5 streams (classes 16, 19, 20, 21 of the lead's list).  Compiled (`c18_gen`): literals whose items are IMPURE expressions
//! (`it.next().unwrap()`, `{ n += 1; n }` blocks, `st.pop().unwrap()`, a counting closure) for every arm of `array!` / `array_flat!` /
//! `array_single!` and the arguments of the constructor macros - each item evaluated exactly once, in reading order, the state the items work
//! on checked afterwards (`once`); f32 literals whose items lie next to the midpoint of two adjacent f32 values (decimal tokens whose nearest
//! f64 IS the midpoint, its f64 neighbours, integers 2^k + 2^(k-24) + 1) - every element compared bit-wise with `"<token>".parse::<f32>()`
//! here and with exact rational rounding done by the generator; constants / integer-valued floats / 2^k +- 1 ulp as f64 and f32 items;
//! constructor macros on more than 2^24 u8 elements next to their functions, compared in place (`giant_pair`); `array_arange!` with spans
//! >= 2^32.  Run-time (`gen_r5`): the text form and the typed Tuple2 / Tuple3 / List round trips over dense value pools (`f64k`: constants,
//! their negatives and reciprocals, every integer-valued float in -1100..=1100; `f64p`: 2^k with one ulp on each side for every k in
//! -1074..=1023; `f32k`: the same for f32), element texts by the element type's own `Display`.
use arrharness::*;
use std::cell::RefCell;
use std::fmt::{Debug, Display};
use std::str::FromStr;
use std::sync::atomic::{AtomicUsize, Ordering::Relaxed};

static N_ABA: AtomicUsize = AtomicUsize::new(0);          // A-B-A re-runs
static N_TWICE: AtomicUsize = AtomicUsize::new(0);        // arrays rendered a second time / rebuilt and rendered
static N_HUGE: AtomicUsize = AtomicUsize::new(0);         // text forms of more than 8192 elements compared with the model
static N_F32: AtomicUsize = AtomicUsize::new(0);          // f32 literal items compared bit-wise with `"<token>".parse::<f32>()`

mod c18_gen;
use c18_gen::{CTORS, LITS};

// ---------------------------------------------------------------- observations

pub enum Obs { Ok(Vec<usize>, Vec<String>), Err(String), Panic }

fn finish_obs<T: ArrayElement>(r: std::thread::Result<Result<Array<T>, ArrayError>>) -> Obs {
    match r {
        Ok(Ok(a)) => {
            if !consistent(&a) { return Obs::Err("INCONSISTENT".into()); }
            Obs::Ok(a.get_shape().unwrap(), a.get_elements().unwrap().iter().map(|e| format!("{:?}", e)).collect())
        }
        Ok(Err(e)) => Obs::Err(err_name(&e).to_string()),
        Err(_) => Obs::Panic,
    }
}

/// run one literal / constructor under `catch_unwind`; elements are reported by their Debug text
pub fn obs<T: ArrayElement, F: FnOnce() -> Result<Array<T>, ArrayError>>(f: F) -> Obs {
    finish_obs(std::panic::catch_unwind(std::panic::AssertUnwindSafe(f)))
}

/// literals with impure items (`it.next().unwrap()`, `{ n += 1; n }`, `st.pop().unwrap()`, a counting closure): the literal's observation,
/// unless the state the items work on is afterwards not what ONE evaluation of every item leaves behind
pub fn once(o: Obs, ok: bool, what: &str) -> Obs {
    if ok { o } else { Obs::Err(format!("ITEMS-NOT-EVALUATED-EXACTLY-ONCE: after the literal `{what}` is false (the literal itself gave `{}`)", truncate(&show_obs(&o), 200))) }
}

/// constructor macros on more than 2^24 elements next to their functions: compared in place, never formatted.  Both sides report the shape
/// and a summary; the macro's summary names the first position at which it differs from the function
pub fn giant_pair<T: ArrayElement, M: FnOnce() -> Result<Array<T>, ArrayError>, F: FnOnce() -> Result<Array<T>, ArrayError>>(m: M, f: F) -> (Obs, Obs) {
    let run = |r: std::thread::Result<Result<Array<T>, ArrayError>>| match r { Ok(Ok(a)) => Ok(a), Ok(Err(e)) => Err(Obs::Err(err_name(&e).to_string())), Err(_) => Err(Obs::Panic) };
    let a = run(std::panic::catch_unwind(std::panic::AssertUnwindSafe(m)));
    let b = run(std::panic::catch_unwind(std::panic::AssertUnwindSafe(f)));
    match (a, b) {
        (Ok(a), Ok(b)) => {
            let (sa, sb) = (a.get_shape().unwrap(), b.get_shape().unwrap());
            let (ea, eb) = (a.get_elements().unwrap(), b.get_elements().unwrap());
            let diff = if !(consistent(&a) && consistent(&b)) { "elements and shape of one side do not fit".to_string() }
                else if ea.len() != eb.len() { format!("{} elements", ea.len()) }
                else { match (0..ea.len()).find(|&i| ea[i] != eb[i]) { Some(i) => format!("element {i} is {:?}", ea[i]), None => String::new() } };
            let ones = |e: &Vec<T>| { let z = T::zero(); e.iter().filter(|x| **x != z).count() };
            let summary = |e: &Vec<T>| vec![format!("{} elements", e.len()), format!("{} non-zero", ones(e)), format!("first {:?}", e.first()), format!("last {:?}", e.last())];
            let (mut ma, mb) = (summary(&ea), summary(&eb));
            if !diff.is_empty() { ma.push(format!("DIFFERS from the function: {diff}")); }
            (Obs::Ok(sa, ma), Obs::Ok(sb, mb))
        }
        (a, b) => { let o = |r: Result<Array<T>, Obs>| match r { Ok(a) => Obs::Ok(a.get_shape().unwrap(), vec![format!("{} elements", a.len().unwrap_or(0))]), Err(o) => o }; (o(a), o(b)) }
    }
}

/// a numeric source token without its type suffix
fn strip_suffix(tok: &str) -> &str {
    for s in ["f32", "f64", "i128", "u128", "i64", "u64", "i32"] { if let Some(b) = tok.strip_suffix(s) { return b; } }
    tok
}

/// what `text.parse::<T>()` yields, by its Debug text (`None` = the `unwrap()` in the macro panics)
pub fn canon<T: FromStr + Debug>(s: &str) -> Option<String> { s.parse::<T>().ok().map(|v| format!("{:?}", v)) }

fn show_obs(o: &Obs) -> String {
    match o {
        Obs::Ok(s, e) => format!("ok {}:{}", show_list(s), enc_list(e)),
        Obs::Err(e) => format!("err {e}"),
        Obs::Panic => "panic".to_string(),
    }
}

// ---------------------------------------------------------------- hex protocol

fn enc(s: &str) -> String { if s.is_empty() { "_".into() } else { s.bytes().map(|b| format!("{:02x}", b)).collect() } }
fn dec(s: &str) -> Option<String> {
    if s == "_" { return Some(String::new()); }
    if s.len() % 2 != 0 { return None; }
    let b: Option<Vec<u8>> = (0..s.len() / 2).map(|i| u8::from_str_radix(&s[2 * i..2 * i + 2], 16).ok()).collect();
    String::from_utf8(b?).ok()
}
fn enc_list<S: AsRef<str>>(v: &[S]) -> String { if v.is_empty() { "-".into() } else { v.iter().map(|s| enc(s.as_ref())).collect::<Vec<_>>().join(",") } }
fn dec_list(s: &str) -> Option<Vec<String>> { if s == "-" { Some(vec![]) } else { s.split(',').map(dec).collect() } }

/// model answer `ok <shape>:<texts>` -> (shape, texts)
fn parse_model_ok(s: &str) -> Option<(Vec<usize>, Vec<String>)> {
    let body = s.strip_prefix("ok ")?;
    let (sh, el) = body.split_once(':')?;
    Some((parse_usize_list(sh), dec_list(el)?))
}

/// the tail every literal arm shares (`finish` in the model): `.parse().unwrap()` per element text, then `Array::new`
fn finish_expected(model: &str, canon: fn(&str) -> Option<String>) -> Option<Obs> {
    if model == "panic" { return Some(Obs::Panic); }
    if model.starts_with("err") { return Some(Obs::Err(model[4..].to_string())); }
    let (shape, texts) = parse_model_ok(model)?;
    let mut elems = vec![];
    for t in &texts { match canon(t) { Some(c) => elems.push(c), None => return Some(Obs::Panic) } }
    if shape.iter().product::<usize>() != elems.len() { return Some(Obs::Err("ShapeMustMatchValuesLength".into())); }
    Some(Obs::Ok(shape, elems))
}

fn same_obs(a: &Obs, b: &Obs) -> bool {
    match (a, b) {
        (Obs::Ok(s1, e1), Obs::Ok(s2, e2)) => s1 == s2 && e1 == e2,
        (Obs::Err(_), Obs::Err(_)) => true,
        (Obs::Panic, Obs::Panic) => true,
        _ => false,
    }
}

// ---------------------------------------------------------------- run-time nested structures

/// a nested `Vec` of dynamic depth; Debug prints exactly like nested `Vec`s/arrays do
enum Nested { Leaf(String), Node(Vec<Nested>) }
impl Debug for Nested {
    fn fmt(&self, f: &mut std::fmt::Formatter<'_>) -> std::fmt::Result {
        match self { Nested::Leaf(s) => f.write_str(s), Nested::Node(v) => f.debug_list().entries(v.iter()).finish() }
    }
}
fn build_nested(shape: &[usize], leaves: &[String]) -> Nested {
    if shape.is_empty() { return Nested::Leaf(leaves[0].clone()); }
    let p: usize = shape[1..].iter().product();
    Nested::Node((0..shape[0]).map(|i| build_nested(&shape[1..], &leaves[i * p..(i + 1) * p])).collect())
}

fn rt_leaf(kind: &str, k: usize, rng: &mut Rng) -> String {
    match kind {
        "tuple2" => format!("({:?}, {:?})", format!("a{k}"), ["x", "y z", "-", ""][rng.below(4)]),
        "tuple3" => format!("({:?}, {:?}, {:?})", format!("a{k}"), "-", ["x", "y z", "q.q"][rng.below(3)]),
        "list" => { let n = rng.below(4); format!("{:?}", (0..n).map(|j| format!("i{}", k + j)).collect::<Vec<_>>()) }
        "char" => format!("{:?}", *rng.pick(&['a', 'b', 'z', ',', ' ', '[', ']', '_', '0', '"', '#'])),
        "string" => format!("{:?}", *rng.pick(&["s", "ab", "x y", "a,b", "c]", "[d", "], [", "", " ", "_", "]#["])),
        _ => format!("{}", k as i64 - 3),
    }
}

/// real front-end macro on a run-time Debug text
fn run_front_end(kind: &str, text: String) -> Option<(Obs, fn(&str) -> Option<String>)> {
    Some(match kind {
        "tuple2" => (obs(|| array_tuple!(Tuple2<String, String>, text)), canon::<Tuple2<String, String>>),
        "tuple3" => (obs(|| array_tuple!(Tuple3<String, String, String>, text)), canon::<Tuple3<String, String, String>>),
        "tuple2i" => (obs(|| array_tuple!(Tuple2<i32, i32>, text)), canon::<Tuple2<i32, i32>>),
        "list" => (obs(|| array_list!(List<String>, text)), canon::<List<String>>),
        "listi" => (obs(|| array_list!(List<i32>, text)), canon::<List<i32>>),
        "char" => (obs(|| array_char!(text)), canon::<char>),
        "string" => (obs(|| array_string!(text)), canon::<String>),
        _ => return None,
    })
}
fn model_kind(kind: &str) -> &'static str {
    match kind { "tuple2" | "tuple3" | "tuple2i" => "tuple", "list" | "listi" => "list", "char" => "char", "string" => "string", _ => "generic" }
}

fn words(alphabet: &[char], max_len: usize) -> Vec<String> {
    let mut out = vec![String::new()];
    let mut layer = vec![String::new()];
    for _ in 0..max_len {
        let mut nxt = Vec::with_capacity(layer.len() * alphabet.len());
        for w in &layer { for &c in alphabet { let mut v = w.clone(); v.push(c); nxt.push(v); } }
        out.extend(nxt.iter().cloned());
        layer = nxt;
    }
    out
}

// ---------------------------------------------------------------- display subjects

const DISP_TYPES: [&str; 16] = ["i32", "f64", "bool", "char", "String", "T2", "List", "u8", "i8", "i64", "usize", "f32", "f64x", "T3s", "ListS", "u64"];

fn fmt_prec<T: Display>(e: &T, p: Option<usize>) -> String { match p { Some(p) => format!("{:.p$}", e, p = p), None => format!("{}", e) } }

/// the four format combinations `{}`, `{:#}`, `{:.N}`, `{:#.N}` applied to any `Display` value
fn fmt_spec<D: Display>(d: &D, prec: Option<usize>, alt: bool) -> String {
    match (prec, alt) {
        (None, false) => format!("{}", d), (None, true) => format!("{:#}", d),
        (Some(p), false) => format!("{:.p$}", d, p = p), (Some(p), true) => format!("{:#.p$}", d, p = p),
    }
}

/// element texts (by the element type's own `Display`), the text form of the plain `Array<T>` receiver, the text form of
/// the `Result<Array<T>, ArrayError>` receiver (`PrintableResult { result: Ok(array) }`) under the same format specification, and a
/// description of any divergence between that text and (a) the same array object rendered a second time, (b) an equal array rebuilt through
/// `IntoIterator`/`filter`/`FromIterator` + `reshape` + `clone_from` (empty = none)
/// `render`: 0 = element texts only (generator), 1 = plain receiver only, 2 = everything
fn disp_with<T: ArrayElement>(elems: Vec<T>, shape: &[usize], prec: Option<usize>, alt: bool, render: u8) -> (Vec<String>, String, String, String) {
    let texts: Vec<String> = elems.iter().map(|e| fmt_prec(e, prec)).collect();
    if render == 0 { return (texts, String::new(), String::new(), String::new()); }
    let e2 = if render == 2 { elems.clone() } else { vec![] };
    let arr = Array::new(elems, shape.to_vec()).expect("harness: display subject");
    let shown = guarded(|| fmt_spec(&arr, prec, alt));
    if render != 2 { return (texts, shown, String::new(), String::new()); }
    let wrapped = guarded(|| fmt_spec(&PrintableResult { result: Array::new(e2.clone(), shape.to_vec()) }, prec, alt));
    let mut side = String::new();
    N_TWICE.fetch_add(1, Relaxed);
    let again = guarded(|| fmt_spec(&arr, prec, alt));
    if again != shown { side = format!("the same array rendered a second time gives `{}`", truncate(&again, 600)); }
    else if !e2.is_empty() && e2.len() <= 20000 {
        let rebuilt = std::panic::catch_unwind(std::panic::AssertUnwindSafe(|| -> Option<String> {
            let c = e2.iter().cloned().filter(|_| true).collect::<Array<T>>().reshape(shape).ok()?;
            let mut b: Array<T> = Array::new(vec![e2[0].clone()], vec![1]).ok()?;
            b.clone_from(&c);
            if b.get_shape().ok()? != shape { return None; }
            Some(fmt_spec(&b, prec, alt))
        }));
        if let Ok(Some(t)) = rebuilt { if t != shown { side = format!("an equal array built by collect() + reshape + clone_from renders `{}`", truncate(&t, 600)); } }
    }
    (texts, shown, wrapped, side)
}

const F64X: [f64; 12] = [-0.0, 5e-324, 1e300, 0.1, f64::MAX, f64::MIN_POSITIVE, 9007199254740993.0, f64::INFINITY, f64::NEG_INFINITY, f64::NAN, 0.30000000000000004, -1e-7];
const F32X: [f32; 8] = [0.1, 16777216.0, -0.0, f32::MAX, 1e-45, 1.5, f32::NAN, -2.75];
/// class-16 value pools (FRAMEWORK.md part 4): the mathematical constants with their negatives and reciprocals, every integer-valued float
/// in -1100..=1100, then the edges of the exponent range
fn f64_pool_k() -> Vec<f64> {
    use std::f64::consts::*;
    let c = [E, PI, LN_2, LN_10, LOG2_E, LOG10_E, LOG2_10, LOG10_2, SQRT_2, FRAC_1_SQRT_2, FRAC_PI_2, FRAC_PI_3, FRAC_PI_4, FRAC_PI_6, FRAC_PI_8, FRAC_1_PI, FRAC_2_PI, FRAC_2_SQRT_PI, TAU,
        f64::EPSILON, f64::MIN_POSITIVE, f64::MAX, 5e-324, 0.1, 0.2, 0.3, 1.0 / 3.0, 2.0 / 3.0, 1e15, 1e16, 1e17, 1e21, 1e22, 1e23, 1e-4, 1e-5, 1e-7, 4503599627370496.5, 9007199254740993.0, 0.5, 1.5, 2.5, 0.125];
    let mut v = vec![];
    for x in c { v.push(x); v.push(-x); if (1.0 / x).is_finite() { v.push(1.0 / x); } }
    for i in -1100..=1100 { v.push(if i == 0 { -0.0 } else { i as f64 }); }
    v.push(0.0);
    v
}
/// 2^k with one ulp on each side for every k of the f64 exponent range (-1074..=1023; the requested -1080..=1030 clipped to what exists), ordered
/// k = 0, -1, 1, -2, 2 … and so that the first third holds every k once (the side rotates with k)
fn f64_pool_p() -> Vec<f64> {
    let ks: Vec<i32> = (0..=1074).flat_map(|j| if j == 0 { vec![0] } else { vec![-j, j] }).filter(|k| (-1074..=1023).contains(k)).collect();
    let mut v = vec![];
    for r in 0..3 { for (i, &k) in ks.iter().enumerate() {
        let b = (2.0f64).powi(k).to_bits();
        v.push(f64::from_bits(match (i + r) % 3 { 0 => b, 1 => b + 1, _ => b.saturating_sub(1) }));
    } }
    v
}
/// the same for f32: constants, -1100..=1100, 2^k with one ulp on each side for k = -149..=127
fn f32_pool() -> Vec<f32> {
    use std::f32::consts::*;
    let c = [E, PI, LN_2, LN_10, LOG2_E, LOG10_E, SQRT_2, FRAC_1_SQRT_2, FRAC_PI_2, FRAC_PI_4, FRAC_1_PI, TAU, f32::EPSILON, f32::MIN_POSITIVE, f32::MAX, 1e-45, 0.1, 0.3, 1.0 / 3.0, 16777216.0, 16777218.0, 1e-4, 1e-5, 1e16, 1e7, 0.5, 2.5];
    let mut v = vec![];
    for x in c { v.push(x); v.push(-x); if (1.0 / x).is_finite() { v.push(1.0 / x); } }
    for k in -149..=127 { let b = (2.0f64).powi(k) as f32; let b = b.to_bits(); v.push(f32::from_bits(b)); v.push(f32::from_bits(b + 1)); v.push(f32::from_bits(b.saturating_sub(1))); }
    for i in -1100..=1100 { v.push(if i == 0 { -0.0 } else { i as f32 }); }
    v
}

const BLANKY: [&str; 8] = ["new york", "", " ", "a b c", "x", " lead", "trail ", "mid  dle"];

/// `ty` may carry a rearrangement of the elements: `i32~x` (the elements of the transpose poured into the same shape; rank != 2: reversed),
/// `~r` reversed, `~t` rotated by one, `~s` first and last swapped — same shape, same multiset of elements, other places
fn disp_subject(ty: &str, shape: &[usize], prec: Option<usize>, alt: bool, render: u8) -> Option<(Vec<String>, String, String, String)> {
    let n: usize = shape.iter().product();
    let sgn = |k: usize| if k % 3 == 1 { -1i32 } else { 1 };
    let (ty, var) = match ty.split_once('~') { Some((b, v)) => (b, v), None => (ty, "") };
    if !["", "x", "r", "t", "s"].contains(&var) { return None; }
    let km = |k: usize| -> usize { match var {
        "x" if shape.len() == 2 => { let (r, c) = (shape[0], shape[1]); (k % c) * r + k / c }
        "r" | "x" => n - 1 - k, "t" => (k + 1) % n, "s" => if k == 0 { n - 1 } else if k == n - 1 { 0 } else { k }, _ => k } };
    Some(match ty {
        "charx" => disp_with((0..n).map(&km).map(|k| (32 + (k % 95) as u8) as char).collect::<Vec<char>>(), shape, prec, alt, render),
        "Stringx" => disp_with((0..n).map(&km).map(|k| format!("{}{}", (32 + (k * 7 % 95) as u8) as char, if k % 2 == 0 { "" } else { "z" })).collect::<Vec<String>>(), shape, prec, alt, render),
        "i32" => disp_with((0..n).map(&km).map(|k| (k as i32 + 1) * sgn(k)).collect(), shape, prec, alt, render),
        "f64" => disp_with((0..n).map(&km).map(|k| (k as f64 + 1.0) * 0.375 * sgn(k) as f64).collect(), shape, prec, alt, render),
        "bool" => disp_with((0..n).map(&km).map(|k| k % 3 != 1).collect::<Vec<bool>>(), shape, prec, alt, render),
        "char" => disp_with((0..n).map(&km).map(|k| (b'a' + (k * 5 % 26) as u8) as char).collect::<Vec<char>>(), shape, prec, alt, render),
        "String" => disp_with((0..n).map(&km).map(|k| if k % 4 == 2 { format!("w {k}") } else { format!("s{k}") }).collect::<Vec<String>>(), shape, prec, alt, render),
        "T2" => disp_with((0..n).map(&km).map(|k| Tuple2(k as i32 * sgn(k), k as f64 * 0.5)).collect::<Vec<_>>(), shape, prec, alt, render),
        "List" => disp_with((0..n).map(&km).map(|k| List((0..k % 3).map(|j| (k + j) as i32).collect())).collect::<Vec<_>>(), shape, prec, alt, render),
        // value classes: the borders of the byte-sized types, integers beyond 2^53, -0.0 / subnormal / NaN / infinities
        "u8" => disp_with((0..n).map(&km).map(|k| [255u8, 0, 254, 128, 127, 1, 200][k % 7].wrapping_sub((k / 7) as u8)).collect::<Vec<u8>>(), shape, prec, alt, render),
        "i8" => disp_with((0..n).map(&km).map(|k| [-128i8, 127, 0, -1, 100][k % 5].wrapping_add((k / 5) as i8)).collect::<Vec<i8>>(), shape, prec, alt, render),
        "i64" => disp_with((0..n).map(&km).map(|k| [9007199254740993i64, -9007199254740993, i64::MAX, i64::MIN, 0, 4294967296][k % 6].wrapping_add((k / 6) as i64 * sgn(k) as i64)).collect::<Vec<i64>>(), shape, prec, alt, render),
        "u64" => disp_with((0..n).map(&km).map(|k| [u64::MAX, 9007199254740993, 0, 1 << 63][k % 4].wrapping_sub((k / 4) as u64)).collect::<Vec<u64>>(), shape, prec, alt, render),
        "usize" => disp_with((0..n).map(&km).map(|k| [usize::MAX, 0, 1001, 4096][k % 4].wrapping_sub(k / 4)).collect::<Vec<usize>>(), shape, prec, alt, render),
        "f32" => disp_with((0..n).map(&km).map(|k| F32X[k % 8] * (1 + k / 8) as f32).collect::<Vec<f32>>(), shape, prec, alt, render),
        "f64x" => disp_with((0..n).map(&km).map(|k| F64X[k % 12] * (1 + k / 12) as f64).collect::<Vec<f64>>(), shape, prec, alt, render),
        "f64k" => { let p = f64_pool_k(); disp_with((0..n).map(&km).map(|k| p[k % p.len()]).collect::<Vec<f64>>(), shape, prec, alt, render) }
        "f64p" => { let p = f64_pool_p(); disp_with((0..n).map(&km).map(|k| p[k % p.len()]).collect::<Vec<f64>>(), shape, prec, alt, render) }
        "f32k" => { let p = f32_pool(); disp_with((0..n).map(&km).map(|k| p[k % p.len()]).collect::<Vec<f32>>(), shape, prec, alt, render) }
        "T3s" => disp_with((0..n).map(&km).map(|k| Tuple3(BLANKY[k % 8].to_string(), k as i32 * sgn(k), F64X[(k / 8) % 12])).collect::<Vec<_>>(), shape, prec, alt, render),
        "ListS" => disp_with((0..n).map(&km).map(|k| List((0..k % 3).map(|j| BLANKY[(k + j) % 8].to_string()).collect())).collect::<Vec<_>>(), shape, prec, alt, render),
        _ => return None,
    })
}

/// shapes beyond the small scope for the text form: `big_shapes()` plus rows longer than 1000 elements (1001, 1030, 2000),
/// more than 1000 rows, and totals above 1000 built from short rows
fn disp_big_shapes() -> Vec<Vec<usize>> {
    let mut v = big_shapes();
    v.extend(vec![vec![999], vec![1000], vec![1001], vec![2000], vec![2, 1001], vec![1001, 2], vec![1, 1001], vec![1001, 1], vec![3, 1001, 1], vec![2, 1, 1001], vec![2, 1000], vec![4, 1000],
        vec![1200, 1], vec![11, 10, 10], vec![101, 10], vec![10, 101], vec![2, 3, 167], vec![1, 1, 1, 1001]]);
    v
}

// ---------------------------------------------------------------- typed text round trips (value classes per element type)

/// `Display` texts of the value classes of an element type (borders of the type, integers beyond 2^53, -0.0, subnormals, NaN, blanks)
fn vals(ty: &str) -> Vec<String> {
    fn sh<T: Display>(v: &[T]) -> Vec<String> { v.iter().map(|x| x.to_string()).collect() }
    match ty {
        "i64" => sh(&[0i64, -1, 9007199254740993, i64::MIN, i64::MAX]),
        "f64" => sh(&[0.0f64, -0.0, 0.1, 1e300, 5e-324, f64::NAN, f64::INFINITY, -2.5, 0.30000000000000004]),
        "u8" => sh(&[0u8, 255, 128]), "i8" => sh(&[-128i8, 127, 0]), "i16" => sh(&[-32768i16, 32767, 0]), "u16" => sh(&[65535u16, 0, 256]),
        "i32" => sh(&[i32::MIN, i32::MAX, 0, -7]), "u32" => sh(&[u32::MAX, 0, 65536]),
        "f32" => sh(&[0.1f32, -0.0, 16777216.0, f32::MAX, 1e-45, f32::NAN]),
        "bool" => sh(&[true, false]), "u64" => sh(&[u64::MAX, 9007199254740993, 0]), "isize" => sh(&[isize::MIN, isize::MAX, 0]), "usize" => sh(&[usize::MAX, 0, 1001]),
        "char" => sh(&['a', ' ', 'Z', '0', '-']),
        "String" => sh(&BLANKY),
        _ => vec![],
    }
}
const T2_COMBOS: [(&str, &str); 9] = [("i64", "f64"), ("u8", "i8"), ("f32", "bool"), ("u64", "isize"), ("String", "i16"), ("char", "u16"), ("usize", "u32"), ("f64", "String"), ("String", "char")];
const T3_COMBOS: [(&str, &str, &str); 7] = [("i64", "bool", "f64"), ("u8", "i8", "f32"), ("String", "i32", "f64"), ("u64", "usize", "isize"), ("char", "String", "u16"), ("f64", "f64", "String"), ("i16", "u32", "String")];
const L_TYPES: [&str; 13] = ["i64", "u8", "i8", "f64", "f32", "bool", "String", "char", "usize", "u64", "i16", "u16", "isize"];

/// the value -> text -> value round trip on the REAL typed `Tuple2<A, B>`; components arrive as the `Display` texts of the values
macro_rules! rt2_typed { ($A:ty, $B:ty, $a:expr, $b:expr) => {{
    let (x, y) = ($a.parse::<$A>().ok()?, $b.parse::<$B>().ok()?);
    guarded(|| match Tuple2(x.clone(), y.clone()).to_string().parse::<Tuple2<$A, $B>>() { Ok(Tuple2(p, q)) => format!("ok {}", enc_list(&[p.to_string(), q.to_string()])), Err(_) => "err Parse".into() })
}} }
macro_rules! rt3_typed { ($A:ty, $B:ty, $C:ty, $a:expr, $b:expr, $c:expr) => {{
    let (x, y, z) = ($a.parse::<$A>().ok()?, $b.parse::<$B>().ok()?, $c.parse::<$C>().ok()?);
    guarded(|| match Tuple3(x.clone(), y.clone(), z.clone()).to_string().parse::<Tuple3<$A, $B, $C>>() { Ok(Tuple3(p, q, r)) => format!("ok {}", enc_list(&[p.to_string(), q.to_string(), r.to_string()])), Err(_) => "err Parse".into() })
}} }
macro_rules! rtl_typed { ($A:ty, $items:expr) => {{
    let v: Vec<$A> = $items.iter().map(|t| t.parse::<$A>().ok()).collect::<Option<Vec<_>>>()?;
    guarded(|| match List(v.clone()).to_string().parse::<List<$A>>() { Ok(List(w)) => format!("ok {}", enc_list(&w.iter().map(|x| x.to_string()).collect::<Vec<_>>())), Err(_) => "err Parse".into() })
}} }

fn t2_typed(combo: usize, a: &str, b: &str) -> Option<String> {
    Some(match combo {
        0 => rt2_typed!(i64, f64, a, b), 1 => rt2_typed!(u8, i8, a, b), 2 => rt2_typed!(f32, bool, a, b), 3 => rt2_typed!(u64, isize, a, b), 4 => rt2_typed!(String, i16, a, b),
        5 => rt2_typed!(char, u16, a, b), 6 => rt2_typed!(usize, u32, a, b), 7 => rt2_typed!(f64, String, a, b), 8 => rt2_typed!(String, char, a, b), _ => return None,
    })
}
fn t3_typed(combo: usize, a: &str, b: &str, c: &str) -> Option<String> {
    Some(match combo {
        0 => rt3_typed!(i64, bool, f64, a, b, c), 1 => rt3_typed!(u8, i8, f32, a, b, c), 2 => rt3_typed!(String, i32, f64, a, b, c), 3 => rt3_typed!(u64, usize, isize, a, b, c),
        4 => rt3_typed!(char, String, u16, a, b, c), 5 => rt3_typed!(f64, f64, String, a, b, c), 6 => rt3_typed!(i16, u32, String, a, b, c), _ => return None,
    })
}
fn l_typed(ty: usize, items: &[String]) -> Option<String> {
    Some(match ty {
        0 => rtl_typed!(i64, items), 1 => rtl_typed!(u8, items), 2 => rtl_typed!(i8, items), 3 => rtl_typed!(f64, items), 4 => rtl_typed!(f32, items), 5 => rtl_typed!(bool, items), 6 => rtl_typed!(String, items),
        7 => rtl_typed!(char, items), 8 => rtl_typed!(usize, items), 9 => rtl_typed!(u64, items), 10 => rtl_typed!(i16, items), 11 => rtl_typed!(u16, items), 12 => rtl_typed!(isize, items), _ => return None,
    })
}

/// independent bracket parser: `[a, b]`-nesting -> (shape, leaf texts); None when ragged or malformed
fn bracket_parse(s: &str) -> Option<(Vec<usize>, Vec<String>)> {
    fn go(cs: &[char], pos: &mut usize, leaves: &mut Vec<String>) -> Option<Vec<usize>> {
        if cs.get(*pos) != Some(&'[') {
            let start = *pos;
            while *pos < cs.len() && cs[*pos] != ',' && cs[*pos] != ']' { *pos += 1; }
            leaves.push(cs[start..*pos].iter().collect());
            return Some(vec![]);
        }
        *pos += 1;
        let mut count = 0usize; let mut inner: Option<Vec<usize>> = None;
        loop {
            let sh = go(cs, pos, leaves)?;
            if let Some(prev) = &inner { if *prev != sh { return None; } } else { inner = Some(sh); }
            count += 1;
            match cs.get(*pos) {
                Some(',') => { *pos += 1; while cs.get(*pos) == Some(&' ') || cs.get(*pos) == Some(&'\n') { *pos += 1; } }
                Some(']') => { *pos += 1; break; }
                _ => return None,
            }
        }
        let mut shape = vec![count]; shape.extend(inner.unwrap()); Some(shape)
    }
    let cs: Vec<char> = s.chars().collect();
    let mut pos = 0; let mut leaves = vec![];
    let shape = go(&cs, &mut pos, &mut leaves)?;
    if pos == cs.len() { Some((shape, leaves)) } else { None }
}

// ---------------------------------------------------------------- generator

fn gen_base(tier: &str, seed: u64, out: &mut dyn FnMut(String)) {
    let thorough = tier == "thorough";
    let mut rng = Rng::new(seed);
    // (ii-a) the compiled literal programs — fixed set; the Debug text is evaluated now, by the same `vec![…]` expression
    for l in LITS {
        let dbg = guarded(|| (l.dbg)());
        out(format!("lit {} {} {} {} {}", l.id, l.kind, show_list(l.nest_shape), enc_list(l.leaves), enc(&dbg)));
    }
    for c in CTORS { out(format!("ctor {}", c.id)); }
    // (ii-b) Display: every shape rank<=4 len<=3 (+ empty and rank-0 arrays) x precision x plain/alternate x element type
    let mut dshapes = shapes(1, 4, 1, 3);
    dshapes.extend(vec![vec![0], vec![2, 0], vec![0, 3], vec![], vec![4], vec![2, 4], vec![1, 4, 1]]);
    if thorough { dshapes.extend(shapes(5, 5, 1, 2)); dshapes.extend(vec![vec![4, 4], vec![3, 4, 2], vec![2, 1, 4, 3]]); }
    for s in &dshapes {
        for ty in DISP_TYPES {
            for prec in ["none", "0", "2"] { for alt in [0, 1] {
                let p = if prec == "none" { None } else { Some(prec.parse::<usize>().unwrap()) };
                let (texts, _, _, _) = disp_subject(ty, s, p, alt == 1, 0).unwrap();
                out(format!("disp {} {} {} {} {}", alt, show_list(s), enc_list(&texts), ty, prec));
            } }
        }
    }
    // (ii-b') robustness streams for the text form.  Every `disp` case is rendered through BOTH receivers (plain `Array<T>` and
    // the `Result<Array<T>, ArrayError>` wrapper `PrintableResult`) under the same one of `{}` `{:#}` `{:.N}` `{:#.N}`.
    //   sizes: axis lengths 7..17 in every position, more than 256 / 1024 / 4096 elements, rows of 1001 / 1030 / 2000 elements,
    //   more than 1000 rows, totals above 1000 from short rows; zero-length axes; every element type incl. value classes
    let disp_case = |ty: &str, s: &[usize], prec: &str, alt: usize, out: &mut dyn FnMut(String)| {
        let p = if prec == "none" { None } else { Some(prec.parse::<usize>().unwrap()) };
        let (texts, _, _, _) = disp_subject(ty, s, p, alt == 1, 0).unwrap();
        out(format!("disp {} {} {} {} {}", alt, show_list(s), enc_list(&texts), ty, prec));
    };
    for (i, s) in disp_big_shapes().iter().enumerate() {
        let n: usize = s.iter().product();
        for (j, ty) in DISP_TYPES.iter().enumerate() {
            // i32 and f64: all six combinations on every shape; the other element types: two combinations each, rotating, all six on the small ones
            for (c, (prec, alt)) in [("none", 0), ("2", 1), ("none", 1), ("2", 0), ("0", 0), ("0", 1)].iter().enumerate() {
                // quick tier, above 900 elements (the real text form of many-row arrays and the model's parse-back are slow): i32 under the four
                // combinations {} {:#.2} {:#} {:.2}, one further element type (rotating with the shape) under {} and {:#.2}; up to 900 elements (thorough:
                // also above) i32 and f64 under all six, the other element types under two (rotating); up to 64 elements (thorough: 900) everything
                let pick = if n <= 64 || (thorough && n <= 900) { true } else if n > 900 && !thorough { (j == 0 && c < 4) || (j == 1 + i % 15 && c < 2) } else { j < 2 || c % 3 == (i + j) % 3 };
                if pick { disp_case(ty, s, prec, *alt, out); }
            }
        }
        if n <= 900 || thorough { disp_case("f64", s, "5", 1, out); disp_case("f64x", s, "17", 0, out); }
    }
    for s in zero_shapes().iter().chain([vec![1, 0, 1], vec![3, 0], vec![0, 1001]].iter()) {
        for ty in DISP_TYPES { for prec in ["none", "0", "2"] { for alt in [0, 1] { disp_case(ty, s, prec, alt, out); } } }
    }
    for _ in 0..(if thorough { 300 } else { 40 }) {
        // seeded: rank 1..4, one long axis (up to 1100) in a random position, the others short
        let r = 1 + rng.below(4);
        let long = rng.below(r);
        let s: Vec<usize> = (0..r).map(|k| if k == long { 5 + rng.below(if r == 1 { 1100 } else if r == 2 { 400 } else { 40 }) } else { 1 + rng.below(3) }).collect();
        let ty = *rng.pick(&DISP_TYPES);
        disp_case(ty, &s, *rng.pick(&["none", "0", "2", "3"]), rng.below(2), out);
    }
    // the Err(..) side of the wrapper, every format combination
    for e in 0..4 { for prec in ["none", "0", "2"] { for alt in [0, 1] { out(format!("disperr {e} {alt} {prec}")); } } }
    // (ii-c) text forms of Tuple2 / Tuple3 / List: exhaustive over a small alphabet
    let alpha = ['1', ',', ' ', '(', ')', '[', ']'];
    let ws = words(&alpha, if thorough { 5 } else { 4 });
    for w in &ws { out(format!("t2parse {}", enc(w))); out(format!("t3parse {}", enc(w))); out(format!("lparse {}", enc(w))); }
    let comps = words(&['1', 'a', ',', ' ', '(', ')', ']'], if thorough { 3 } else { 2 });
    for a in &comps { for b in &comps {
        out(format!("t2show {} {}", enc(a), enc(b))); out(format!("t2rt {} {}", enc(a), enc(b)));
    } }
    let plain = ["1", "-2", "a b", "x", "", "3.5", "t,u", "(p)", "q]", " ", "new york city", " lead", "trail ", "a  b"];
    for a in plain { for b in plain { for c in plain {
        out(format!("t3show {} {} {}", enc(a), enc(b), enc(c))); out(format!("t3rt {} {} {}", enc(a), enc(b), enc(c)));
    } } }
    let mut lists: Vec<Vec<String>> = vec![vec![]];
    for n in 1..=3 { for idx in boxes(&vec![plain.len(); n]) { if n < 3 || idx.iter().all(|&i| i < 5 || (i >= 9 && !thorough)) || thorough { lists.push(idx.iter().map(|&i| plain[i].to_string()).collect()); } } }
    // long lists (above 256 / 1024 items) and long components
    for n in [17usize, 300, 1030] { lists.push((0..n).map(|k| format!("{}{k}", ["i", "a b", "x ", "q"][k % 4])).collect()); }
    lists.push(vec!["w ".repeat(150), "a".repeat(300)]);
    for l in &lists { out(format!("lshow {}", enc_list(l))); out(format!("lrt {}", enc_list(l))); }
    // typed parses: Tuple2<i32,f64>, Tuple3<i32,bool,f64>, List<i32> on the same alphabet (parse failures of components)
    for w in words(&['1', '-', '.', ',', ' ', '(', ')'], if thorough { 5 } else { 4 }) { out(format!("t2parse_t {}", enc(&w))); out(format!("lparse_t {}", enc(&w))); }
    // typed round trips value -> text -> value on the real Tuple2 / Tuple3 / List of every primitive component type, over the value classes
    for (ci, (ta, tb)) in T2_COMBOS.iter().enumerate() { for a in vals(ta) { for b in vals(tb) { out(format!("t2rt_t {ci} {} {}", enc(&a), enc(&b))); } } }
    for (ci, (ta, tb, tc)) in T3_COMBOS.iter().enumerate() { for a in vals(ta) { for b in vals(tb) { for c in vals(tc) { out(format!("t3rt_t {ci} {} {} {}", enc(&a), enc(&b), enc(&c))); } } } }
    for (ti, ty) in L_TYPES.iter().enumerate() {
        let v = vals(ty);
        out(format!("lrt_t {ti} -"));
        for a in &v { out(format!("lrt_t {ti} {}", enc_list(&[a.clone()]))); for b in &v { out(format!("lrt_t {ti} {}", enc_list(&[a.clone(), b.clone()]))); } }
        for n in [3usize, 17, 300, 1030] { out(format!("lrt_t {ti} {}", enc_list(&(0..n).map(|k| v[(k + k / v.len()) % v.len()].clone()).collect::<Vec<_>>()))); }
    }
    {   // long String components (a few hundred characters, blanks inside)
        let (la, lb) = ("new york ".repeat(40), "a".repeat(300));
        for (a, b) in [(la.as_str(), lb.as_str()), (lb.as_str(), ""), ("", la.as_str())] {
            out(format!("t2rt {} {}", enc(a), enc(b))); out(format!("t2show {} {}", enc(a), enc(b)));
            out(format!("t3rt {} {} {}", enc(a), enc(b), enc(a))); out(format!("t3show {} {} {}", enc(b), enc(a), enc(b)));
            out(format!("t3rt_t 2 {} {} {}", enc(a), enc("-7"), enc("0.1"))); out(format!("t2rt_t 4 {} {}", enc(a), enc("-32768")));
        }
    }
    // (iii) run-time front ends on Debug texts of nested structures: every shape rank<=4 len<=3, then random beyond
    let mut rshapes = shapes(1, 4, 1, if thorough { 3 } else { 2 });
    let n_rand = if thorough { 600 } else { 80 };
    for _ in 0..n_rand { rshapes.push(rng.shape(1, 5, 4)); }
    // sizes beyond the small scope (axis lengths 7..17 in every position, more than 256 / 1024 elements) and zero-length axes
    rshapes.extend(big_shapes().into_iter().filter(|s| s.iter().product::<usize>() <= if thorough { 1300 } else { 320 }));
    rshapes.push(vec![1030]);
    if thorough { rshapes.extend(vec![vec![1, 1001], vec![1001, 1]]); }
    rshapes.extend(zero_shapes());
    for s in &rshapes {
        let n: usize = s.iter().product();
        if n > 1300 { continue; }
        for kind in ["generic", "tuple2", "tuple3", "list", "char", "string"] {
            let leaves: Vec<String> = (0..n).map(|k| rt_leaf(kind, k, &mut rng)).collect();
            let wraps = match kind { "tuple2" | "tuple3" => 2, _ => 1 };
            let mut ns = vec![1; wraps]; ns.extend(s.iter());
            let text = format!("{:?}", build_nested(&ns, &leaves));
            if kind == "generic" {
                // the generic arm's pre-processing, then `array_parse_shape!` alone (the arm itself exists only in compiled literals)
                let t = text.replace("\", \"", "\",\"").replace("], [", "],[");
                out(format!("shape {} {}", s.len(), enc(&t)));
                // and the multi-wrapper-free form `[a, b, c]` with ndim 1
                if s.len() == 1 { out(format!("shape 1 {}", enc(&format!("{:?}", build_nested(s, &leaves))))); }
            } else {
                out(format!("rt {} {}", kind, enc(&text)));
                // the flat-macro layout: every element in its own one-element vec
                if s.len() == 1 {
                    let flat = format!("{:?}", build_nested(&[n, 1], &leaves));
                    out(format!("rt {} {}", kind, enc(&flat)));
                }
            }
        }
    }
    // (iv) malformed: exhaustive short texts
    let sh_words = words(&['[', ']', ',', ' ', '1'], if thorough { 7 } else { 5 });
    for w in &sh_words { for ndim in 0..=3 { out(format!("shape {} {}", ndim, enc(w))); } }
    for w in words(&['[', ']', ',', '(', ')', '1', '"'], if thorough { 6 } else { 4 }) {
        // texts in which `)` stands (directly) before `(` are compared like any other: the model proves the loop makes one
        // no-progress iteration and then panics (Props/C18 tuple_adjacent_parens) - the real macro must panic too, not hang
        out(format!("rt tuple2 {}", enc(&w))); out(format!("rt tuple2i {}", enc(&w)));
    }
    // `)` before `(`: every valid tuple text with `)`, `x)`, `) ` or `)_` put in front of its first `(`, plus hand-written ones
    for s in [vec![1usize], vec![2], vec![2, 2], vec![1, 3], vec![2, 1, 2]] {
        let n: usize = s.iter().product(); let leaves: Vec<String> = (0..n).map(|k| format!("({}, {})", k, k + 1)).collect();
        let mut ns = vec![1usize; 2]; ns.extend(s.iter()); let good = format!("{:?}", build_nested(&ns, &leaves));
        let at = good.find('(').unwrap();
        for ins in [")", "x)", ") ", ")_", "))", ")(", "()"] { let mut t = good.clone(); t.insert_str(at, ins); out(format!("rt tuple2i {}", enc(&t))); out(format!("rt tuple2 {}", enc(&t))); }
        let mut t = good.clone(); let last = t.rfind('(').unwrap(); t.insert(last, ')'); out(format!("rt tuple2i {}", enc(&t)));
    }
    for t in ["[[[x)(1, 2)]]]", "[[[)(]]]", ")(", "[[)(", "[[[(1, 2))(3, 4)]]]", "[[[(1, 2)], [)(3, 4)]]]"] { out(format!("rt tuple2i {}", enc(t))); out(format!("rt tuple3 {}", enc(t))); }
    for w in words(&['[', ']', ',', '1', ' ', '"'], if thorough { 6 } else { 5 }) { out(format!("rt list {}", enc(&w))); out(format!("rt listi {}", enc(&w))); }
    for w in words(&['[', ']', ',', 'a', '\'', ' '], if thorough { 6 } else { 5 }) { out(format!("rt char {}", enc(&w))); }
    for w in words(&['[', ']', ',', 'a', '"', '\\', 'n'], if thorough { 6 } else { 4 }) { out(format!("rt string {}", enc(&w))); }
}

// ---------------------------------------------------------------- part-2 robustness streams

fn disp_line(ty: &str, s: &[usize], prec: &str, alt: usize) -> String {
    let p = if prec == "none" { None } else { Some(prec.parse::<usize>().unwrap()) };
    let (texts, _, _, _) = disp_subject(ty, s, p, alt == 1, 0).unwrap();
    format!("disp {} {} {} {} {}", alt, show_list(s), enc_list(&texts), ty, prec)
}
fn seq_line(parts: &[String]) -> String { format!("seq {}", parts.join(" | ")) }

/// the `rt` / `shape` lines of one shape (the block of the base generator, for further shapes)
fn front_end_lines(s: &[usize], rng: &mut Rng, out: &mut dyn FnMut(String)) {
    let n: usize = s.iter().product();
    for kind in ["generic", "tuple2", "tuple3", "list", "char", "string"] {
        let leaves: Vec<String> = (0..n).map(|k| rt_leaf(kind, k, rng)).collect();
        let wraps = match kind { "tuple2" | "tuple3" => 2, _ => 1 };
        let mut ns = vec![1; wraps]; ns.extend(s.iter());
        let text = format!("{:?}", build_nested(&ns, &leaves));
        if kind == "generic" { out(format!("shape {} {}", s.len(), enc(&text.replace("\", \"", "\",\"").replace("], [", "],[")))); }
        else { out(format!("rt {} {}", kind, enc(&text))); }
    }
}

const COMBOS: [(&str, usize); 6] = [("none", 0), ("2", 1), ("none", 1), ("2", 0), ("0", 0), ("0", 1)];
const DISP_TYPES_X: [&str; 2] = ["charx", "Stringx"];
const DISP_TYPES_R5: [&str; 3] = ["f64k", "f64p", "f32k"];          // the value pools of round 5 (used by gen_r5 only: the older streams stay as they were)

fn gen_r3(tier: &str, seed: u64, out: &mut dyn FnMut(String)) {
    let thorough = tier == "thorough";
    let mut rng = Rng::new(seed ^ 0x18_0003);
    let mut t = 0usize;
    let all_types: Vec<&str> = DISP_TYPES.iter().chain(DISP_TYPES_X.iter()).cloned().collect();

    // ---- stream 8a: exact precisions.  0..20, then around every power of two up to 4096, 300, 1000, 1074 (exact expansion of 5e-324), 1075
    let precs: Vec<usize> = (0..=20usize).chain([31, 32, 33, 63, 64, 65, 100, 127, 128, 129, 200, 253, 254, 255, 256, 257, 258, 300, 511, 512, 513, 1000, 1023, 1024, 1074, 1075, 1100, 4095, 4096]).collect();
    for &p in &precs {
        let ps = p.to_string();
        let shapes: Vec<(Vec<usize>, usize)> = if p <= 20 { vec![(vec![3], 0), (vec![2, 2], 1), (vec![2, 1, 3], 0), (vec![2, 3], 1)] } else { vec![(vec![2], 0), (vec![2, 2], 1), (vec![1, 3], 0)] };
        for ty in ["f64", "f64x", "f32", "T2", "T3s"] { for (s, alt) in &shapes { out(disp_line(ty, s, &ps, *alt)); } }
        t += 1; let other = all_types[t % all_types.len()];
        for (s, alt) in &shapes { out(disp_line(other, s, &ps, 1 - *alt)); }
    }
    for p in ["1", "3", "5", "255", "256", "300", "1074"] { for ty in &all_types { out(disp_line(ty, &[2, 2], p, 0)); out(disp_line(ty, &[3], p, 1)); } }
    for p in ["32767", "32768", "65535"] { for ty in ["f64", "f32", "f64x"] { out(disp_line(ty, &[2], p, 0)); if thorough { out(disp_line(ty, &[2, 1], p, 1)); } } }

    // ---- stream 7: rows of 8191 .. 70000 elements (a blocked row renderer), many rows, `huge_shapes()`; the model itself answers (its
    // `display` and literal parse-back are linear, about 8 us per element).  Element types with heap data (String, tuples, lists) only on
    // shapes with few rows: the crate clones the whole array once per row when it splits, which is quadratic for them (28 s at [8193,2])
    let mut rows: Vec<Vec<usize>> = vec![vec![8191], vec![8192], vec![8193], vec![8194], vec![10000], vec![16384], vec![16385], vec![2, 8193], vec![2, 10000], vec![1, 1, 8193],
        vec![8193, 1], vec![8193, 2], vec![24577], vec![3, 2, 20011]];
    rows.extend(huge_shapes());
    let copy_types = ["f64", "u8", "i64", "usize", "f32", "bool", "char", "i8", "u64", "i32~r"];       // not f64x: 1e300 * k prints 300 digits per element
    let heap_types = ["String", "T2", "List", "ListS"];
    for (i, s) in rows.iter().enumerate() {
        let n: usize = s.iter().product();
        let many_rows = n / s[s.len() - 1] > 1000;
        if s[0] > 20000 && !thorough { continue; }            // 70000 rows: the crate splits rows quadratically (thorough tier only)
        let k = if s[0] > 20000 { 1 } else if thorough { 4 } else if n <= 8200 || n > 100000 { 2 } else if s.len() == 1 && n > 20000 { 1 } else if n > 16500 { 1 } else { 2 };
        for c in 0..k { let (prec, alt) = COMBOS[(c + if k == 1 { i % 2 } else { 0 }) % 4]; out(disp_line("i32", s, prec, alt)); }
        let others = if thorough && s[0] <= 20000 { 3 } else { 1 };       // 70000 rows cost 12 s per case in the crate: two cases only
        for j in 0..others {
            let ty = if !many_rows && n <= 20100 && (i + j) % 3 == 0 { heap_types[(i + j) % 4] } else { copy_types[(i * 3 + j) % 10] };
            let (prec, alt) = COMBOS[(i + j + 1) % 4];
            out(disp_line(ty, s, prec, alt));
        }
    }

    // ---- stream 10: ranks 5..8, text form and run-time front ends
    let high: Vec<Vec<usize>> = vec![vec![1, 2, 1, 2, 1], vec![2, 2, 2, 2, 2], vec![1, 2, 1, 2, 1, 2], vec![2, 1, 1, 1, 1, 2], vec![1, 1, 1, 1, 1, 1, 1, 1], vec![2, 1, 2, 1, 2, 1, 2, 1],
        vec![2, 2, 2, 2, 2, 2, 2, 2], vec![3, 1, 2, 1, 1, 2, 1, 2], vec![1, 1, 1, 1, 1, 1, 3], vec![2, 3, 1, 1, 2, 2]];
    for (i, s) in high.iter().enumerate() {
        for (j, ty) in all_types.iter().enumerate() { for c in 0..(if thorough { 6 } else { 2 }) { let (prec, alt) = COMBOS[(i + j + c * 2) % 6]; out(disp_line(ty, s, prec, alt)); } }
        front_end_lines(s, &mut rng, out);
    }

    // ---- stream 8b: every printable ASCII character as char element, one-character String, tuple component and list item
    for c in (32u8..127).map(|b| b as char) {
        let cd = format!("{:?}", c);
        for (shape, leaves) in [(vec![1usize, 1], vec![cd.clone()]), (vec![1, 3], vec!["'a'".to_string(), cd.clone(), "'b'".to_string()]), (vec![1, 2, 2], vec![cd.clone(), "'x'".to_string(), cd.clone(), cd.clone()])] {
            out(format!("rt char {}", enc(&format!("{:?}", build_nested(&shape, &leaves)))));
        }
        let (s1, s2) = (format!("{:?}", c.to_string()), format!("{:?}", format!("a{c}b")));
        for (shape, leaves) in [(vec![1usize, 1], vec![s1.clone()]), (vec![1, 3], vec![s2.clone(), s1.clone(), "\"q\"".to_string()]), (vec![1, 2, 2], vec![s1.clone(), s2.clone(), s2.clone(), s1.clone()])] {
            out(format!("rt string {}", enc(&format!("{:?}", build_nested(&shape, &leaves)))));
        }
        let (a, b) = (c.to_string(), format!("x{c}"));
        out(format!("t2show {} {}", enc(&a), enc(&b))); out(format!("t2rt {} {}", enc(&a), enc(&b))); out(format!("t2rt {} {}", enc(&b), enc(&a)));
        out(format!("t3show {} {} {}", enc(&a), enc(&b), enc(&a))); out(format!("t3rt {} {} {}", enc(&b), enc(&a), enc(&b)));
        out(format!("lshow {}", enc_list(&[a.clone(), b.clone()]))); out(format!("lrt {}", enc_list(&[a.clone(), b.clone()]))); out(format!("lrt {}", enc_list(&[b.clone()])));
        if !",()[]".contains(c) {      // typed round trips: the statement is about separator-free components
            out(format!("t2rt_t 5 {} {}", enc(&a), enc("7"))); out(format!("t2rt_t 8 {} {}", enc(&b), enc(&a)));
            out(format!("lrt_t 7 {}", enc_list(&[a.clone()]))); out(format!("lrt_t 7 {}", enc_list(&[a.clone(), "k".to_string(), a.clone()])));
            out(format!("lrt_t 6 {}", enc_list(&[b.clone(), a.clone()])));
        }
    }
    for ty in DISP_TYPES_X { for s in [vec![95usize], vec![5, 19], vec![2, 3], vec![190]] { for (prec, alt) in COMBOS { out(disp_line(ty, &s, prec, alt)); } } }

    // ---- stream 6a: hidden state keyed by shape + a fingerprint of the values: an array, DIRECTLY followed by the same shape with the same
    // elements in other places (transposed / reversed / rotated / swapped), then the array again
    let rshapes: Vec<Vec<usize>> = vec![vec![4], vec![16], vec![17], vec![4, 4], vec![3, 6], vec![5, 5], vec![2, 2, 4], vec![64], vec![100], vec![2, 50], vec![1001], vec![9, 9]];
    for (i, s) in rshapes.iter().enumerate() { for (j, ty) in all_types.iter().enumerate() { for (v, var) in ["x", "r", "t", "s"].iter().enumerate() {
        if !thorough && s.iter().product::<usize>() > 100 && (i + j + v) % 3 != 0 { continue; }
        let (prec, alt) = COMBOS[(i + j + v) % 4];
        let (a, b) = (disp_line(ty, s, prec, alt), disp_line(&format!("{ty}~{var}"), s, prec, alt));
        if a != b { out(seq_line(&[a.clone(), b, a])); }
    } } }
    // ---- stream 6b: shapes that collide under weak polynomial hashes, back to back in both orders
    for (s1, s2) in collision_shape_pairs() {
        t += 1; let ty = all_types[t % all_types.len()]; let (prec, alt) = COMBOS[t % 4];
        let (a, b) = (disp_line(ty, &s1, prec, alt), disp_line(ty, &s2, prec, alt));
        out(seq_line(&[a.clone(), b.clone(), a, b]));
    }
    // ---- stream 6d: the same shape through different element types back to back
    for s in [vec![3usize], vec![2, 3], vec![4, 4], vec![17], vec![2, 2, 2]] { for (prec, alt) in COMBOS.iter().take(4) {
        let tys = ["i32", "f64", "u8", "String", "bool", "i64", "char", "f32", "i32", "T2", "List", "i32"];
        out(seq_line(&tys.iter().map(|ty| disp_line(ty, &s, prec, *alt)).collect::<Vec<_>>()));
    } }
    // ---- stream 6c: a refused text directly followed by a valid one (front ends, shape parser, tuple / list parsers, the Err side of the wrapper)
    let bads = ["", "[", "]", "[[1]", "[1]]", "[(1]", "[\"1]", ",", "(1", "[1,", "[[[)(1, 2)]]]"];
    for kind in ["tuple2", "tuple2i", "tuple3", "list", "listi", "char", "string"] {
        let leaf_kind = match kind { "tuple2i" => "tuple2", "listi" => "list", k => k };
        for (i, bad) in bads.iter().enumerate() {
            let wraps = if kind.starts_with("tuple") { 2 } else { 1 };
            let mk = |s: &[usize], rng: &mut Rng| { let n: usize = s.iter().product(); let leaves: Vec<String> = (0..n).map(|k| if kind == "tuple2i" { format!("({}, {})", k, k + 1) } else if kind == "listi" { format!("[{}, {}]", k, k + 2) } else { rt_leaf(leaf_kind, k, rng) }).collect();
                let mut ns = vec![1; wraps]; ns.extend(s.iter()); format!("rt {kind} {}", enc(&format!("{:?}", build_nested(&ns, &leaves)))) };
            let (g1, g2) = (mk(&[2, 2], &mut rng), mk(&[3], &mut rng));
            let b1 = format!("rt {kind} {}", enc(bad)); let b2 = format!("rt {kind} {}", enc(bads[(i + 3) % bads.len()]));
            out(seq_line(&[b1, g1.clone(), b2, g2, g1]));
        }
    }
    for bad in bads {
        out(seq_line(&[format!("shape 2 {}", enc(bad)), format!("shape 2 {}", enc("[[1,2],[3,4]]")), format!("shape 1 {}", enc(bad)), format!("shape 1 {}", enc("[1,2,3]")), format!("shape 2 {}", enc("[[1,2],[3,4]]"))]));
        out(seq_line(&[format!("t2parse {}", enc(bad)), format!("t2parse {}", enc("(1, 2)")), format!("lparse {}", enc(bad)), format!("lparse {}", enc("[1, 2]")), format!("t3parse {}", enc(bad)), format!("t3parse {}", enc("(1, 2, 3)"))]));
    }
    for e in 0..4 { let (prec, alt) = COMBOS[e]; out(seq_line(&[disp_line("i32", &[2, 2], prec, alt), format!("disperr {e} {alt} {prec}"), disp_line("i32", &[2, 2], prec, alt), disp_line("f64", &[3], prec, alt)])); }
}

/// round-5 streams (FRAMEWORK.md part 4, classes 16 and 19-21 as far as they concern literals and text forms).  The compiled programs of
/// class 19 (impure items, f32 items next to a midpoint), class 20 (constructor macros above 2^24 elements) and class 21 (integer
/// constructor arguments with a span >= 2^32) are entries of `c18_gen` and come with the `lit` / `ctor` lines of the base generator
fn gen_r5(tier: &str, seed: u64, out: &mut dyn FnMut(String)) {
    let thorough = tier == "thorough";
    let mut rng = Rng::new(seed ^ 0x18_0005);
    // ---- class 16: dense value pools through the text form (element texts by the element type's own Display = the native oracle)
    let (nk, np, nf) = (f64_pool_k().len(), f64_pool_p().len(), f32_pool().len());
    for (ty, n) in [("f64k", nk), ("f64p", np / 3), ("f32k", nf)] {
        for (prec, alt) in [("none", 0), ("17", 0), ("2", 1), ("0", 0)] { out(disp_line(ty, &[n], prec, alt)); }
        out(disp_line(ty, &[3, n / 3], "none", 1)); out(disp_line(ty, &[n / 7, 7], "3", 0));
        for s in [vec![3usize], vec![2, 2], vec![2, 3, 2], vec![64], vec![8, 9], vec![300]] { for (prec, alt) in COMBOS { out(disp_line(ty, &s, prec, alt)); } }
        for p in ["1", "5", "9", "16", "17", "18", "20", "30", "255", "1074"] { out(disp_line(ty, &[40], p, 0)); out(disp_line(ty, &[4, 10], p, 1)); }
        // the same shape with its elements in other places, back to back
        for (v, var) in ["x", "r", "t", "s"].iter().enumerate() { let (prec, alt) = COMBOS[v]; let s = [5usize, 7];
            let (a, b) = (disp_line(ty, &s, prec, alt), disp_line(&format!("{ty}~{var}"), &s, prec, alt)); out(seq_line(&[a.clone(), b, a])); }
    }
    out(disp_line("f64p", &[3, np / 3], "none", 0));
    if thorough { out(disp_line("f64p", &[np], "17", 0)); out(disp_line("f64p", &[np / 3, 3], "1", 1)); }
    // seeded windows of the pools under seeded precisions
    for _ in 0..(if thorough { 120 } else { 24 }) {
        let ty = *rng.pick(&DISP_TYPES_R5); let n = 2 + rng.below(500);
        let s = if rng.below(2) == 0 { vec![n] } else { vec![1 + rng.below(4), n / 2 + 1] };
        let p = rng.below(25).to_string();
        out(disp_line(ty, &s, if rng.below(4) == 0 { "none" } else { p.as_str() }, rng.below(2)));
    }
    // pairs, triples and lists of the pool values: value -> text -> value on the real typed Tuple2 / Tuple3 / List (f64: combos 0, 7; lists 3, 4)
    let show64 = |v: &[f64]| v.iter().map(|x| x.to_string()).collect::<Vec<_>>();
    let show32 = |v: &[f32]| v.iter().map(|x| x.to_string()).collect::<Vec<_>>();
    let (pk, pp, pf) = (show64(&f64_pool_k()), show64(&f64_pool_p()), show32(&f32_pool()));
    for chunk in pk.chunks(300).chain(pp.chunks(if thorough { 300 } else { 700 })) { out(format!("lrt_t 3 {}", enc_list(chunk))); }
    for chunk in pf.chunks(300) { out(format!("lrt_t 4 {}", enc_list(chunk))); }
    let stride = if thorough { 1 } else { 16 };
    for (i, a) in pk.iter().enumerate().filter(|(i, _)| *i < 140 || i % stride == 0).chain(pp.iter().enumerate().filter(|(i, _)| i % (stride * 4) == 0)) {
        out(format!("t2rt_t 0 {} {}", enc(["0", "-1", "9007199254740993"][i % 3]), enc(a)));
        out(format!("t2rt_t 7 {} {}", enc(a), enc(BLANKY[i % 8])));
        out(format!("t3rt_t 5 {} {} {}", enc(a), enc(&pk[(i * 7 + 1) % pk.len()]), enc(BLANKY[(i + 3) % 8])));
    }
    for (i, a) in pf.iter().enumerate().filter(|(i, _)| *i < 80 || i % stride == 0) {
        out(format!("t2rt_t 2 {} {}", enc(a), enc(if i % 2 == 0 { "true" } else { "false" })));
        out(format!("t3rt_t 1 {} {} {}", enc(["0", "255", "128"][i % 3]), enc(["-128", "127", "0"][i % 3]), enc(a)));
    }
}

fn gen(tier: &str, seed: u64, out: &mut dyn FnMut(String)) {
    // the streams of rounds 1 and 2, unchanged, then the part-2 streams.  Two `tally` lines: one placed where the summary's sampler
    // picks its last sample (so the counters show in the evidence file), one at the very end
    let mut lines: Vec<String> = vec![];
    gen_base(tier, seed, &mut |l| lines.push(l));
    // the part-2 streams go in front of the last quarter of the older streams (the exhaustive malformed texts), so that the first tally line sees them
    let tail = lines.split_off(lines.len() * 3 / 4);
    gen_r3(tier, seed, &mut |l| lines.push(l));
    gen_r5(tier, seed, &mut |l| lines.push(l));
    lines.extend(tail);
    let n = lines.len() + 2;
    let pos = (11 * (n / 12).max(1)).min(lines.len());
    lines.insert(pos, "tally".to_string());
    lines.push("tally".to_string());
    for l in lines { out(l); }
}

// ---------------------------------------------------------------- executor

fn exec_single(op: &str, args: &[&str], expected: &str) -> Option<Verdict> {
    match op {
        "lit" => {
            let id: usize = args[0].parse().ok()?;
            let l = LITS.get(id)?;
            let observed = (l.run)();
            let (model, dbg_flag) = match expected.rsplit_once(' ') { Some((m, f)) if f.starts_with("dbg=") => (m, f), _ => (expected, "dbg=?") };
            let exp = finish_expected(model, l.canon)?;
            let shown = show_obs(&observed);
            // f32 literals: every element bit-equal to the source token read as f32 directly (one rounding from the decimal text)
            if l.ty == "f32" && !l.toks.is_empty() {
                if let Obs::Ok(_, elems) = &observed {
                    if elems.len() != l.toks.len() { return Some(Verdict::Mismatch { observed: shown, detail: format!("`{}`: {} items written", l.src, l.toks.len()) }); }
                    for (k, tok) in l.toks.iter().enumerate() {
                        let want: f32 = strip_suffix(tok).parse().ok()?;
                        let got: f32 = elems[k].parse().ok()?;              // the Debug text of an f32 reads back as the same bits
                        if want.to_bits() != got.to_bits() {
                            return Some(Verdict::Mismatch { observed: format!("element {k} = {:?} (bits {:#010x}) in {}", got, got.to_bits(), truncate(&shown, 300)),
                                detail: format!("`{}` ({}): item {k} is the token `{tok}`; \"{}\".parse::<f32>() = {:?} (bits {:#010x})", l.src, l.note, strip_suffix(tok), want, want.to_bits()) });
                        }
                    }
                    N_F32.fetch_add(elems.len(), Relaxed);
                }
            }
            if dbg_flag != "dbg=1" {
                return Some(Verdict::Mismatch { observed: shown, detail: format!("model `nest` does not reproduce the Debug text of `{}`: real `{}`", l.src, dec(args[4]).unwrap_or_default()) });
            }
            if !same_obs(&observed, &exp) {
                return Some(Verdict::Mismatch { observed: shown, detail: format!("`{}` ({}): model front end says `{}`", l.src, l.note, truncate(&show_obs(&exp), 300)) });
            }
            // ground truth: the structure the literal was generated from
            let truth = Obs::Ok(l.shape.to_vec(), l.truth.iter().map(|s| s.to_string()).collect());
            if same_obs(&observed, &truth) { Some(Verdict::Match(shown)) }
            else if l.scope == "out" { Some(Verdict::Open(shown)) }
            else { Some(Verdict::Mismatch { observed: shown, detail: format!("`{}` ({}): written structure is `{}`", l.src, l.note, truncate(&show_obs(&truth), 300)) }) }
        }
        "ctor" => {
            let id: usize = args[0].parse().ok()?;
            let c = CTORS.get(id)?;
            let (m, f) = (c.run)();
            let same = match (&m, &f) { (Obs::Ok(s1, e1), Obs::Ok(s2, e2)) => s1 == s2 && e1 == e2, (Obs::Err(a), Obs::Err(b)) => a == b, (Obs::Panic, Obs::Panic) => true, _ => false };
            if same { Some(compare_default("ok same".into(), expected)) }
            else { Some(Verdict::Mismatch { observed: format!("ok differ macro={} function={}", show_obs(&m), show_obs(&f)), detail: format!("`{}` vs `{}`", c.mac, c.fun) }) }
        }
        "rt" => {
            let text = dec(args[1])?;
            let (observed, canon) = run_front_end(args[0], text)?;
            let exp = finish_expected(expected, canon)?;
            let shown = show_obs(&observed);
            if same_obs(&observed, &exp) { Some(Verdict::Match(shown)) }
            else { Some(Verdict::Mismatch { observed: shown, detail: format!("model says `{}`", truncate(&show_obs(&exp), 300)) }) }
        }
        "shape" => {
            let ndim: usize = args[0].parse().ok()?;
            let text = dec(args[1])?;
            let observed = guarded(|| { let v: Vec<usize> = array_parse_shape!(ndim, text); format!("ok {}", show_list(&v)) });
            Some(compare_default(observed, expected))
        }
        "disp" => {
            let alt = args[0] == "1";
            let shape = parse_usize_list(args[1]);
            let prec = if args[4] == "none" { None } else { Some(args[4].parse::<usize>().ok()?) };
            let (texts, shown, wrapped, side) = disp_subject(args[3], &shape, prec, alt, 2)?;
            if enc_list(&texts) != args[2] { return None; }
            let mut it = expected.splitn(3, ' ');
            let (_ok, mtext, back) = (it.next()?, it.next()?, it.next()?);
            let observed = if shown == "panic" { "panic".to_string() } else { format!("ok {}", enc(&shown)) };
            if observed != format!("ok {}", mtext) {
                return Some(Verdict::Mismatch { observed: format!("{} = `{}`", observed, shown), detail: format!("model renders `{}`", dec(mtext).unwrap_or_default()) });
            }
            // the other receiver: the text form of `Ok(array)` (PrintableResult) under the same format specification
            let want_wrapped = format!("Ok({})", dec(mtext).unwrap_or_default());
            if wrapped != want_wrapped {
                return Some(Verdict::Mismatch { observed: format!("RECEIVER-DIVERGENCE Result wrapper renders `{}`, plain array `{}`", truncate(&wrapped, 600), truncate(&shown, 600)),
                    detail: format!("format `{{:{}{}}}`: model renders `{}`", if alt { "#" } else { "" }, prec.map_or(String::new(), |p| format!(".{p}")), truncate(&want_wrapped, 600)) });
            }
            if !side.is_empty() {
                return Some(Verdict::Mismatch { observed: format!("REPEAT-DIVERGENCE {side}; the first rendering was `{}`", truncate(&shown, 600)), detail: "equal arrays must have equal text forms, however they were built and however often they are rendered (the first rendering agrees with the model)".into() });
            }
            if texts.len() > 8192 { N_HUGE.fetch_add(1, Relaxed); }
            // parse back (plain form, element texts free of separators): independent bracket parser and the literal front end of the model
            let plain_elems = texts.iter().all(|t| !t.is_empty() && !t.contains(|c| "[],\"#".contains(c)) && !t.starts_with(' '));
            if !alt && plain_elems && !shape.is_empty() && !texts.is_empty() {
                let want = (shape.clone(), texts.clone());
                if bracket_parse(&shown) != Some(want.clone()) {
                    return Some(Verdict::Mismatch { observed, detail: format!("bracket parser on `{}` does not return shape {:?} and the elements", shown, shape) });
                }
                if parse_model_ok(back) != Some(want) {
                    return Some(Verdict::Mismatch { observed, detail: format!("model literal parser on `[{}]` gives `{}`", shown, back) });
                }
            }
            if alt {
                // pretty = plain modulo line breaks and indentation
                let (_, plain, _, _) = disp_subject(args[3], &shape, prec, false, 1)?;
                let strip = |s: &str| s.chars().filter(|c| *c != ' ' && *c != '\n').collect::<String>();
                if strip(&plain) != strip(&shown) { return Some(Verdict::Mismatch { observed, detail: format!("pretty `{}` vs plain `{}` differ beyond whitespace", shown, plain) }); }
            }
            Some(Verdict::Match(observed))
        }
        "t2show" => { let (a, b) = (dec(args[0])?, dec(args[1])?); Some(compare_default(guarded(|| format!("ok {}", enc(&Tuple2(a, b).to_string()))), expected)) }
        "t3show" => { let (a, b, c) = (dec(args[0])?, dec(args[1])?, dec(args[2])?); Some(compare_default(guarded(|| format!("ok {}", enc(&Tuple3(a, b, c).to_string()))), expected)) }
        "lshow" => { let l = dec_list(args[0])?; Some(compare_default(guarded(|| format!("ok {}", enc(&List(l).to_string()))), expected)) }
        "t2parse" => { let s = dec(args[0])?; Some(compare_default(guarded(|| match s.parse::<Tuple2<String, String>>() { Ok(Tuple2(a, b)) => format!("ok {}", enc_list(&[a, b])), Err(_) => "err Parse".into() }), expected)) }
        "t3parse" => { let s = dec(args[0])?; Some(compare_default(guarded(|| match s.parse::<Tuple3<String, String, String>>() { Ok(Tuple3(a, b, c)) => format!("ok {}", enc_list(&[a, b, c])), Err(_) => "err Parse".into() }), expected)) }
        "lparse" => { let s = dec(args[0])?; Some(compare_default(guarded(|| match s.parse::<List<String>>() { Ok(List(v)) => format!("ok {}", enc_list(&v)), Err(_) => "err Parse".into() }), expected)) }
        "t2rt" => {
            let (a, b) = (dec(args[0])?, dec(args[1])?);
            let observed = guarded(|| match Tuple2(a.clone(), b.clone()).to_string().parse::<Tuple2<String, String>>() { Ok(Tuple2(x, y)) => format!("ok {}", enc_list(&[x, y])), Err(_) => "err Parse".into() });
            let clean = |t: &str| !t.contains(|c| ",()".contains(c));
            if clean(&a) && clean(&b) && observed != format!("ok {}", enc_list(&[a, b])) { return Some(Verdict::Mismatch { observed, detail: "separator-free pair does not survive the round trip".into() }); }
            Some(compare_default(observed, expected))
        }
        "t3rt" => {
            let (a, b, c) = (dec(args[0])?, dec(args[1])?, dec(args[2])?);
            let observed = guarded(|| match Tuple3(a.clone(), b.clone(), c.clone()).to_string().parse::<Tuple3<String, String, String>>() { Ok(Tuple3(x, y, z)) => format!("ok {}", enc_list(&[x, y, z])), Err(_) => "err Parse".into() });
            let clean = |t: &str| !t.contains(|c| ",()".contains(c));
            if clean(&a) && clean(&b) && clean(&c) && observed != format!("ok {}", enc_list(&[a, b, c])) { return Some(Verdict::Mismatch { observed, detail: "separator-free triple does not survive the round trip".into() }); }
            Some(compare_default(observed, expected))
        }
        "lrt" => {
            let l = dec_list(args[0])?;
            let observed = guarded(|| match List(l.clone()).to_string().parse::<List<String>>() { Ok(List(v)) => format!("ok {}", enc_list(&v)), Err(_) => "err Parse".into() });
            let clean = |t: &str| !t.is_empty() && !t.contains(|c| ",()[]".contains(c));
            if l.iter().all(|t| clean(t)) && observed != format!("ok {}", enc_list(&l)) { return Some(Verdict::Mismatch { observed, detail: "separator-free list does not survive the round trip".into() }); }
            Some(compare_default(observed, expected))
        }
        "disperr" => {
            let e = match args[0] { "0" => ArrayError::BroadcastShapeMismatch, "1" => ArrayError::AxisOutOfBounds, "2" => ArrayError::ShapeMustMatchValuesLength,
                _ => ArrayError::ParameterError { param: "`x`", message: "must be something" } };
            let alt = args[1] == "1";
            let prec = if args[2] == "none" { None } else { Some(args[2].parse::<usize>().ok()?) };
            let want = format!("Err({})", e);
            let got_i = guarded(|| fmt_spec(&PrintableResult::<i32> { result: Err(e.clone()) }, prec, alt));
            let got_f = guarded(|| fmt_spec(&PrintableResult::<f64> { result: Err(e.clone()) }, prec, alt));
            if got_i == want && got_f == want { Some(compare_default("ok same".into(), expected)) }
            else { Some(Verdict::Mismatch { observed: format!("ok {}", enc(&got_i)), detail: format!("the wrapper of Err(e) must print `{want}`; i32: `{got_i}`, f64: `{got_f}`") }) }
        }
        "t2rt_t" => {
            let (a, b) = (dec(args[1])?, dec(args[2])?);
            let observed = t2_typed(args[0].parse().ok()?, &a, &b)?;
            let clean = |t: &str| !t.contains(|c| ",()".contains(c));
            if clean(&a) && clean(&b) && observed != format!("ok {}", enc_list(&[a, b])) { return Some(Verdict::Mismatch { observed, detail: "separator-free typed pair does not survive the round trip".into() }); }
            Some(compare_default(observed, expected))
        }
        "t3rt_t" => {
            let (a, b, c) = (dec(args[1])?, dec(args[2])?, dec(args[3])?);
            let observed = t3_typed(args[0].parse().ok()?, &a, &b, &c)?;
            let clean = |t: &str| !t.contains(|c| ",()".contains(c));
            if clean(&a) && clean(&b) && clean(&c) && observed != format!("ok {}", enc_list(&[a, b, c])) { return Some(Verdict::Mismatch { observed, detail: "separator-free typed triple does not survive the round trip".into() }); }
            Some(compare_default(observed, expected))
        }
        "lrt_t" => {
            let l = dec_list(args[1])?;
            let observed = l_typed(args[0].parse().ok()?, &l)?;
            let clean = |t: &str| !t.is_empty() && !t.contains(|c| ",()[]".contains(c));
            if l.iter().all(|t| clean(t)) && observed != format!("ok {}", enc_list(&l)) { return Some(Verdict::Mismatch { observed, detail: "separator-free typed list does not survive the round trip".into() }); }
            Some(compare_default(observed, expected))
        }
        // typed component parsers: the model cuts the pieces, the harness applies the real `i32`/`f64` parsers to them
        "t2parse_t" => {
            let s = dec(args[0])?;
            let observed = guarded(|| match s.parse::<Tuple2<i32, f64>>() { Ok(v) => format!("ok {:?}", v), Err(_) => "err Parse".into() });
            let exp = match expected.strip_prefix("ok ").and_then(dec_list) {
                Some(p) if p.len() == 2 => match (p[0].parse::<i32>(), p[1].parse::<f64>()) { (Ok(a), Ok(b)) => format!("ok {:?}", Tuple2(a, b)), _ => "err Parse".into() },
                _ => "err Parse".into() };
            Some(compare_default(observed, &exp))
        }
        "lparse_t" => {
            let s = dec(args[0])?;
            let observed = guarded(|| match s.parse::<List<i32>>() { Ok(v) => format!("ok {:?}", v), Err(_) => "err Parse".into() });
            let exp = match expected.strip_prefix("ok ").and_then(dec_list) {
                Some(p) => match p.iter().map(|t| t.parse::<i32>()).collect::<Result<Vec<_>, _>>() { Ok(v) => format!("ok {:?}", List(v)), Err(_) => "err Parse".into() },
                None => "err Parse".into() };
            Some(compare_default(observed, &exp))
        }
        _ => None,
    }
}

/// `seq`: the cases of the line back to back on this thread, each judged like a single case
fn exec_seq(args: &[&str], expected: &str) -> Option<Verdict> {
    let groups: Vec<&[&str]> = args.split(|t| *t == "|").collect();
    let exps: Vec<&str> = expected.split(" ;; ").collect();
    if groups.is_empty() || groups.len() != exps.len() { return None; }
    let mut obs = vec![]; let mut open = false;
    for (k, (g, e)) in groups.iter().zip(exps.iter()).enumerate() {
        if g.is_empty() { return None; }
        let shown_case = format!("{} {}", g[0], g[1..].iter().map(|a| truncate(a, 60)).collect::<Vec<_>>().join(" "));
        match exec_single(g[0], &g[1..], e)? {
            Verdict::Match(o) => obs.push(truncate(&o, 60)),
            Verdict::Open(o) => { open = true; obs.push(truncate(&o, 60)); }
            Verdict::Mismatch { observed, detail } => return Some(Verdict::Mismatch {
                observed: format!("step {} of {} (`{}`): {}", k + 1, groups.len(), shown_case, observed),
                detail: format!("the steps are executed back to back on one thread; {}", detail) }),
        }
    }
    let text = truncate(&obs.join(" ;; "), 400);
    Some(if open { Verdict::Open(text) } else { Verdict::Match(text) })
}

thread_local! {
    /// the previous single case of this thread that was answered correctly: (op, args, expected, signature of its verdict)
    static PREV: RefCell<Option<(String, Vec<String>, String, String)>> = const { RefCell::new(None) };
}
fn signature(v: &Verdict) -> Option<String> { match v { Verdict::Match(o) => Some(format!("match {o}")), Verdict::Open(o) => Some(format!("open {o}")), Verdict::Mismatch { .. } => None } }

fn exec(op: &str, args: &[&str], expected: &str) -> Option<Verdict> {
    if op == "tally" {
        return Some(Verdict::Match(format!("ok tally: {} A-B-A re-runs; {} arrays rendered twice + rebuilt; {} text forms > 8192 elements vs model; {} f32 items bit-equal to tok.parse::<f32>()", N_ABA.load(Relaxed), N_TWICE.load(Relaxed), N_HUGE.load(Relaxed), N_F32.load(Relaxed))));
    }
    if op == "seq" { return exec_seq(args, expected); }
    let mut verdict = exec_single(op, args, expected)?;
    // A-B-A: the previous case A is run again after this case B and must answer exactly as before
    let prev = PREV.with(|p| p.borrow_mut().take());
    if let (Some((pop, pargs, pexp, psig)), Some(_)) = (prev, signature(&verdict)) {
        if pop != op || pargs.iter().map(String::as_str).ne(args.iter().cloned()) {
            let pa: Vec<&str> = pargs.iter().map(String::as_str).collect();
            N_ABA.fetch_add(1, Relaxed);
            let again = exec_single(&pop, &pa, &pexp);
            let sig2 = again.as_ref().and_then(signature);
            if sig2.as_deref() != Some(psig.as_str()) {
                let now = match &again { Some(Verdict::Mismatch { observed, detail }) => format!("`{}` ({})", truncate(observed, 300), truncate(detail, 300)), Some(v) => truncate(&signature(v).unwrap_or_default(), 300), None => "<harness error>".into() };
                verdict = Verdict::Mismatch { observed: format!("A-B-A-DIVERGENCE the preceding case `{} {}` answered `{}`; run again directly after this case it answers {}", pop, truncate(&pargs.join(" "), 300), truncate(&psig, 200), now),
                    detail: "a call must not depend on the calls made before it (the case itself was answered as the model says)".into() };
            }
        }
    }
    if let Some(sig) = signature(&verdict) {
        if args.iter().map(|a| a.len()).sum::<usize>() <= 20000 { PREV.with(|p| *p.borrow_mut() = Some((op.to_string(), args.iter().map(|a| a.to_string()).collect(), expected.to_string(), sig))); }
    }
    Some(verdict)
}

fn nontrivial(op: &str, args: &[&str]) -> bool {
    if op == "seq" { return args.split(|t| *t == "|").any(|g| !g.is_empty() && nontrivial(g[0], &g[1..])); }
    if op == "tally" { return false; }
    match op {
        "lit" => parse_usize_list(args[2]).iter().filter(|&&d| d > 1).count() >= 2,
        "disp" => parse_usize_list(args[1]).iter().filter(|&&d| d > 1).count() >= 2,
        "rt" | "shape" => args.last().map_or(false, |t| t.len() >= 16),
        "ctor" => true,
        _ => args.iter().any(|a| a.len() >= 4),
    }
}

fn main() {
    harness_main(Spec { prop: "C18", gen, exec, nontrivial, hang_secs: 30,
        rule: "compiled programs: every literal of c18_gen (all shapes rank<=4 len<=3 for i32; rank<=4 len<=2 + some 3/4 for f64,bool,char,String,Tuple2,Tuple3,List; u8,i8,i16,u16,u32,i64,u64,usize,isize,f32 and f64 specials with the extreme values of the type on 12 shapes each; axis lengths 7..17 in every position, 256..1200-element literals; multi-argument and flat forms; separator/escape element texts; tuple/list String components with blanks and empty strings) + constructor/flat/single macros next to their functions; run-time: front-end macros on Debug texts of all shapes rank<=4 (len<=2 quick, <=3 thorough) + seeded random rank<=5 len<=4, exhaustive malformed texts over small alphabets; Display on every shape rank<=4 len<=3 (+empty, rank 0) x 16 element types (i32,f64,bool,char,String,Tuple2,List,u8,i8,i64,u64,usize,f32, f64 specials, Tuple3<String,..>, List<String>) x precision none/0/2 x plain/alternate, each through BOTH receivers (Array and the PrintableResult wrapper of Result<Array,_>, Ok and Err side), + big_shapes() and rows of 999..2000 elements / more than 1000 rows / totals above 1000 from short rows, + zero_shapes(), + seeded shapes with one axis up to 1100; Tuple/List text forms exhaustively over a 7-letter alphabet + components with blanks / empty / 300 characters + lists of 17/300/1030 items + typed round trips (9 Tuple2, 7 Tuple3, 13 List instantiations over the value classes of every primitive type); front-end macros also on big_shapes() up to 320 (thorough 1300) elements, [1030] and zero_shapes(). Part-2 streams: precisions 0..20, 31..33, 63..65, 100, 127..129, 200, 253..258, 300, 511..513, 1000, 1023, 1024, 1074, 1075, 1100, 4095, 4096 on f64 / f64 specials / f32 / Tuple2 / Tuple3 arrays plus one rotating further type, 1/3/5/255/256/300/1074 on all 18 element types, 32767/32768/65535 on float arrays, plain and pretty, both receivers; rows of 8191, 8192, 8193, 8194, 10000, 16384, 16385, 24577, 33000, 70000 elements, [2,8193], [2,10000], [1,1,8193], [8193,1], [8193,2], [3,2,20011] and huge_shapes() (the model answers itself: linear), [70000,2] thorough only; ranks 5..8 for the text form (18 types) and the run-time front ends; every printable ASCII character as char element, one-character String, tuple component and list item (charx / Stringx display subjects, rt char / rt string, t2/t3/list show and round trips, typed round trips for non-separator characters); seq lines = cases back to back on one thread (an array, then the same shape with its elements transposed / reversed / rotated / swapped, then the array again, 12 shapes x 18 types; collision_shape_pairs() in both orders; one shape through 12 element types; a refused text followed by a valid one for every front end, array_parse_shape!, the tuple / list parsers and the Err side of the wrapper); in exec every case A is re-run after the next case B, every array is rendered twice and once more after being rebuilt by collect + reshape + clone_from; compiled literals of ranks 5..8 and of every letter / digit / punctuation character. Round-5 streams: 73 compiled literals with impure items (iterator next / counter block / Vec pop / counting closure; i32,i64,u8,f64,bool,char,String,Tuple2,Tuple3,List incl. String components; nested ranks 1..3, multi-argument, flat) + 37 single / constructor macros with impure arguments, each item evaluated exactly once in reading order and the items' state checked afterwards; f32 literals of 243 decimal tokens next to the midpoint of two adjacent f32 values (64 pairs over the whole exponent range incl. subnormals and f32::MAX/inf; the shortest text of the midpoint, a 21-digit text, both f64 neighbours) and integers 2^k + 2^(k-24) + 1, 2^k + 3*2^(k-24) - 1 for k = 24..127 (i32 / i64 / u64 / u128 / negative i128 tokens), f32 components of pairs / triples / list items, every element bit-equal to the token read by str::parse::<f32>; f64 and f32 literals of constants, integer-valued floats and 2^k +- 1 ulp; array_zeros!/ones!/full!/eye!/identity! on 16777216..16974593 u8 elements ([16777217], [4097,4097], [2,8388609], [257,257,257]) compared in place with the functions; array_arange! with spans 2^32..2^63 and steps up to 2^60 on i64/u64/f64; Display and typed Tuple2/Tuple3/List round trips over the value pools f64k (constants, negatives, reciprocals, every integer-valued float in -1100..=1100), f64p (2^k and its two neighbours for every k in -1074..=1023) and f32k (the same for f32, k = -149..=127) under precisions none/0/1/2/3/5/9/16/17/18/20/30/255/1074 and seeded ones. distinct = distinct case lines; non-trivial = >=2 axes longer than 1 (lit, disp), text of >= 8 characters (rt, shape), any argument of >= 2 characters (text forms)" });
}
